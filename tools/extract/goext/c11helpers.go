package main

import (
	"go/ast"
	"go/parser"
	"go/token"
	"path/filepath"
)

// Helper facts for C11: what the functions on the path of a "deep" copy actually return.
//
// A field counted as deep (`F: Copy(s.F)`) is only deep if every function the call passes through — the `Copy`
// dispatcher, the type's `copy()` method, `copySlice`, `graph.Kinds.Copy` — hands back a freshly allocated
// object and never its own argument. The per-field classification of c11.go looks at the shape of the copying
// statement only (composite literal keys, the element loop); this file looks at every `return` of the helper:
//
//	returnsArg  some return (outside an `if arg == nil {…}` guard, where the argument IS nil) yields the argument
//	            itself: the receiver / parameter, an alias of it (`v := arg`, `any(arg).(T)`, `T(arg)`, `arg[i:j]`)
//	allocates   every return yields nil / a zero variable, a fresh object (composite literal, &literal, make, new,
//	            one-line constructor, the address of a local), a local variable that is only ever assigned fresh
//	            objects, or the result of a further helper applied to the argument (which has its own entry)
type c11Helper struct {
	name                  string
	allocates, returnsArg bool
}

type c11HelperScan struct {
	x       *c11ctx
	alias   map[string]bool // names denoting the argument
	assigns map[string][]ast.Expr
	zero    map[string]bool // `var v T` without initialiser
	res     c11Helper
	returns int
}

// c11Peel strips parentheses, `any(e).(T)`-style assertions, conversions `T(e)` / `[]E(e)` and slicing `e[i:j]`.
func c11Peel(e ast.Expr) ast.Expr {
	for {
		switch t := c11Unparen(e).(type) {
		case *ast.TypeAssertExpr:
			e = t.X
		case *ast.SliceExpr:
			e = t.X
		case *ast.CallExpr:
			if len(t.Args) != 1 {
				return t
			}
			switch f := t.Fun.(type) {
			case *ast.ArrayType, *ast.MapType, *ast.InterfaceType:
				e = t.Args[0]
			case *ast.Ident:
				if f.Name == "any" {
					e = t.Args[0]
				} else {
					return t
				}
			default:
				return t
			}
		default:
			return c11Unparen(e)
		}
	}
}

func (s *c11HelperScan) isAlias(e ast.Expr) bool {
	id, ok := c11Peel(e).(*ast.Ident)
	return ok && s.alias[id.Name]
}

// collect records every assignment `v = e` / `v := e` / `var v = e` and grows the alias set to a fixpoint.
func (s *c11HelperScan) collect(body []ast.Stmt) {
	s.assigns, s.zero = map[string][]ast.Expr{}, map[string]bool{}
	for _, st := range body {
		ast.Inspect(st, func(n ast.Node) bool {
			switch t := n.(type) {
			case *ast.FuncLit:
				return false
			case *ast.AssignStmt:
				if len(t.Lhs) == len(t.Rhs) {
					for i, l := range t.Lhs {
						if id, ok := l.(*ast.Ident); ok {
							s.assigns[id.Name] = append(s.assigns[id.Name], t.Rhs[i])
						}
					}
				} else {
					for _, l := range t.Lhs { // multi-value call: nothing is known about the results
						if id, ok := l.(*ast.Ident); ok {
							s.assigns[id.Name] = append(s.assigns[id.Name], &ast.BadExpr{})
						}
					}
				}
			case *ast.ValueSpec:
				for i, id := range t.Names {
					if i < len(t.Values) {
						s.assigns[id.Name] = append(s.assigns[id.Name], t.Values[i])
					} else {
						s.zero[id.Name] = true
					}
				}
			case *ast.RangeStmt: // range variables over the argument are elements, not the argument
			}
			return true
		})
	}
	for changed := true; changed; {
		changed = false
		for v, es := range s.assigns {
			if s.alias[v] {
				continue
			}
			for _, e := range es {
				if s.isAlias(e) {
					s.alias[v], changed = true, true
				}
			}
		}
	}
}

// freshValue: e is certainly not the argument and certainly a new object (or nil / a zero value)
func (s *c11HelperScan) freshValue(e ast.Expr, depth int) bool {
	e = c11Peel(e)
	if s.x.fresh(e, 0) {
		return true
	}
	switch t := e.(type) {
	case *ast.Ident:
		if t.Name == "nil" {
			return true
		}
		if s.alias[t.Name] || depth > 3 {
			return false
		}
		es := s.assigns[t.Name]
		if len(es) == 0 {
			return s.zero[t.Name]
		}
		for _, a := range es {
			if !s.freshValue(a, depth+1) {
				return false
			}
		}
		return true
	case *ast.StarExpr: // *p: the pointee's value is copied out
		return true
	case *ast.UnaryExpr: // &local
		if id, ok := c11Unparen(t.X).(*ast.Ident); ok && t.Op == token.AND {
			return !s.alias[id.Name]
		}
	case *ast.CallExpr: // a further helper applied to the argument: arg.copy(), arg.Copy(), copySlice(arg), Copy(arg)
		switch f := t.Fun.(type) {
		case *ast.SelectorExpr:
			return len(t.Args) == 0 && s.isAlias(f.X) && (f.Sel.Name == "copy" || f.Sel.Name == "Copy")
		case *ast.Ident:
			return len(t.Args) == 1 && s.isAlias(t.Args[0]) && (f.Name == "copySlice" || f.Name == "Copy")
		}
	}
	return false
}

func (s *c11HelperScan) stmts(list []ast.Stmt, argIsNil bool) {
	for _, st := range list {
		s.stmt(st, argIsNil)
	}
}

func (s *c11HelperScan) stmt(st ast.Stmt, argIsNil bool) {
	switch t := st.(type) {
	case *ast.ReturnStmt:
		s.returns++
		if len(t.Results) == 0 {
			s.res.allocates = false
			return
		}
		r := t.Results[0]
		switch {
		case s.isAlias(r):
			if !argIsNil {
				s.res.returnsArg = true
				s.res.allocates = false
			}
		case !s.freshValue(r, 0):
			s.res.allocates = false
		}
	case *ast.BlockStmt:
		s.stmts(t.List, argIsNil)
	case *ast.IfStmt:
		thenNil, elseNil := argIsNil, argIsNil
		if a := c11NilTest(t.Cond, token.EQL); a != nil && s.isAlias(a) {
			thenNil = true
		}
		if a := c11NilTest(t.Cond, token.NEQ); a != nil && s.isAlias(a) {
			elseNil = true
		}
		s.stmts(t.Body.List, thenNil)
		if t.Else != nil {
			s.stmt(t.Else, elseNil)
		}
	case *ast.ForStmt:
		s.stmts(t.Body.List, argIsNil)
	case *ast.RangeStmt:
		s.stmts(t.Body.List, argIsNil)
	case *ast.SwitchStmt:
		s.stmts(t.Body.List, argIsNil)
	case *ast.TypeSwitchStmt:
		s.stmts(t.Body.List, argIsNil)
	case *ast.CaseClause:
		s.stmts(t.Body, argIsNil)
	case *ast.LabeledStmt:
		s.stmt(t.Stmt, argIsNil)
	}
}

// analyzeHelper scans a function body; args are the names that denote the argument on entry.
func (x *c11ctx) analyzeHelper(name string, body []ast.Stmt, args ...string) c11Helper {
	s := &c11HelperScan{x: x, alias: map[string]bool{}, res: c11Helper{name: name, allocates: true}}
	for _, a := range args {
		if a != "" && a != "_" {
			s.alias[a] = true
		}
	}
	s.collect(body)
	s.stmts(body, false)
	if s.returns == 0 {
		s.res.allocates = false
	}
	return s.res
}

// buildHelpers fills x.helpers and every declaration's helper path.
func (x *c11ctx) buildHelpers(repo string) {
	index := map[string]int{}
	add := func(h c11Helper) int {
		if i, ok := index[h.name]; ok {
			return i
		}
		index[h.name] = len(x.helpers)
		x.helpers = append(x.helpers, h)
		return index[h.name]
	}
	missing := func(name string) int { return add(c11Helper{name: name}) } // not found: nothing is known
	fn := func(name string, fd *ast.FuncDecl, args ...string) int {
		if fd == nil || fd.Body == nil {
			return missing(name)
		}
		return add(x.analyzeHelper(name, fd.Body.List, args...))
	}

	// the dispatcher: everything of Copy's body except the `default:` clause (caller-supplied extensions for types
	// without a case, which the model treats as a panic)
	cp := x.funcs["Copy"]
	var body []ast.Stmt
	for _, st := range cp.Body.List {
		if ts, ok := st.(*ast.TypeSwitchStmt); ok {
			cl := &ast.BlockStmt{}
			for _, c := range ts.Body.List {
				if cc := c.(*ast.CaseClause); cc.List != nil {
					cl.List = append(cl.List, cc)
				}
			}
			body = append(body, &ast.TypeSwitchStmt{Init: ts.Init, Assign: ts.Assign, Body: cl})
		} else {
			body = append(body, st)
		}
	}
	args := append(c11Params(cp), x.copyVar)
	dispatch := add(x.analyzeHelper("Copy", body, args...))

	method := func(tn string) int {
		fd := x.methods[tn]["copy"]
		if fd == nil {
			return missing(tn + ".copy")
		}
		return fn(tn+".copy", fd, c11RecvName(fd))
	}
	copySlice := func() int {
		fd := x.funcs["copySlice"]
		if fd == nil {
			return missing("copySlice")
		}
		return fn("copySlice", fd, c11Params(fd)...)
	}
	kindsCopy := func() int { // the one external helper: graph.Kinds.Copy in graph/*.go
		name := c11Kinds + ".Copy"
		if i, ok := index[name]; ok {
			return i
		}
		files, _ := filepath.Glob(filepath.Join(repo, "graph", "*.go"))
		for _, f := range files {
			if len(f) > 8 && f[len(f)-8:] == "_test.go" {
				continue
			}
			af, err := parser.ParseFile(token.NewFileSet(), f, nil, 0)
			if err != nil {
				continue
			}
			for _, d := range af.Decls {
				if fd, ok := d.(*ast.FuncDecl); ok && fd.Name.Name == "Copy" && recvType(fd) == "Kinds" {
					return fn(name, fd, c11RecvName(fd))
				}
			}
		}
		return missing(name)
	}

	for _, d := range x.decls {
		if !d.copyCase {
			continue
		}
		path := []int{dispatch}
		t := x.types[d.goName]
		switch {
		case d.shape == "obj" && d.goName != "" && t != nil && x.under(t.Type, 0) == "struct":
			path = append(path, method(d.goName))
		case d.shape == "map", d.shape == "obj" && d.goName != "": // MapLiteral, *ListLiteral
			path = append(path, method(d.goName))
		case d.shape == "list" && d.goName != "": // the slice behind *ListLiteral: ListLiteral.copy, then Copy([]E(*s)) -> copySlice
			path = append(path, method(d.goName), copySlice())
		case d.name == c11Kinds:
			path = append(path, kindsCopy())
		case d.shape == "list":
			if cc := x.copyCases[d.name]; cc != nil && len(cc.Body) == 1 && c11Call(c11AnyOf(cc.Body[0]), "copySlice") != nil {
				path = append(path, copySlice())
			} // else: copied inline in the case (covered by the dispatcher's own scan)
		}
		d.helpers = path
	}
}
