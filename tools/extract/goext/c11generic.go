package main

import (
	"fmt"
	"go/ast"
	"go/token"
	"path/filepath"
)

// Shape facts about walk.Generic (cypher/models/walk/walk.go) that the Lean transcription (Model/C11 §5) relies on,
// read off the loop body syntactically. For every visitor callback call site, in source order:
//
//	<Kind>#<n>.errorChecked    the next statement is `if err := visitor.Error(); err != nil { return err }`
//	<Kind>#<n>.doneChecked     (Enter, Visit) the statement after that is `if visitor.Done() { return nil }`
//	Exit#<n>.clearsConsumed    (Exit) the statements that follow in the same block, before the cursor is popped
//	                           (`stack = stack[…]`), contain a `visitor.WasConsumed()` call: the flag is read-and-cleared
//	                           after every callback the branch ran, so a Consume issued in Exit cannot leak to the parent
//	Exit#<n>.popsAfter         the block pops the cursor after the Exit
//
// plus the number of call sites per kind (the transcription has 1 Enter, 1 Visit, 3 Exit sites).
type c11GenericFacts struct {
	facts                 [][2]string // name, "true"/"false"
	enters, visits, exits int
}

func c11VisitorCall(st ast.Stmt, vis string) string {
	es, ok := st.(*ast.ExprStmt)
	if !ok {
		return ""
	}
	c, ok := es.X.(*ast.CallExpr)
	if !ok {
		return ""
	}
	sel, ok := c.Fun.(*ast.SelectorExpr)
	if !ok || !c11IsIdent(sel.X, vis) {
		return ""
	}
	return sel.Sel.Name
}

func c11IsErrCheck(st ast.Stmt, vis string) bool {
	is, ok := st.(*ast.IfStmt)
	if !ok || is.Init == nil || len(is.Body.List) != 1 {
		return false
	}
	as, ok := is.Init.(*ast.AssignStmt)
	if !ok || len(as.Rhs) != 1 {
		return false
	}
	c, ok := as.Rhs[0].(*ast.CallExpr)
	if !ok {
		return false
	}
	sel, ok := c.Fun.(*ast.SelectorExpr)
	if !ok || sel.Sel.Name != "Error" || !c11IsIdent(sel.X, vis) {
		return false
	}
	rs, ok := is.Body.List[0].(*ast.ReturnStmt)
	return ok && c11NilTest(is.Cond, token.NEQ) != nil && len(rs.Results) == 1
}

func c11IsDoneCheck(st ast.Stmt, vis string) bool {
	is, ok := st.(*ast.IfStmt)
	if !ok || is.Init != nil || len(is.Body.List) != 1 {
		return false
	}
	c, ok := is.Cond.(*ast.CallExpr)
	if !ok {
		return false
	}
	sel, ok := c.Fun.(*ast.SelectorExpr)
	if !ok || sel.Sel.Name != "Done" || !c11IsIdent(sel.X, vis) {
		return false
	}
	rs, ok := is.Body.List[0].(*ast.ReturnStmt)
	return ok && len(rs.Results) == 1 && c11IsIdent(rs.Results[0], "nil")
}

func c11IsPop(st ast.Stmt) bool {
	as, ok := st.(*ast.AssignStmt)
	if !ok || len(as.Lhs) != 1 || len(as.Rhs) != 1 {
		return false
	}
	_, isSlice := as.Rhs[0].(*ast.SliceExpr)
	return isSlice && c11IsIdent(as.Lhs[0], "stack")
}

func c11GenericShape(repo string) (*c11GenericFacts, error) {
	_, files, err := parseDir(filepath.Join(repo, filepath.FromSlash(c11WalkDir)))
	if err != nil {
		return nil, err
	}
	var fd *ast.FuncDecl
	for _, f := range files {
		for _, d := range f.Decls {
			if g, ok := d.(*ast.FuncDecl); ok && g.Recv == nil && g.Name.Name == "Generic" {
				fd = g
			}
		}
	}
	if fd == nil || fd.Body == nil {
		return nil, fmt.Errorf("c11: func Generic not found in %s", c11WalkDir)
	}
	ps := c11Params(fd)
	if len(ps) < 2 {
		return nil, fmt.Errorf("c11: Generic has no visitor parameter")
	}
	vis := ps[1]
	out := &c11GenericFacts{}
	fact := func(name string, v bool) { out.facts = append(out.facts, [2]string{name, fmt.Sprint(v)}) }
	ast.Inspect(fd.Body, func(n ast.Node) bool {
		blk, ok := n.(*ast.BlockStmt)
		if !ok {
			return true
		}
		for i, st := range blk.List {
			kind := c11VisitorCall(st, vis)
			if kind != "Enter" && kind != "Visit" && kind != "Exit" {
				continue
			}
			var id string
			switch kind {
			case "Enter":
				out.enters++
				id = fmt.Sprintf("Enter#%d", out.enters)
			case "Visit":
				out.visits++
				id = fmt.Sprintf("Visit#%d", out.visits)
			default:
				out.exits++
				id = fmt.Sprintf("Exit#%d", out.exits)
			}
			rest := blk.List[i+1:]
			errOK := len(rest) > 0 && c11IsErrCheck(rest[0], vis)
			fact(id+".errorChecked", errOK)
			if kind != "Exit" {
				fact(id+".doneChecked", errOK && len(rest) > 1 && c11IsDoneCheck(rest[1], vis))
				continue
			}
			clears, pops := false, false
			for _, r := range rest {
				if c11IsPop(r) {
					pops = true
					break
				}
				if c11VisitorCall(r, vis) == "WasConsumed" {
					clears = true
				}
			}
			fact(id+".clearsConsumed", clears && pops)
			fact(id+".popsAfter", pops)
		}
		return true
	})
	return out, nil
}
