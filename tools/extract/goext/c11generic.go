package main

import (
	"fmt"
	"go/ast"
	"go/token"
	"path/filepath"
)

// Shape facts about walk.Generic (cypher/models/walk/walk.go) that the Lean transcription (Model/C11 §5) relies on,
// read off the loop body syntactically. For every visitor callback call site, in source order:
//
//	<Kind>#<n>.errorChecked    the next statement is `if err := visitor.Error(); err != nil { return err }`
//	<Kind>#<n>.doneChecked     (Enter, Visit) the statement after that is `if visitor.Done() { return nil }`
//	Exit#<n>.clearsConsumed    (Exit) the statements that follow in the same block, before the cursor is popped
//	                           (`stack = stack[…]`), contain a `visitor.WasConsumed()` call: the flag is read-and-cleared
//	                           after every callback the branch ran, so a Consume issued in Exit cannot leak to the parent
//	Exit#<n>.popsAfter         the block pops the cursor after the Exit
//
// plus the number of call sites per kind (the transcription has 1 Enter, 1 Visit, 3 Exit sites).
type c11GenericFacts struct {
	facts                 [][2]string // name, "true"/"false"
	enters, visits, exits int
}

func c11VisitorCall(st ast.Stmt, vis string) string {
	es, ok := st.(*ast.ExprStmt)
	if !ok {
		return ""
	}
	c, ok := es.X.(*ast.CallExpr)
	if !ok {
		return ""
	}
	sel, ok := c.Fun.(*ast.SelectorExpr)
	if !ok || !c11IsIdent(sel.X, vis) {
		return ""
	}
	return sel.Sel.Name
}

func c11IsErrCheck(st ast.Stmt, vis string) bool {
	is, ok := st.(*ast.IfStmt)
	if !ok || is.Init == nil || len(is.Body.List) != 1 {
		return false
	}
	as, ok := is.Init.(*ast.AssignStmt)
	if !ok || len(as.Rhs) != 1 {
		return false
	}
	c, ok := as.Rhs[0].(*ast.CallExpr)
	if !ok {
		return false
	}
	sel, ok := c.Fun.(*ast.SelectorExpr)
	if !ok || sel.Sel.Name != "Error" || !c11IsIdent(sel.X, vis) {
		return false
	}
	rs, ok := is.Body.List[0].(*ast.ReturnStmt)
	return ok && c11NilTest(is.Cond, token.NEQ) != nil && len(rs.Results) == 1
}

func c11IsDoneCheck(st ast.Stmt, vis string) bool {
	is, ok := st.(*ast.IfStmt)
	if !ok || is.Init != nil || len(is.Body.List) != 1 {
		return false
	}
	c, ok := is.Cond.(*ast.CallExpr)
	if !ok {
		return false
	}
	sel, ok := c.Fun.(*ast.SelectorExpr)
	if !ok || sel.Sel.Name != "Done" || !c11IsIdent(sel.X, vis) {
		return false
	}
	rs, ok := is.Body.List[0].(*ast.ReturnStmt)
	return ok && len(rs.Results) == 1 && c11IsIdent(rs.Results[0], "nil")
}

func c11IsPop(st ast.Stmt) bool {
	as, ok := st.(*ast.AssignStmt)
	if !ok || len(as.Lhs) != 1 || len(as.Rhs) != 1 {
		return false
	}
	_, isSlice := as.Rhs[0].(*ast.SliceExpr)
	return isSlice && c11IsIdent(as.Lhs[0], "stack")
}

func c11GenericShape(repo string) (*c11GenericFacts, error) {
	_, files, err := parseDir(filepath.Join(repo, filepath.FromSlash(c11WalkDir)))
	if err != nil {
		return nil, err
	}
	var fd *ast.FuncDecl
	for _, f := range files {
		for _, d := range f.Decls {
			if g, ok := d.(*ast.FuncDecl); ok && g.Recv == nil && g.Name.Name == "Generic" {
				fd = g
			}
		}
	}
	if fd == nil || fd.Body == nil {
		return nil, fmt.Errorf("c11: func Generic not found in %s", c11WalkDir)
	}
	ps := c11Params(fd)
	if len(ps) < 2 {
		return nil, fmt.Errorf("c11: Generic has no visitor parameter")
	}
	vis := ps[1]
	out := &c11GenericFacts{}
	fact := func(name string, v bool) { out.facts = append(out.facts, [2]string{name, fmt.Sprint(v)}) }
	ast.Inspect(fd.Body, func(n ast.Node) bool {
		blk, ok := n.(*ast.BlockStmt)
		if !ok {
			return true
		}
		for i, st := range blk.List {
			kind := c11VisitorCall(st, vis)
			if kind != "Enter" && kind != "Visit" && kind != "Exit" {
				continue
			}
			var id string
			switch kind {
			case "Enter":
				out.enters++
				id = fmt.Sprintf("Enter#%d", out.enters)
			case "Visit":
				out.visits++
				id = fmt.Sprintf("Visit#%d", out.visits)
			default:
				out.exits++
				id = fmt.Sprintf("Exit#%d", out.exits)
			}
			rest := blk.List[i+1:]
			errOK := len(rest) > 0 && c11IsErrCheck(rest[0], vis)
			fact(id+".errorChecked", errOK)
			if kind != "Exit" {
				fact(id+".doneChecked", errOK && len(rest) > 1 && c11IsDoneCheck(rest[1], vis))
				continue
			}
			clears, pops := false, false
			for _, r := range rest {
				if c11IsPop(r) {
					pops = true
					break
				}
				if c11VisitorCall(r, vis) == "WasConsumed" {
					clears = true
				}
			}
			fact(id+".clearsConsumed", clears && pops)
			fact(id+".popsAfter", pops)
		}
		return true
	})
	return out, nil
}

// Shape facts about the visitor handler (the type NewCancelableErrorHandler returns) that `Handler.call` /
// `clearConsumed` in Model/C11 transcribe:
//
//	SetError.onlyWhenNonNil   the body is exactly `if err != nil { … }`: a nil error changes nothing
//	SetError.setsDoneAndErr   inside that guard the error field is assigned and done is set to true
//	SetErrorf.viaSetError     SetErrorf only calls SetError
//	SetDone.setsDoneOnly      body is exactly `s.<done> = true`
//	Consume.setsFlagOnly      body is exactly `s.<flag> = true`
//	WasConsumed.readAndClear  reads the flag into a local, sets the flag to false, returns the local
//	Done.readsDone / Error.readsErr   plain field reads
func c11HandlerShape(repo string) ([][2]string, error) {
	_, files, err := parseDir(filepath.Join(repo, filepath.FromSlash(c11WalkDir)))
	if err != nil {
		return nil, err
	}
	methods := map[string]map[string]*ast.FuncDecl{}
	var ctor *ast.FuncDecl
	for _, f := range files {
		for _, d := range f.Decls {
			g, ok := d.(*ast.FuncDecl)
			if !ok {
				continue
			}
			if rt := recvType(g); rt != "" {
				if methods[rt] == nil {
					methods[rt] = map[string]*ast.FuncDecl{}
				}
				methods[rt][g.Name.Name] = g
			} else if g.Name.Name == "NewCancelableErrorHandler" {
				ctor = g
			}
		}
	}
	tn := ""
	if ctor != nil && ctor.Body != nil && len(ctor.Body.List) == 1 {
		if rs, ok := ctor.Body.List[0].(*ast.ReturnStmt); ok && len(rs.Results) == 1 {
			if u, ok := rs.Results[0].(*ast.UnaryExpr); ok {
				if cl, ok := u.X.(*ast.CompositeLit); ok {
					if id, ok := cl.Type.(*ast.Ident); ok {
						tn = id.Name
					}
				}
			}
		}
	}
	ms := methods[tn]
	if tn == "" || ms == nil {
		return nil, fmt.Errorf("c11: handler type of NewCancelableErrorHandler not found")
	}
	var out [][2]string
	fact := func(name string, v bool) { out = append(out, [2]string{name, fmt.Sprint(v)}) }
	body := func(m string) (recv string, stmts []ast.Stmt) {
		if fd := ms[m]; fd != nil && fd.Body != nil {
			return c11RecvName(fd), fd.Body.List
		}
		return "", nil
	}
	// `recv.<field> = <ident val>`; returns the field name
	assignsConst := func(st ast.Stmt, recv, val string) string {
		as, ok := st.(*ast.AssignStmt)
		if !ok || as.Tok != token.ASSIGN || len(as.Lhs) != 1 || len(as.Rhs) != 1 || !c11IsIdent(as.Rhs[0], val) {
			return ""
		}
		sel, ok := as.Lhs[0].(*ast.SelectorExpr)
		if !ok || !c11IsIdent(sel.X, recv) {
			return ""
		}
		return sel.Sel.Name
	}
	returnsField := func(stmts []ast.Stmt, recv string) string {
		if len(stmts) != 1 {
			return ""
		}
		rs, ok := stmts[0].(*ast.ReturnStmt)
		if !ok || len(rs.Results) != 1 {
			return ""
		}
		sel, ok := rs.Results[0].(*ast.SelectorExpr)
		if !ok || !c11IsIdent(sel.X, recv) {
			return ""
		}
		return sel.Sel.Name
	}

	recv, st := body("SetDone")
	doneField := ""
	if len(st) == 1 {
		doneField = assignsConst(st[0], recv, "true")
	}
	fact("SetDone.setsDoneOnly", doneField != "")
	recv, st = body("Done")
	fact("Done.readsDone", doneField != "" && returnsField(st, recv) == doneField)
	recv, st = body("Error")
	errField := returnsField(st, recv)
	fact("Error.readsErr", errField != "" && errField != doneField)

	recv, st = body("Consume")
	flag := ""
	if len(st) == 1 {
		flag = assignsConst(st[0], recv, "true")
	}
	fact("Consume.setsFlagOnly", flag != "" && flag != doneField && flag != errField)

	// WasConsumed: v := s.flag; s.flag = false; return v
	recv, st = body("WasConsumed")
	rc := false
	if len(st) == 3 && flag != "" {
		as, ok := st[0].(*ast.AssignStmt)
		if ok && len(as.Lhs) == 1 && len(as.Rhs) == 1 {
			if v, ok := as.Lhs[0].(*ast.Ident); ok {
				if sel, ok := as.Rhs[0].(*ast.SelectorExpr); ok && c11IsIdent(sel.X, recv) && sel.Sel.Name == flag {
					if assignsConst(st[1], recv, "false") == flag {
						if rs, ok := st[2].(*ast.ReturnStmt); ok && len(rs.Results) == 1 && c11IsIdent(rs.Results[0], v.Name) {
							rc = true
						}
					}
				}
			}
		}
	}
	fact("WasConsumed.readAndClear", rc)

	// SetError(err): exactly `if err != nil { … err field assigned … ; s.done = true }`
	guarded, sets := false, false
	if fd := ms["SetError"]; fd != nil && fd.Body != nil && len(c11Params(fd)) == 1 {
		recv, p := c11RecvName(fd), c11Params(fd)[0]
		if len(fd.Body.List) == 1 {
			if is, ok := fd.Body.List[0].(*ast.IfStmt); ok && is.Init == nil && is.Else == nil {
				if x := c11NilTest(is.Cond, token.NEQ); x != nil && c11IsIdent(x, p) {
					guarded = true
					setsDone, setsErr := false, false
					ast.Inspect(is.Body, func(n ast.Node) bool {
						if as, ok := n.(*ast.AssignStmt); ok && len(as.Lhs) == 1 {
							if sel, ok := as.Lhs[0].(*ast.SelectorExpr); ok && c11IsIdent(sel.X, recv) {
								if sel.Sel.Name == doneField && len(as.Rhs) == 1 && c11IsIdent(as.Rhs[0], "true") {
									setsDone = true
								}
								if sel.Sel.Name == errField {
									setsErr = true
								}
							}
						}
						return true
					})
					sets = setsDone && setsErr
				}
			}
		}
	}
	fact("SetError.onlyWhenNonNil", guarded)
	fact("SetError.setsDoneAndErr", sets)

	// SetErrorf: s.SetError(fmt.Errorf(...))
	via := false
	recv, st = body("SetErrorf")
	if len(st) == 1 {
		if es, ok := st[0].(*ast.ExprStmt); ok {
			if c, ok := es.X.(*ast.CallExpr); ok && len(c.Args) == 1 {
				if sel, ok := c.Fun.(*ast.SelectorExpr); ok && sel.Sel.Name == "SetError" && c11IsIdent(sel.X, recv) {
					via = true
				}
			}
		}
	}
	fact("SetErrorf.viaSetError", via)
	return out, nil
}
