package main

import (
	"fmt"
	"go/ast"
	"go/token"
	"path/filepath"
	"sort"
	"strings"
)

// c15: value freshness in package algo (reach.go, scc.go) — for every function whose result mentions
// cardinality.Duplex: the provenance of every returned expression (freshly allocated / clone / internal
// field / result of another function, resolved transitively), and for every mutating bitmap call
// (Add, Or, Xor, And, AndNot, Remove, Clear, CheckedAdd) the provenance of its receiver (a parameter
// of the function, a fresh local, a DFS cursor's own reach bitmap, or anything else).
func init() { modes["c15"] = c15Facts }

var c15Mutators = map[string]bool{"Add": true, "Or": true, "Xor": true, "And": true, "AndNot": true, "Remove": true, "Clear": true, "CheckedAdd": true}

type c15Fn struct {
	name, recv, resKind string
	exported            bool
	decl                *ast.FuncDecl
	fset                *token.FileSet
}

type c15Ctx struct {
	fns   map[string]*c15Fn
	memo  map[string]int // 0 unknown, 1 in progress, 2 fresh, 3 not fresh
	order []string
}

func c15ResultKind(fd *ast.FuncDecl) string {
	if fd.Type.Results == nil {
		return ""
	}
	for _, r := range fd.Type.Results.List {
		s := c15TypeString(r.Type)
		if strings.Contains(s, "Duplex") {
			if strings.HasPrefix(s, "[]") {
				return "slice"
			}
			return "bitmap"
		}
	}
	return ""
}

func c15TypeString(e ast.Expr) string {
	switch x := e.(type) {
	case *ast.ArrayType:
		return "[]" + c15TypeString(x.Elt)
	case *ast.IndexExpr:
		return c15TypeString(x.X)
	case *ast.SelectorExpr:
		return exprString(x.X) + "." + x.Sel.Name
	case *ast.Ident:
		return x.Name
	case *ast.StarExpr:
		return "*" + c15TypeString(x.X)
	}
	return "?"
}

func c15CalleeName(c *ast.CallExpr) string {
	switch f := c.Fun.(type) {
	case *ast.SelectorExpr:
		return f.Sel.Name
	case *ast.Ident:
		return f.Name
	case *ast.IndexExpr: // generic instantiation
		return exprString(f.X)
	}
	return ""
}

func c15IsParam(fd *ast.FuncDecl, name string) bool {
	for _, p := range fd.Type.Params.List {
		for _, n := range p.Names {
			if n.Name == name {
				return true
			}
		}
	}
	return false
}

// classes of everything ever assigned to the local `name` inside fd
func (c *c15Ctx) localClasses(fn *c15Fn, name string, depth int) []string {
	var classes []string
	add := func(rhs ast.Expr, multi bool) {
		if multi {
			if call, ok := rhs.(*ast.CallExpr); ok {
				classes = append(classes, "multi:"+exprString(call.Fun))
			} else {
				classes = append(classes, "multi:?")
			}
			return
		}
		// x = append(x, e...) contributes the classes of the appended elements
		if call, ok := rhs.(*ast.CallExpr); ok && exprString(call.Fun) == "append" && len(call.Args) >= 1 {
			if id, ok := call.Args[0].(*ast.Ident); ok && id.Name == name {
				for _, a := range call.Args[1:] {
					classes = append(classes, "elem:"+c.exprClass(fn, a, depth+1))
				}
				return
			}
		}
		classes = append(classes, c.exprClass(fn, rhs, depth+1))
	}
	ast.Inspect(fn.decl.Body, func(n ast.Node) bool {
		switch x := n.(type) {
		case *ast.AssignStmt:
			for i, l := range x.Lhs {
				if id, ok := l.(*ast.Ident); ok && id.Name == name {
					if len(x.Rhs) == len(x.Lhs) {
						add(x.Rhs[i], false)
					} else if len(x.Rhs) == 1 {
						add(x.Rhs[0], true)
					}
				}
			}
		case *ast.ValueSpec:
			for i, id := range x.Names {
				if id.Name == name {
					if len(x.Values) == len(x.Names) {
						add(x.Values[i], false)
					} else if len(x.Values) == 1 {
						add(x.Values[0], true)
					} else if len(x.Values) == 0 {
						classes = append(classes, "zero")
					}
				}
			}
		}
		return true
	})
	return classes
}

func c15FreshClass(s string) bool {
	return s == "new" || s == "clone" || s == "make" || s == "nil" || s == "zero" || s == "freshlocal" || strings.HasPrefix(s, "freshcall:")
}

func (c *c15Ctx) exprClass(fn *c15Fn, e ast.Expr, depth int) string {
	if depth > 8 {
		return "deep"
	}
	switch x := e.(type) {
	case *ast.ParenExpr:
		return c.exprClass(fn, x.X, depth)
	case *ast.CallExpr:
		fun := exprString(x.Fun)
		name := c15CalleeName(x)
		switch {
		case fun == "cardinality.NewBitmap64" || fun == "cardinality.NewBitmap64With" || fun == "cardinality.NewBitmap32" || fun == "cardinality.NewBitmap32With":
			return "new"
		case name == "Clone":
			return "clone"
		case fun == "make":
			return "make"
		}
		if callee, ok := c.fns[name]; ok && callee.resKind != "" {
			if c.fresh(name) {
				return "freshcall:" + name
			}
			return "sharedcall:" + name
		}
		return "extcall:" + fun
	case *ast.Ident:
		if x.Name == "nil" {
			return "nil"
		}
		if c15IsParam(fn.decl, x.Name) {
			return "param:" + x.Name
		}
		cls := c.localClasses(fn, x.Name, depth)
		if len(cls) == 0 {
			return "unknown:" + x.Name
		}
		all := true
		for _, k := range cls {
			k = strings.TrimPrefix(k, "elem:")
			if !c15FreshClass(k) {
				all = false
			}
		}
		if all {
			return "freshlocal"
		}
		sort.Strings(cls)
		return "local(" + strings.Join(cls, "|") + ")"
	case *ast.SelectorExpr:
		if x.Sel.Name == "reach" {
			return "cursor:" + exprString(x)
		}
		return "field:" + exprString(x)
	case *ast.IndexExpr:
		return "field:" + exprString(x)
	}
	return "other:" + exprString(e)
}

func (c *c15Ctx) returns(fn *c15Fn) []ast.Expr {
	var out []ast.Expr
	ast.Inspect(fn.decl.Body, func(n ast.Node) bool {
		if _, ok := n.(*ast.FuncLit); ok {
			return false // returns of closures are not returns of fn
		}
		if r, ok := n.(*ast.ReturnStmt); ok && len(r.Results) > 0 {
			out = append(out, r.Results[0])
		}
		return true
	})
	return out
}

func (c *c15Ctx) fresh(name string) bool {
	switch c.memo[name] {
	case 1:
		return false
	case 2:
		return true
	case 3:
		return false
	}
	c.memo[name] = 1
	fn := c.fns[name]
	ok := true
	for _, r := range c.returns(fn) {
		if !c15FreshClass(c.exprClass(fn, r, 0)) {
			ok = false
		}
	}
	if ok {
		c.memo[name] = 2
	} else {
		c.memo[name] = 3
	}
	return ok
}

func c15Facts(repo string, w *strings.Builder) error {
	fset, files, err := parseDir(filepath.Join(repo, "algo"))
	if err != nil {
		return err
	}
	ctx := &c15Ctx{fns: map[string]*c15Fn{}, memo: map[string]int{}}
	for _, f := range files {
		for _, d := range f.Decls {
			fd, ok := d.(*ast.FuncDecl)
			if !ok || fd.Body == nil {
				continue
			}
			fn := &c15Fn{name: fd.Name.Name, recv: recvType(fd), resKind: c15ResultKind(fd), exported: fd.Name.IsExported(), decl: fd, fset: fset}
			key := fn.name
			if _, dup := ctx.fns[key]; dup {
				key = fn.recv + "." + fn.name
			}
			ctx.fns[key] = fn
			ctx.order = append(ctx.order, key)
		}
	}
	sort.Strings(ctx.order)
	b := func(v bool) string {
		if v {
			return "true"
		}
		return "false"
	}
	fmt.Fprintln(w, "/- GENERATED by tools/extract/goext (mode c15) from algo/*.go — do not edit. -/")
	fmt.Fprintln(w, "namespace Dawgs.Generated.C15Fresh")
	fmt.Fprintln(w, "/-- (function, receiver type, exported, result kind bitmap|slice, provenance of the returned expression, fresh) — one row per return statement -/")
	fmt.Fprintln(w, "def returns : List (String × String × Bool × String × String × Bool) := [")
	var rows []string
	for _, k := range ctx.order {
		fn := ctx.fns[k]
		if fn.resKind == "" {
			continue
		}
		for _, r := range ctx.returns(fn) {
			cls := ctx.exprClass(fn, r, 0)
			rows = append(rows, fmt.Sprintf("  (%s, %s, %s, %s, %s, %s)", leanStr(fn.name), leanStr(fn.recv), b(fn.exported), leanStr(fn.resKind), leanStr(cls), b(c15FreshClass(cls))))
		}
	}
	fmt.Fprintln(w, strings.Join(rows, ",\n"))
	fmt.Fprintln(w, "]")
	fmt.Fprintln(w, "/-- (function, receiver type, exported, mutating bitmap method, receiver kind param|freshlocal|cursor|other, provenance detail) — one row per call -/")
	fmt.Fprintln(w, "def mutations : List (String × String × Bool × String × String × String) := [")
	rows = nil
	for _, k := range ctx.order {
		fn := ctx.fns[k]
		ast.Inspect(fn.decl.Body, func(n ast.Node) bool {
			call, ok := n.(*ast.CallExpr)
			if !ok {
				return true
			}
			sel, ok := call.Fun.(*ast.SelectorExpr)
			if !ok || !c15Mutators[sel.Sel.Name] {
				return true
			}
			cls := ctx.exprClass(fn, sel.X, 0)
			// atomic counters / statistics are not bitmaps
			if strings.Contains(exprString(sel.X), "tats") {
				return true
			}
			kind := "other"
			switch {
			case strings.HasPrefix(cls, "param:"):
				kind = "param"
			case cls == "freshlocal":
				kind = "freshlocal"
			case strings.HasPrefix(cls, "cursor:"):
				kind = "cursor"
			}
			rows = append(rows, fmt.Sprintf("  (%s, %s, %s, %s, %s, %s)", leanStr(fn.name), leanStr(fn.recv), b(fn.exported), leanStr(sel.Sel.Name), leanStr(kind), leanStr(cls)))
			return true
		})
	}
	fmt.Fprintln(w, strings.Join(rows, ",\n"))
	fmt.Fprintln(w, "]")
	fmt.Fprintln(w, "end Dawgs.Generated.C15Fresh")
	return nil
}
