module goext

go 1.23
