package main

import (
	"bytes"
	"fmt"
	"go/ast"
	"go/printer"
	"go/token"
	"path/filepath"
	"strings"
)

// c02guard: the guards of the limit-pushdown lowering and of the count-store fast path, read off the Go AST as source text.
//
//	planGuard      = disjuncts of the `if … { return false }` in optimize.queryPartAllowsLimitPushdown
//	tailGuard      = disjuncts of every `if … { return "", false }` of translate.limitPushdownTailSource, in source order
//	transparentWhere = the conditions / definitions / returns of translate.shortestPathLimitPushdownTransparentWhere, in source order
//	countFastGuard = disjuncts of every early `return CountStoreFastPathDecision{}, false` / `return "", false` condition of
//	                 optimize.countStoreFastPathDecision and optimize.simpleCountProjectionArgument, in source order
//
// A disjunct is rendered by go/printer; the Lean side lists the same strings next to their meaning and compares by `decide`,
// so adding, removing or changing a condition in the Go source breaks the tie theorem.
func init() { modes["c02guard"] = c02GuardFacts }

func c02ExprText(fset *token.FileSet, e ast.Expr) string {
	var b bytes.Buffer
	_ = printer.Fprint(&b, fset, e)
	return strings.Join(strings.Fields(b.String()), " ")
}

func disjuncts(e ast.Expr, out *[]ast.Expr) {
	if p, ok := e.(*ast.ParenExpr); ok {
		disjuncts(p.X, out)
		return
	}
	if be, ok := e.(*ast.BinaryExpr); ok && be.Op == token.LOR {
		disjuncts(be.X, out)
		disjuncts(be.Y, out)
		return
	}
	*out = append(*out, e)
}

// returnsFalse: the block is a single `return …, false` / `return false`.
func returnsFalse(b *ast.BlockStmt) bool {
	if b == nil || len(b.List) != 1 {
		return false
	}
	r, ok := b.List[0].(*ast.ReturnStmt)
	if !ok || len(r.Results) == 0 {
		return false
	}
	id, ok := r.Results[len(r.Results)-1].(*ast.Ident)
	return ok && id.Name == "false"
}

func guardOf(fset *token.FileSet, files []*ast.File, fn string) ([]string, error) {
	for _, f := range files {
		for _, d := range f.Decls {
			fd, ok := d.(*ast.FuncDecl)
			if !ok || fd.Name.Name != fn || fd.Body == nil {
				continue
			}
			var conds []string
			// top-level statements only: nested early returns belong to sub-cases, not to the guard
			var walk func(stmts []ast.Stmt)
			walk = func(stmts []ast.Stmt) {
				for _, s := range stmts {
					is, ok := s.(*ast.IfStmt)
					if !ok {
						continue
					}
					if returnsFalse(is.Body) {
						var ds []ast.Expr
						disjuncts(is.Cond, &ds)
						for _, e := range ds {
							conds = append(conds, c02ExprText(fset, e))
						}
					} else if is.Init == nil {
						// a positive branch (`if len(elements) == 1 { … }`): its early returns are guards of that branch
						conds = append(conds, "BRANCH "+c02ExprText(fset, is.Cond))
						walk(is.Body.List)
						conds = append(conds, "END")
					}
				}
			}
			walk(fd.Body.List)
			if len(conds) == 0 {
				return nil, fmt.Errorf("no guard conditions found in %s", fn)
			}
			return conds, nil
		}
	}
	return nil, fmt.Errorf("function %s not found", fn)
}

// funcFacts: every if-condition, short variable declaration, return statement and call on `errorHandler` of a function (closures included), in
// source order, as printed source text. Any edit of the function's decision logic changes the list.
func funcFacts(fset *token.FileSet, files []*ast.File, fn string) ([]string, error) {
	for _, f := range files {
		for _, d := range f.Decls {
			fd, ok := d.(*ast.FuncDecl)
			if !ok || fd.Name.Name != fn || fd.Body == nil {
				continue
			}
			var facts []string
			ast.Inspect(fd.Body, func(n ast.Node) bool {
				switch t := n.(type) {
				case *ast.IfStmt:
					facts = append(facts, "if "+c02ExprText(fset, t.Cond))
				case *ast.AssignStmt:
					if t.Tok == token.DEFINE && len(t.Lhs) == 1 && len(t.Rhs) == 1 {
						if _, isFunc := t.Rhs[0].(*ast.FuncLit); !isFunc {
							facts = append(facts, c02ExprText(fset, t.Lhs[0])+" := "+c02ExprText(fset, t.Rhs[0]))
						}
					}
				case *ast.ReturnStmt:
					var rs []string
					for _, r := range t.Results {
						rs = append(rs, c02ExprText(fset, r))
					}
					facts = append(facts, "return "+strings.Join(rs, ", "))
				case *ast.CallExpr:
					if sel, ok := t.Fun.(*ast.SelectorExpr); ok {
						if id, ok := sel.X.(*ast.Ident); ok && id.Name == "errorHandler" {
							facts = append(facts, "call errorHandler."+sel.Sel.Name)
						}
					}
				}
				return true
			})
			if len(facts) == 0 {
				return nil, fmt.Errorf("no facts found in %s", fn)
			}
			return facts, nil
		}
	}
	return nil, fmt.Errorf("function %s not found", fn)
}

func c02GuardFacts(repo string, w *strings.Builder) error {
	ofset, ofiles, err := parseDir(filepath.Join(repo, "cypher", "models", "pgsql", "optimize"))
	if err != nil {
		return err
	}
	tfset, tfiles, err := parseDir(filepath.Join(repo, "cypher", "models", "pgsql", "translate"))
	if err != nil {
		return err
	}
	plan, err := guardOf(ofset, ofiles, "queryPartAllowsLimitPushdown")
	if err != nil {
		return err
	}
	tail, err := guardOf(tfset, tfiles, "limitPushdownTailSource")
	if err != nil {
		return err
	}
	count, err := guardOf(ofset, ofiles, "countStoreFastPathDecision")
	if err != nil {
		return err
	}
	countArg, err := guardOf(ofset, ofiles, "simpleCountProjectionArgument")
	if err != nil {
		return err
	}
	aggHelper, err := funcFacts(tfset, tfiles, "selectContainsAggregate")
	if err != nil {
		return err
	}
	depth, err := funcFacts(ofset, ofiles, "aggregateTraversalDepthBounds")
	if err != nil {
		return err
	}
	aliasDecl, err := funcFacts(tfset, tfiles, "isProjectionAliasDeclaration")
	if err != nil {
		return err
	}
	// the planner's recognisers of the aggregate-traversal-count shape: every condition and return, in source order
	aggFinal, err := funcFacts(ofset, ofiles, "aggregateTraversalFinalProjection")
	if err != nil {
		return err
	}
	aggSource, err := funcFacts(ofset, ofiles, "aggregateTraversalSourceMatch")
	if err != nil {
		return err
	}
	// the helper behind the LAST conjunct of tailGuard: which tail WHERE the LIMIT may be moved below
	transparentWhere, err := funcFacts(tfset, tfiles, "shortestPathLimitPushdownTransparentWhere")
	if err != nil {
		return err
	}
	w.WriteString("/- GENERATED by tools/extract/goext (mode c02guard) from cypher/models/pgsql/{optimize/lowering_plan.go,translate/projection.go}. Do not edit. -/\n")
	w.WriteString("namespace Dawgs.Generated.C02Guard\n\n")
	fmt.Fprintf(w, "def planGuard : List String := %s\n\n", leanStrList(plan))
	fmt.Fprintf(w, "def tailGuard : List String := %s\n\n", leanStrList(tail))
	fmt.Fprintf(w, "def countFastGuard : List String := %s\n\n", leanStrList(count))
	fmt.Fprintf(w, "def countArgGuard : List String := %s\n\n", leanStrList(countArg))
	fmt.Fprintf(w, "def aggregateHelper : List String := %s\n\n", leanStrList(aggHelper))
	fmt.Fprintf(w, "def depthBounds : List String := %s\n\n", leanStrList(depth))
	fmt.Fprintf(w, "def aliasDeclaration : List String := %s\n\n", leanStrList(aliasDecl))
	fmt.Fprintf(w, "def transparentWhere : List String := %s\n\n", leanStrList(transparentWhere))
	fmt.Fprintf(w, "def aggFinalProjection : List String := %s\n\n", leanStrList(aggFinal))
	fmt.Fprintf(w, "def aggSourceMatch : List String := %s\n\n", leanStrList(aggSource))
	w.WriteString("end Dawgs.Generated.C02Guard\n")
	return nil
}
