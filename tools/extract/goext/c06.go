package main

import (
	"fmt"
	"go/ast"
	"go/token"
	"path/filepath"
	"sort"
	"strings"
)

// c06: every place where cypher/models/pgsql/translate consults the Scope's two tables, with the syntactic
// provenance of the identifier it passes:
//
//	user     derived from a cypher symbol: x.Symbol, pgsql.Identifier(x.Symbol), extractIdentifierFromCypherExpression,
//	         <projection>.Alias.Value, key of `range s.aliases`
//	binding  <binding>.Identifier, value of `range s.aliases`
//	set      element of an IdentifierSet (.Slice()) — sets hold binding identifiers
//	operand  an identifier found inside an already translated pgsql expression (type assertion / type switch)
//	const    literal or package-level constant
//	unknown  anything the rules below cannot follow
//
// Function parameters are followed to the arguments of every call of the function inside the package (depth 4).
// The Lean side states "user-derived identifiers reach `definitions` only through AliasedLookup" and
// "alias keys are user-derived only" over this table.
func init() { modes["c06"] = c06Facts }

const (
	pvUser = 1 << iota
	pvBinding
	pvSet
	pvOperand
	pvConst
	pvUnknown
	pvNoCaller
)

var c06Methods = []string{"Lookup", "AliasedLookup", "LookupString", "LookupBindings", "IsMaterialized", "definitions[]", "aliases[]", "Alias", "Define", "LookupDataType", "DefineNew",
	"ParameterLookup", "AliasParameter", "parameterAliases[]"}

type c06Fn struct {
	name   string
	recv   string
	decl   *ast.FuncDecl
	file   string
	params []string
}

type c06Def struct {
	pos  token.Pos
	kind string // param | assign | rangeKey | rangeVal | typeswitch
	rhs  ast.Expr
	idx  int
	nlhs int
}

type c06Ctx struct {
	fset   *token.FileSet
	fns    map[string][]*c06Fn // by bare name
	consts map[string]bool
	defs   map[*ast.FuncDecl]map[string][]c06Def
}

func (c *c06Ctx) collectDefs(fd *ast.FuncDecl) map[string][]c06Def {
	if d, ok := c.defs[fd]; ok {
		return d
	}
	d := map[string][]c06Def{}
	add := func(name string, df c06Def) {
		if name != "_" && name != "" {
			d[name] = append(d[name], df)
		}
	}
	if fd.Type.Params != nil {
		i := 0
		for _, f := range fd.Type.Params.List {
			for _, n := range f.Names {
				add(n.Name, c06Def{pos: fd.Pos(), kind: "param", idx: i})
				i++
			}
			if len(f.Names) == 0 {
				i++
			}
		}
	}
	ast.Inspect(fd.Body, func(n ast.Node) bool {
		switch st := n.(type) {
		case *ast.AssignStmt:
			for i, l := range st.Lhs {
				id, ok := l.(*ast.Ident)
				if !ok {
					continue
				}
				if len(st.Rhs) == len(st.Lhs) {
					add(id.Name, c06Def{pos: st.Pos(), kind: "assign", rhs: st.Rhs[i], idx: 0, nlhs: 1})
				} else if len(st.Rhs) == 1 {
					add(id.Name, c06Def{pos: st.Pos(), kind: "assign", rhs: st.Rhs[0], idx: i, nlhs: len(st.Lhs)})
				}
			}
		case *ast.GenDecl:
			for _, sp := range st.Specs {
				if vs, ok := sp.(*ast.ValueSpec); ok {
					for i, n := range vs.Names {
						if len(vs.Values) == len(vs.Names) {
							add(n.Name, c06Def{pos: vs.Pos(), kind: "assign", rhs: vs.Values[i], nlhs: 1})
						} else if len(vs.Values) == 1 {
							add(n.Name, c06Def{pos: vs.Pos(), kind: "assign", rhs: vs.Values[0], idx: i, nlhs: len(vs.Names)})
						}
					}
				}
			}
		case *ast.RangeStmt:
			if id, ok := st.Key.(*ast.Ident); ok && st.Key != nil {
				add(id.Name, c06Def{pos: st.Pos(), kind: "rangeKey", rhs: st.X})
			}
			if st.Value != nil {
				if id, ok := st.Value.(*ast.Ident); ok {
					add(id.Name, c06Def{pos: st.Pos(), kind: "rangeVal", rhs: st.X})
				}
			}
		case *ast.TypeSwitchStmt:
			if as, ok := st.Assign.(*ast.AssignStmt); ok && len(as.Lhs) == 1 {
				if id, ok := as.Lhs[0].(*ast.Ident); ok {
					add(id.Name, c06Def{pos: st.Pos(), kind: "typeswitch"})
				}
			}
		}
		return true
	})
	c.defs[fd] = d
	return d
}

func selName(e ast.Expr) string {
	switch f := e.(type) {
	case *ast.SelectorExpr:
		return f.Sel.Name
	case *ast.Ident:
		return f.Name
	}
	return ""
}

func exprText(e ast.Expr) string {
	switch x := e.(type) {
	case *ast.Ident:
		return x.Name
	case *ast.SelectorExpr:
		return exprText(x.X) + "." + x.Sel.Name
	case *ast.CallExpr:
		return exprText(x.Fun) + "()"
	case *ast.IndexExpr:
		return exprText(x.X) + "[]"
	case *ast.StarExpr:
		return exprText(x.X)
	case *ast.ParenExpr:
		return exprText(x.X)
	}
	return "?"
}

func (c *c06Ctx) classify(e ast.Expr, fn *c06Fn, use token.Pos, depth int) int {
	if depth > 6 {
		return pvUnknown
	}
	switch x := e.(type) {
	case *ast.ParenExpr:
		return c.classify(x.X, fn, use, depth)
	case *ast.StarExpr:
		return c.classify(x.X, fn, use, depth)
	case *ast.UnaryExpr:
		return c.classify(x.X, fn, use, depth)
	case *ast.BasicLit:
		return pvConst
	case *ast.TypeAssertExpr:
		return pvOperand
	case *ast.IndexExpr:
		return c.classify(x.X, fn, use, depth)
	case *ast.SliceExpr:
		return c.classify(x.X, fn, use, depth)
	case *ast.CallExpr:
		name := selName(x.Fun)
		switch name {
		case "Identifier": // conversion pgsql.Identifier(x)
			if len(x.Args) == 1 {
				return c.classify(x.Args[0], fn, use, depth+1)
			}
		case "extractIdentifierFromCypherExpression":
			return pvUser
		case "Root":
			if s, ok := x.Fun.(*ast.SelectorExpr); ok {
				return c.classify(s.X, fn, use, depth+1)
			}
		case "Slice", "Known", "Visible", "Copy", "RootIdentifiers", "MergeSet", "RemoveSet":
			return pvSet
		case "Aliased":
			return pvUser | pvBinding
		case "AsIdentifierSet":
			r := 0
			for _, a := range x.Args {
				r |= c.classify(a, fn, use, depth+1)
			}
			return r
		}
		if _, isIdent := x.Fun.(*ast.Ident); isIdent {
			return c.returnProv(name, 0, depth+1)
		}
		return pvUnknown
	case *ast.SelectorExpr:
		switch {
		case strings.HasSuffix(x.Sel.Name, "Symbol"): // Variable.Symbol, Parameter.Symbol, shape.SourceSymbol, …
			return pvUser
		case x.Sel.Name == "Reference": // PropertyLookup.Reference: compound identifier of a translated operand
			return pvOperand
		}
		switch x.Sel.Name {
		case "Identifier":
			return pvBinding
		case "Value":
			if in, ok := x.X.(*ast.SelectorExpr); ok && in.Sel.Name == "Alias" {
				// <x>.Alias.Value: the alias of a translate.Projection / cypher projection item is the user's spelling;
				// the alias of a pgsql.AliasedExpression picked out of an SQL projection by a type switch is generated
				if id, isIdent := in.X.(*ast.Ident); isIdent && fn != nil {
					defs := c.collectDefs(fn.decl)[id.Name]
					var best *c06Def
					for i := range defs {
						if defs[i].pos <= use && (best == nil || defs[i].pos >= best.pos) {
							best = &defs[i]
						}
					}
					if best != nil {
						if _, isAssert := best.rhs.(*ast.TypeAssertExpr); best.kind == "typeswitch" || isAssert {
							return pvOperand
						}
					}
				}
				return pvUser
			}
		}
		if c.consts[x.Sel.Name] {
			return pvConst
		}
		return pvUnknown
	case *ast.Ident:
		if fn != nil {
			defs := c.collectDefs(fn.decl)[x.Name]
			var best *c06Def
			for i := range defs {
				if defs[i].pos <= use && (best == nil || defs[i].pos >= best.pos) {
					best = &defs[i]
				}
			}
			if best != nil {
				switch best.kind {
				case "typeswitch":
					return pvOperand
				case "param":
					return c.paramProv(fn, best.idx, depth+1)
				case "rangeKey", "rangeVal":
					if s, ok := best.rhs.(*ast.SelectorExpr); ok && s.Sel.Name == "aliases" {
						if best.kind == "rangeKey" {
							return pvUser
						}
						return pvBinding
					}
					if best.kind == "rangeKey" {
						if s, ok := best.rhs.(*ast.SelectorExpr); ok && s.Sel.Name == "identifiers" {
							return pvSet // IdentifierSet's own map
						}
					}
					return c.classify(best.rhs, fn, best.pos, depth+1)
				case "assign":
					if call, ok := best.rhs.(*ast.CallExpr); ok && best.nlhs > 1 {
						switch selName(call.Fun) {
						case "extractIdentifierFromCypherExpression":
							if best.idx == 0 {
								return pvUser
							}
						case "PopOperand":
							return pvOperand
						}
						if _, isIdent := call.Fun.(*ast.Ident); isIdent {
							return c.returnProv(selName(call.Fun), best.idx, depth+1)
						}
						return pvUnknown
					}
					if ta, ok := best.rhs.(*ast.TypeAssertExpr); ok {
						_ = ta
						return pvOperand
					}
					return c.classify(best.rhs, fn, best.pos, depth+1)
				}
			}
		}
		if c.consts[x.Name] {
			return pvConst
		}
		return pvUnknown
	}
	return pvUnknown
}

// returnProv joins the provenance of the idx-th result over the return statements of a package function.
func (c *c06Ctx) returnProv(name string, idx int, depth int) int {
	if depth > 6 {
		return pvUnknown
	}
	r, n := 0, 0
	for _, fn := range c.fns[name] {
		if fn.recv != "" {
			continue
		}
		ast.Inspect(fn.decl.Body, func(node ast.Node) bool {
			if _, isLit := node.(*ast.FuncLit); isLit {
				return false
			}
			if rs, ok := node.(*ast.ReturnStmt); ok && idx < len(rs.Results) {
				if call, isCall := rs.Results[0].(*ast.CallExpr); isCall && len(rs.Results) == 1 && selName(call.Fun) == name {
					return true // recursion adds nothing
				}
				if id, isID := rs.Results[idx].(*ast.Ident); isID && (id.Name == "nil" || id.Name == "false" || id.Name == "true") {
					return true
				}
				if bl, isLit := rs.Results[idx].(*ast.BasicLit); isLit && bl.Value == `""` {
					return true
				}
				n++
				r |= c.classify(rs.Results[idx], fn, rs.Pos(), depth+1)
			}
			return true
		})
	}
	if n == 0 {
		return pvUnknown
	}
	return r
}

// paramProv joins the provenance of the idx-th argument over every call of fn in the package.
func (c *c06Ctx) paramProv(fn *c06Fn, idx int, depth int) int {
	if depth > 6 {
		return pvUnknown
	}
	r, calls := 0, 0
	for _, cands := range c.fns {
		for _, caller := range cands {
			ast.Inspect(caller.decl.Body, func(n ast.Node) bool {
				call, ok := n.(*ast.CallExpr)
				if !ok || selName(call.Fun) != fn.name {
					return true
				}
				if _, isSel := call.Fun.(*ast.SelectorExpr); isSel != (fn.recv != "") {
					return true
				}
				if caller.decl == fn.decl {
					return true // recursion adds nothing
				}
				calls++
				ai := idx
				if ai >= len(call.Args) {
					ai = len(call.Args) - 1 // variadic tail
				}
				if ai < 0 {
					return true
				}
				r |= c.classify(call.Args[ai], caller, call.Pos(), depth+1)
				return true
			})
		}
	}
	if calls == 0 {
		return pvNoCaller
	}
	return r
}

func isScopeRecv(e ast.Expr, fn *c06Fn) bool {
	t := exprText(e)
	if strings.HasSuffix(strings.ToLower(t), "scope") {
		return true
	}
	return fn.recv == "Scope" && t == "s"
}

type c06Site struct {
	file     string
	line     int
	fn       string
	method   int
	prov     int
	fallback bool // AliasedLookup of the same expression as a Lookup earlier in the same function
	internal bool // inside a method of Scope
	fresh    bool // Alias: the binding argument was produced by DefineNew/Define in the same function
	inParam  bool // the access is inside a `case *cypher.Parameter:` clause
	text     string
}

func c06Facts(repo string, w *strings.Builder) error {
	dir := filepath.Join(repo, "cypher", "models", "pgsql", "translate")
	fset, files, err := parseDir(dir)
	if err != nil {
		return err
	}
	ctx := &c06Ctx{fset: fset, fns: map[string][]*c06Fn{}, consts: map[string]bool{}, defs: map[*ast.FuncDecl]map[string][]c06Def{}}
	for _, f := range files {
		fname := filepath.Base(fset.Position(f.Pos()).Filename)
		for _, d := range f.Decls {
			switch dd := d.(type) {
			case *ast.GenDecl:
				if dd.Tok == token.CONST || dd.Tok == token.VAR {
					for _, sp := range dd.Specs {
						if vs, ok := sp.(*ast.ValueSpec); ok {
							for _, n := range vs.Names {
								ctx.consts[n.Name] = true
							}
						}
					}
				}
			case *ast.FuncDecl:
				if dd.Body != nil {
					fn := &c06Fn{name: dd.Name.Name, recv: recvType(dd), decl: dd, file: fname}
					ctx.fns[fn.name] = append(ctx.fns[fn.name], fn)
				}
			}
		}
	}
	// pgsql package-level identifier constants used as scope keys (WildcardIdentifier, column names, …)
	if _, pfiles, err := parseDir(filepath.Join(repo, "cypher", "models", "pgsql")); err == nil {
		for _, f := range pfiles {
			for _, d := range f.Decls {
				if dd, ok := d.(*ast.GenDecl); ok && (dd.Tok == token.CONST || dd.Tok == token.VAR) {
					for _, sp := range dd.Specs {
						if vs, ok := sp.(*ast.ValueSpec); ok {
							for _, n := range vs.Names {
								ctx.consts[n.Name] = true
							}
						}
					}
				}
			}
		}
	}
	midx := map[string]int{}
	for i, m := range c06Methods {
		midx[m] = i
	}
	var sites []c06Site
	var names []string
	for n := range ctx.fns {
		names = append(names, n)
	}
	sort.Strings(names)
	for _, n := range names {
		for _, fn := range ctx.fns[n] {
			type lk struct {
				text string
				pos  token.Pos
			}
			var lookups []lk
			var paramCases [][2]token.Pos // extents of `case *cypher.Parameter:` clauses
			ast.Inspect(fn.decl.Body, func(node ast.Node) bool {
				if cc, ok := node.(*ast.CaseClause); ok {
					for _, e := range cc.List {
						if exprText(e) == "cypher.Parameter" {
							paramCases = append(paramCases, [2]token.Pos{cc.Pos(), cc.End()})
						}
					}
				}
				return true
			})
			inParamCase := func(p token.Pos) bool {
				for _, r := range paramCases {
					if r[0] <= p && p < r[1] {
						return true
					}
				}
				return false
			}
			defineResults := map[string]bool{} // identifiers bound to a DefineNew/Define result in this function
			ast.Inspect(fn.decl.Body, func(node ast.Node) bool {
				if as, ok := node.(*ast.AssignStmt); ok && len(as.Rhs) == 1 {
					if call, ok := as.Rhs[0].(*ast.CallExpr); ok {
						if nm := selName(call.Fun); nm == "DefineNew" || nm == "Define" {
							if id, ok := as.Lhs[0].(*ast.Ident); ok {
								defineResults[id.Name] = true
							}
						}
					}
				}
				return true
			})
			ast.Inspect(fn.decl.Body, func(node ast.Node) bool {
				switch x := node.(type) {
				case *ast.CallExpr:
					sel, ok := x.Fun.(*ast.SelectorExpr)
					if !ok {
						return true
					}
					mi, known := midx[sel.Sel.Name]
					if !known || !isScopeRecv(sel.X, fn) || len(x.Args) == 0 {
						return true
					}
					pos := fset.Position(x.Pos())
					site := c06Site{file: fn.file, line: pos.Line, fn: fn.name, method: mi, internal: fn.recv == "Scope", text: exprText(x.Args[0]), inParam: inParamCase(x.Pos())}
					switch sel.Sel.Name {
					case "DefineNew":
						return true
					case "Alias", "AliasParameter":
						site.prov = ctx.classify(x.Args[0], fn, x.Pos(), 0)
						if len(x.Args) > 1 {
							if id, ok := x.Args[1].(*ast.Ident); ok && defineResults[id.Name] {
								site.fresh = true
							}
						}
					default:
						site.prov = ctx.classify(x.Args[0], fn, x.Pos(), 0)
					}
					if sel.Sel.Name == "Lookup" {
						lookups = append(lookups, lk{site.text, x.Pos()})
					}
					if sel.Sel.Name == "AliasedLookup" {
						for _, l := range lookups {
							if l.text == site.text && l.pos < x.Pos() {
								site.fallback = true
							}
						}
					}
					sites = append(sites, site)
				case *ast.IndexExpr:
					sel, ok := x.X.(*ast.SelectorExpr)
					if !ok || (sel.Sel.Name != "definitions" && sel.Sel.Name != "aliases" && sel.Sel.Name != "parameterAliases") {
						return true
					}
					pos := fset.Position(x.Pos())
					sites = append(sites, c06Site{file: fn.file, line: pos.Line, fn: fn.name, method: midx[sel.Sel.Name+"[]"],
						prov: ctx.classify(x.Index, fn, x.Pos(), 0), internal: fn.recv == "Scope", text: exprText(x.Index)})
				}
				return true
			})
		}
	}
	sort.Slice(sites, func(i, j int) bool {
		if sites[i].file != sites[j].file {
			return sites[i].file < sites[j].file
		}
		return sites[i].line < sites[j].line
	})
	if len(sites) < 20 {
		return fmt.Errorf("only %d scope access sites found in %s: extractor out of date", len(sites), dir)
	}
	w.WriteString("-- GENERATED by tools/extract/goext c06 from cypher/models/pgsql/translate/*.go — do not edit\n")
	w.WriteString("namespace Dawgs.Generated.C06Sites\n\n")
	w.WriteString("/-- method codes -/\ndef methodNames : List String := " + leanStrList(c06Methods) + "\n")
	w.WriteString("/-- provenance bits: 1 user, 2 binding, 4 set, 8 operand, 16 const, 32 unknown, 64 no-caller -/\n")
	w.WriteString("structure Site where\n  file : String\n  line : Nat\n  fn : String\n  method : Nat\n  prov : Nat\n  fallback : Bool\n  internal : Bool\n  fresh : Bool\n  inParamCase : Bool\n  arg : String\nderiving Repr, DecidableEq\n\n")
	w.WriteString("def sites : List Site := [\n")
	for i, s := range sites {
		sep := ","
		if i == len(sites)-1 {
			sep = ""
		}
		fmt.Fprintf(w, "  ⟨%s, %d, %s, %d, %d, %v, %v, %v, %v, %s⟩%s\n", leanStr(s.file), s.line, leanStr(s.fn), s.method, s.prov, s.fallback, s.internal, s.fresh, s.inParam, leanStr(s.text), sep)
	}
	w.WriteString("]\n\n")
	c06Mixed(ctx, fset, names, w)
	if err := c06Generator(repo, ctx, w); err != nil {
		return err
	}
	w.WriteString("\nend Dawgs.Generated.C06Sites\n")
	return nil
}

// c06Mixed lists (a) every `==` / `!=` whose operands are one purely user-derived string and one purely generated
// identifier, (b) every map (struct field, or local variable of one function) that is indexed both by purely
// user-derived and by purely generated keys. Either mixes the two name spaces the scope keeps apart.
func c06Mixed(ctx *c06Ctx, fset *token.FileSet, names []string, w *strings.Builder) {
	const generated = pvBinding | pvSet | pvOperand
	pure := func(p int) int { // 1 = user only, 2 = generated only, 0 = neither / mixed / unknown
		switch {
		case p == pvUser:
			return 1
		case p != 0 && p&^generated == 0:
			return 2
		}
		return 0
	}
	var cmps, maps []string
	type keyUse struct{ user, gen []string }
	for _, n := range names {
		for _, fn := range ctx.fns[n] {
			if fn.recv == "Scope" || fn.recv == "IdentifierGenerator" {
				continue // the scope's own methods work on parameters whose provenance is that of the callers
			}
			uses := map[string]*keyUse{}
			ast.Inspect(fn.decl.Body, func(node ast.Node) bool {
				switch x := node.(type) {
				case *ast.BinaryExpr:
					if x.Op != token.EQL && x.Op != token.NEQ {
						return true
					}
					l, r := pure(ctx.classify(x.X, fn, x.Pos(), 0)), pure(ctx.classify(x.Y, fn, x.Pos(), 0))
					if l != 0 && r != 0 && l != r {
						pos := fset.Position(x.Pos())
						cmps = append(cmps, fmt.Sprintf("%s:%d %s: %s %s %s", fn.file, pos.Line, fn.name, exprText(x.X), x.Op, exprText(x.Y)))
					}
				case *ast.IndexExpr:
					var name string
					switch b := x.X.(type) {
					case *ast.SelectorExpr:
						name = "." + b.Sel.Name
					case *ast.Ident:
						name = fn.name + ":" + b.Name
					default:
						return true
					}
					k := pure(ctx.classify(x.Index, fn, x.Pos(), 0))
					if k == 0 {
						return true
					}
					u := uses[name]
					if u == nil {
						u = &keyUse{}
						uses[name] = u
					}
					pos := fset.Position(x.Pos())
					at := fmt.Sprintf("%s:%d[%s]", fn.file, pos.Line, exprText(x.Index))
					if k == 1 {
						u.user = append(u.user, at)
					} else {
						u.gen = append(u.gen, at)
					}
				}
				return true
			})
			for name, u := range uses {
				if strings.HasPrefix(name, ".") {
					continue // fields are joined across functions below
				}
				if len(u.user) > 0 && len(u.gen) > 0 {
					maps = append(maps, fmt.Sprintf("%s user-keyed at %s, generated-keyed at %s", name, u.user[0], u.gen[0]))
				}
			}
			for name, u := range uses {
				if strings.HasPrefix(name, ".") {
					f := c06FieldUses[name]
					if f == nil {
						f = &[2][]string{}
						c06FieldUses[name] = f
					}
					f[0] = append(f[0], u.user...)
					f[1] = append(f[1], u.gen...)
				}
			}
		}
	}
	for _, name := range sortedKeys(c06FieldUses) {
		f := c06FieldUses[name]
		if len(f[0]) > 0 && len(f[1]) > 0 {
			maps = append(maps, fmt.Sprintf("field %s user-keyed at %s, generated-keyed at %s", name, f[0][0], f[1][0]))
		}
	}
	sort.Strings(cmps)
	sort.Strings(maps)
	w.WriteString("/-- `==` / `!=` between a purely user-derived string and a purely generated identifier -/\n")
	w.WriteString("def mixedComparisons : List String := " + leanStrList(cmps) + "\n")
	w.WriteString("/-- maps indexed both by purely user-derived and by purely generated keys (outside the methods of Scope) -/\n")
	w.WriteString("def mixedKeyMaps : List String := " + leanStrList(maps) + "\n\n")
}

var c06FieldUses = map[string]*[2][]string{}

// c06Generator extracts the `switch dataType` of IdentifierGenerator.NewIdentifier: for every case the data type
// constants (by their string VALUES, read from cypher/models/pgsql/pgtypes.go), the prefix, and the data type whose
// counter is used; plus the shape of the counter update and of the returned identifier.
func c06Generator(repo string, ctx *c06Ctx, w *strings.Builder) error {
	values := map[string]string{}
	if _, pfiles, err := parseDir(filepath.Join(repo, "cypher", "models", "pgsql")); err == nil {
		for _, f := range pfiles {
			for _, d := range f.Decls {
				if dd, ok := d.(*ast.GenDecl); ok && dd.Tok == token.CONST {
					for _, sp := range dd.Specs {
						if vs, ok := sp.(*ast.ValueSpec); ok && len(vs.Values) == len(vs.Names) {
							for i, n := range vs.Names {
								if bl, ok := vs.Values[i].(*ast.BasicLit); ok && bl.Kind == token.STRING {
									values[n.Name] = strings.Trim(bl.Value, "\"")
								}
							}
						}
					}
				}
			}
		}
	}
	var fn *c06Fn
	for _, f := range ctx.fns["NewIdentifier"] {
		if f.recv == "IdentifierGenerator" {
			fn = f
		}
	}
	if fn == nil {
		return fmt.Errorf("IdentifierGenerator.NewIdentifier not found")
	}
	type gcase struct {
		consts  []string
		prefix  string
		counter string // "" = the case's own data type
	}
	var cases []gcase
	var def *gcase
	bumpOK, renderOK := false, false
	ast.Inspect(fn.decl.Body, func(n ast.Node) bool {
		switch x := n.(type) {
		case *ast.CaseClause:
			gc := gcase{}
			for _, e := range x.List {
				name := selName(e)
				v, ok := values[name]
				if !ok {
					v = "?" + name
				}
				gc.consts = append(gc.consts, v)
			}
			for _, st := range x.Body {
				as, ok := st.(*ast.AssignStmt)
				if !ok || len(as.Lhs) != 1 || len(as.Rhs) != 1 {
					continue
				}
				switch selName(as.Lhs[0]) {
				case "prefixStr":
					if bl, ok := as.Rhs[0].(*ast.BasicLit); ok {
						gc.prefix = strings.Trim(bl.Value, "\"")
					}
				case "dataType":
					if v, ok := values[selName(as.Rhs[0])]; ok {
						gc.counter = v
					} else {
						gc.counter = "?" + selName(as.Rhs[0])
					}
				}
			}
			if x.List == nil {
				def = &gc
			} else {
				cases = append(cases, gc)
			}
		case *ast.AssignStmt:
			// s[dataType] = nextID + 1
			if len(x.Lhs) == 1 && len(x.Rhs) == 1 {
				if ix, ok := x.Lhs[0].(*ast.IndexExpr); ok && selName(ix.Index) == "dataType" {
					if be, ok := x.Rhs[0].(*ast.BinaryExpr); ok && be.Op == token.ADD && selName(be.X) == "nextID" {
						if bl, ok := be.Y.(*ast.BasicLit); ok && bl.Value == "1" {
							bumpOK = true
						}
					}
				}
			}
		case *ast.ReturnStmt:
			// return pgsql.Identifier(prefixStr + nextIDStr), nil
			if len(x.Results) == 2 {
				if call, ok := x.Results[0].(*ast.CallExpr); ok && len(call.Args) == 1 {
					if be, ok := call.Args[0].(*ast.BinaryExpr); ok && be.Op == token.ADD && selName(be.X) == "prefixStr" && selName(be.Y) == "nextIDStr" {
						renderOK = true
					}
				}
			}
		}
		return true
	})
	if def == nil || len(cases) == 0 {
		return fmt.Errorf("NewIdentifier: switch not recognised")
	}
	w.WriteString("/-- `switch dataType` of IdentifierGenerator.NewIdentifier: (data type value, prefix, data type value whose counter is used) -/\n")
	w.WriteString("def generatorCases : List (String × String × String) := [\n")
	var rows []string
	for _, c := range cases {
		for _, v := range c.consts {
			ctr := c.counter
			if ctr == "" {
				ctr = v
			}
			rows = append(rows, fmt.Sprintf("  (%s, %s, %s)", leanStr(v), leanStr(c.prefix), leanStr(ctr)))
		}
	}
	w.WriteString(strings.Join(rows, ",\n") + "\n]\n")
	fmt.Fprintf(w, "def generatorDefault : String × String := (%s, %s)\n", leanStr(def.prefix), leanStr(def.counter))
	fmt.Fprintf(w, "def generatorBumpsByOne : Bool := %v\n", bumpOK)
	fmt.Fprintf(w, "def generatorRendersPrefixThenCounter : Bool := %v\n", renderOK)
	return nil
}
