package main

import (
	"bytes"
	"fmt"
	"go/ast"
	"go/printer"
	"go/token"
	"path/filepath"
	"sort"
	"strconv"
	"strings"
)

// visitors: the listener PROTOCOL of cypher/frontend as data (C08/C07).
//
// For every method `func (s *T) EnterOC_<rule>` / `ExitOC_<rule>` of every type in cypher/frontend:
//   - the ordered list of visitor-stack actions it performs: `<ctx>.Enter(<expr of type W>)` (push W) and
//     `<ctx>.Exit()` / `<ctx>.Exit().(*W)` (pop, asserted type), each with the GUARD under which it runs,
//     normalised to a conjunction of literals over atoms that are functions of the rule node's direct children
//     (token of type k present, rule child r present, "has a non-blank terminal child"); package-level helpers and
//     methods of the same receiver that (transitively) touch the stack are inlined;
//   - whether the body is empty, whether it reports an error, whether it assigns the root result field.
//
// Plus: the text of Context.Enter/Exit/EnterEveryRule/ExitEveryRule/VisitTerminal/VisitErrorNode (normalised by
// go/printer) so that the Lean model can state which code it transcribes; the root visitor and result field of
// parseCypher; the lexer's token table; struct embedding facts.
func init() { modes["visitors"] = visitorFacts }

type vLit struct {
	atom string // "tok:<n>", "rule:<n>", "anylit", "opaque:<source>"
	pos  bool
}

type vAction struct {
	push  bool
	typ   string // pushed type / asserted type; "" = no assertion (pop) ; "?" = unresolved (push)
	guard []vLit
}

type vMethod struct {
	typ, name string
	rule      int
	enter     bool
	addsErr   bool
	empty     bool
	setsRoot  bool
	unsupCall bool // a top-level statement of the body is s.newUnsupportedRuleError(...)
	unsupAfter bool // the body is `if s.n++; s.n > 1 { s.newUnsupportedRuleError(ctx) }`
	parts     []int // Parts / partIdx bookkeeping operations (see partsOps)
	actions   []vAction
}

type vExt struct {
	nilAccessors map[string]bool // single-child accessors of rule contexts (nil when the child is absent)
	fset      *token.FileSet
	funcs     map[string]*ast.FuncDecl // "Recv.Name" or "Name"
	tokenOf   map[string]int           // CypherLexerX / CypherParserX -> type
	ruleIdx   map[string]int           // lower-case oc_x -> index
	tokVars   map[string]int           // TokenTypeEquals -> type (util.go: findTokenRuleIndex("="))
	touches   map[string]bool          // memo: function (transitively) touches the stack
	inlining  map[string]bool
	unresolved []string
}

type vEnv struct {
	recv     string            // receiver identifier name ("s"), "" for plain functions
	recvType string
	node     map[string]bool   // identifiers denoting the rule node
	ctxs     map[string]bool   // identifiers denoting the *Context
	locals   map[string]ast.Expr
}

func (e *vEnv) clone() *vEnv {
	n := &vEnv{recv: e.recv, recvType: e.recvType, node: map[string]bool{}, ctxs: map[string]bool{}, locals: map[string]ast.Expr{}}
	for k, v := range e.node {
		n.node[k] = v
	}
	for k, v := range e.ctxs {
		n.ctxs[k] = v
	}
	for k, v := range e.locals {
		n.locals[k] = v
	}
	return n
}

func src(fset *token.FileSet, n ast.Node) string {
	var b bytes.Buffer
	_ = printer.Fprint(&b, fset, n)
	return strings.Join(strings.Fields(b.String()), " ")
}

func (x *vExt) isCtxExpr(e ast.Expr, env *vEnv) bool {
	switch t := e.(type) {
	case *ast.Ident:
		return env.ctxs[t.Name]
	case *ast.SelectorExpr:
		if id, ok := t.X.(*ast.Ident); ok && env.recv != "" && id.Name == env.recv && t.Sel.Name == "ctx" {
			return true
		}
	}
	return false
}

func (x *vExt) isNodeExpr(e ast.Expr, env *vEnv) bool {
	if id, ok := e.(*ast.Ident); ok {
		return env.node[id.Name]
	}
	return false
}

// tokenConst resolves parser.CypherLexerX / parser.CypherParserX / TokenTypeX to a token type.
func (x *vExt) tokenConst(e ast.Expr) (int, bool) {
	switch t := e.(type) {
	case *ast.SelectorExpr:
		if n, ok := x.tokenOf[t.Sel.Name]; ok {
			return n, true
		}
	case *ast.Ident:
		if n, ok := x.tokVars[t.Name]; ok {
			return n, true
		}
	}
	return 0, false
}

// childAtom: ctx.AllOR() / ctx.NULL() / ctx.AllOC_X() / ctx.OC_X() / ctx.GetToken(T, 0) on the rule node.
func (x *vExt) childAtom(e ast.Expr, env *vEnv) (string, bool) {
	c, ok := e.(*ast.CallExpr)
	if !ok {
		return "", false
	}
	sel, ok := c.Fun.(*ast.SelectorExpr)
	if !ok || !x.isNodeExpr(sel.X, env) {
		return "", false
	}
	name := sel.Sel.Name
	if name == "GetToken" && len(c.Args) == 2 {
		if n, ok := x.tokenConst(c.Args[0]); ok {
			return fmt.Sprintf("tok:%d", n), true
		}
		return "", false
	}
	name = strings.TrimPrefix(name, "All")
	if strings.HasPrefix(name, "OC_") {
		if i, ok := x.ruleIdx[strings.ToLower("oC_"+name[3:])]; ok {
			return fmt.Sprintf("rule:%d", i), true
		}
		return "", false
	}
	if n, ok := x.tokenOf["CypherParser"+name]; ok {
		return fmt.Sprintf("tok:%d", n), true
	}
	return "", false
}

func (x *vExt) resolveLocal(e ast.Expr, env *vEnv) ast.Expr {
	for i := 0; i < 4; i++ {
		id, ok := e.(*ast.Ident)
		if !ok {
			return e
		}
		d, ok := env.locals[id.Name]
		if !ok {
			return e
		}
		e = d
	}
	return e
}

// lits normalises a condition to a conjunction of literals.
func (x *vExt) lits(e ast.Expr, env *vEnv) []vLit {
	opaque := func() []vLit { return []vLit{{atom: "opaque:" + src(x.fset, e), pos: true}} }
	switch t := e.(type) {
	case *ast.ParenExpr:
		return x.lits(t.X, env)
	case *ast.UnaryExpr:
		if t.Op == token.NOT {
			in := x.lits(t.X, env)
			if len(in) == 1 {
				return []vLit{{atom: in[0].atom, pos: !in[0].pos}}
			}
		}
		return opaque()
	case *ast.BinaryExpr:
		switch t.Op {
		case token.LAND:
			return append(x.lits(t.X, env), x.lits(t.Y, env)...)
		case token.EQL, token.NEQ:
			if id, ok := t.Y.(*ast.Ident); ok && id.Name == "nil" {
				if a, ok := x.childAtom(t.X, env); ok {
					return []vLit{{atom: a, pos: t.Op == token.NEQ}}
				}
			}
			if lit, ok := t.Y.(*ast.BasicLit); ok && lit.Value == "0" && t.Op == token.EQL {
				if a, ok := x.lenAtom(t.X, env); ok {
					return []vLit{{atom: a, pos: false}}
				}
			}
		case token.GTR:
			if lit, ok := t.Y.(*ast.BasicLit); ok && lit.Value == "0" {
				if a, ok := x.lenAtom(t.X, env); ok {
					return []vLit{{atom: a, pos: true}}
				}
			}
		}
		return opaque()
	case *ast.CallExpr:
		// HasTokens(ctx, T1, T2, …)
		if id, ok := t.Fun.(*ast.Ident); ok && id.Name == "HasTokens" && len(t.Args) >= 2 && x.isNodeExpr(t.Args[0], env) {
			var out []vLit
			for _, a := range t.Args[1:] {
				n, ok := x.tokenConst(a)
				if !ok {
					return opaque()
				}
				out = append(out, vLit{atom: fmt.Sprintf("tok:%d", n), pos: true})
			}
			return out
		}
		// <iterator>.HasTokens() where iterator := newTokenLiteralIterator(node)
		if sel, ok := t.Fun.(*ast.SelectorExpr); ok && sel.Sel.Name == "HasTokens" && len(t.Args) == 0 {
			d := x.resolveLocal(sel.X, env)
			if c, ok := d.(*ast.CallExpr); ok {
				if id, ok := c.Fun.(*ast.Ident); ok && id.Name == "newTokenLiteralIterator" && len(c.Args) == 1 && x.isNodeExpr(c.Args[0], env) {
					return []vLit{{atom: "anylit", pos: true}}
				}
			}
		}
		return opaque()
	}
	return opaque()
}

func (x *vExt) lenAtom(e ast.Expr, env *vEnv) (string, bool) {
	c, ok := e.(*ast.CallExpr)
	if !ok || len(c.Args) != 1 {
		return "", false
	}
	if id, ok := c.Fun.(*ast.Ident); !ok || id.Name != "len" {
		return "", false
	}
	return x.childAtom(c.Args[0], env)
}

func negate(ls []vLit, whole string) []vLit {
	if len(ls) == 1 {
		return []vLit{{atom: ls[0].atom, pos: !ls[0].pos}}
	}
	return []vLit{{atom: "opaque:!(" + whole + ")", pos: true}}
}

// typeOfExpr: dynamic visitor type of the argument of Context.Enter.
func (x *vExt) typeOfExpr(e ast.Expr, env *vEnv, depth int) string {
	if depth > 6 {
		return "?"
	}
	e = x.resolveLocal(e, env)
	switch t := e.(type) {
	case *ast.UnaryExpr:
		if t.Op == token.AND {
			if cl, ok := t.X.(*ast.CompositeLit); ok {
				if id, ok := cl.Type.(*ast.Ident); ok {
					return id.Name
				}
			}
		}
	case *ast.CallExpr:
		if id, ok := t.Fun.(*ast.Ident); ok {
			if fd, ok := x.funcs[id.Name]; ok && fd.Body != nil {
				res := "?"
				fenv := &vEnv{node: map[string]bool{}, ctxs: map[string]bool{}, locals: map[string]ast.Expr{}}
				collectLocals(fd.Body, fenv)
				ast.Inspect(fd.Body, func(n ast.Node) bool {
					if rs, ok := n.(*ast.ReturnStmt); ok && len(rs.Results) == 1 {
						if r := x.typeOfExpr(rs.Results[0], fenv, depth+1); r != "?" {
							res = r
						}
					}
					return true
				})
				return res
			}
		}
	}
	return "?"
}

func collectLocals(body *ast.BlockStmt, env *vEnv) {
	ast.Inspect(body, func(n ast.Node) bool {
		switch t := n.(type) {
		case *ast.AssignStmt:
			if t.Tok == token.DEFINE && len(t.Lhs) == len(t.Rhs) {
				for i, l := range t.Lhs {
					if id, ok := l.(*ast.Ident); ok {
						env.locals[id.Name] = t.Rhs[i]
					}
				}
			}
		case *ast.ValueSpec:
			if len(t.Names) == len(t.Values) {
				for i, n := range t.Names {
					env.locals[n.Name] = t.Values[i]
				}
			}
		}
		return true
	})
}

func (x *vExt) funcKey(c *ast.CallExpr, env *vEnv) string {
	switch f := c.Fun.(type) {
	case *ast.Ident:
		if _, ok := x.funcs[f.Name]; ok {
			return f.Name
		}
	case *ast.SelectorExpr:
		if id, ok := f.X.(*ast.Ident); ok && env.recv != "" && id.Name == env.recv {
			k := env.recvType + "." + f.Sel.Name
			if _, ok := x.funcs[k]; ok {
				return k
			}
		}
	}
	return ""
}

// touchesStack: the function body (transitively) calls Enter/Exit on a Context.
func (x *vExt) touchesStack(key string) bool {
	if v, ok := x.touches[key]; ok {
		return v
	}
	x.touches[key] = false
	fd := x.funcs[key]
	if fd == nil || fd.Body == nil {
		return false
	}
	env := x.envFor(fd)
	found := false
	ast.Inspect(fd.Body, func(n ast.Node) bool {
		if c, ok := n.(*ast.CallExpr); ok {
			if sel, ok := c.Fun.(*ast.SelectorExpr); ok && (sel.Sel.Name == "Enter" || sel.Sel.Name == "Exit") && x.isCtxExpr(sel.X, env) {
				found = true
			} else if k := x.funcKey(c, env); k != "" && k != key && x.touchesStack(k) {
				found = true
			}
		}
		return !found
	})
	x.touches[key] = found
	return found
}

func (x *vExt) envFor(fd *ast.FuncDecl) *vEnv {
	env := &vEnv{node: map[string]bool{}, ctxs: map[string]bool{}, locals: map[string]ast.Expr{}}
	if fd.Recv != nil && len(fd.Recv.List) > 0 && len(fd.Recv.List[0].Names) > 0 {
		env.recv = fd.Recv.List[0].Names[0].Name
		env.recvType = recvType(fd)
	}
	for _, p := range fd.Type.Params.List {
		isCtx := false
		if st, ok := p.Type.(*ast.StarExpr); ok {
			if id, ok := st.X.(*ast.Ident); ok && id.Name == "Context" {
				isCtx = true
			}
		}
		for _, n := range p.Names {
			if isCtx {
				env.ctxs[n.Name] = true
			}
		}
	}
	return env
}

func (x *vExt) expr(e ast.Node, env *vEnv, guard []vLit, out *[]vAction) {
	if e == nil {
		return
	}
	ast.Inspect(e, func(n ast.Node) bool {
		switch t := n.(type) {
		case *ast.FuncLit:
			return false
		case *ast.TypeAssertExpr:
			if c, ok := t.X.(*ast.CallExpr); ok {
				if sel, ok := c.Fun.(*ast.SelectorExpr); ok && sel.Sel.Name == "Exit" && x.isCtxExpr(sel.X, env) && len(c.Args) == 0 {
					typ := "?"
					if st, ok := t.Type.(*ast.StarExpr); ok {
						if id, ok := st.X.(*ast.Ident); ok {
							typ = id.Name
						}
					}
					*out = append(*out, vAction{push: false, typ: typ, guard: append([]vLit{}, guard...)})
					return false
				}
			}
			return true
		case *ast.CallExpr:
			// arguments first (evaluation order)
			for _, a := range t.Args {
				x.expr(a, env, guard, out)
			}
			if sel, ok := t.Fun.(*ast.SelectorExpr); ok {
				if x.isCtxExpr(sel.X, env) && sel.Sel.Name == "Enter" && len(t.Args) == 1 {
					*out = append(*out, vAction{push: true, typ: x.typeOfExpr(t.Args[0], env, 0), guard: append([]vLit{}, guard...)})
					return false
				}
				if x.isCtxExpr(sel.X, env) && sel.Sel.Name == "Exit" && len(t.Args) == 0 {
					*out = append(*out, vAction{push: false, typ: "", guard: append([]vLit{}, guard...)})
					return false
				}
				x.expr(sel.X, env, guard, out)
			}
			if k := x.funcKey(t, env); k != "" && x.touchesStack(k) && !x.inlining[k] {
				x.inlining[k] = true
				fd := x.funcs[k]
				fenv := x.envFor(fd)
				// bind parameters that receive the rule node / the context
				i := 0
				for _, p := range fd.Type.Params.List {
					for _, pn := range p.Names {
						if i < len(t.Args) {
							if x.isNodeExpr(t.Args[i], env) {
								fenv.node[pn.Name] = true
							}
							if x.isCtxExpr(t.Args[i], env) {
								fenv.ctxs[pn.Name] = true
							}
						}
						i++
					}
				}
				x.stmts(fd.Body.List, fenv, guard, out)
				delete(x.inlining, k)
			}
			return false
		}
		return true
	})
}

func (x *vExt) stmts(list []ast.Stmt, env *vEnv, guard []vLit, out *[]vAction) {
	for _, st := range list {
		x.stmt(st, env, guard, out)
	}
}

func (x *vExt) stmt(st ast.Stmt, env *vEnv, guard []vLit, out *[]vAction) {
	switch t := st.(type) {
	case nil:
	case *ast.BlockStmt:
		x.stmts(t.List, env, guard, out)
	case *ast.ExprStmt:
		x.expr(t.X, env, guard, out)
	case *ast.AssignStmt:
		for _, r := range t.Rhs {
			x.expr(r, env, guard, out)
		}
		if len(t.Lhs) == len(t.Rhs) {
			for i, l := range t.Lhs {
				if id, ok := l.(*ast.Ident); ok {
					env.locals[id.Name] = t.Rhs[i]
				}
			}
		}
	case *ast.DeclStmt:
		if gd, ok := t.Decl.(*ast.GenDecl); ok {
			for _, sp := range gd.Specs {
				if vs, ok := sp.(*ast.ValueSpec); ok {
					for _, v := range vs.Values {
						x.expr(v, env, guard, out)
					}
					if len(vs.Names) == len(vs.Values) {
						for i, n := range vs.Names {
							env.locals[n.Name] = vs.Values[i]
						}
					}
				}
			}
		}
	case *ast.IfStmt:
		x.stmt(t.Init, env, guard, out)
		x.expr(t.Cond, env, guard, out)
		ls := x.lits(t.Cond, env)
		x.stmts(t.Body.List, env, append(append([]vLit{}, guard...), ls...), out)
		if t.Else != nil {
			x.stmt(t.Else, env, append(append([]vLit{}, guard...), negate(ls, src(x.fset, t.Cond))...), out)
		}
	case *ast.ReturnStmt:
		for _, r := range t.Results {
			x.expr(r, env, guard, out)
		}
	default:
		// loops, switches, defers …: anything inside runs under an opaque guard
		g := append(append([]vLit{}, guard...), vLit{atom: "opaque:inside " + strings.TrimPrefix(fmt.Sprintf("%T", st), "*ast."), pos: true})
		ast.Inspect(st, func(n ast.Node) bool {
			if n == st {
				return true
			}
			switch s := n.(type) {
			case ast.Stmt:
				if _, isBlock := s.(*ast.BlockStmt); isBlock {
					return true
				}
				if _, isCase := s.(*ast.CaseClause); isCase {
					return true
				}
				x.stmt(s, env, g, out)
				return false
			case ast.Expr:
				x.expr(s, env, g, out)
				return false
			}
			return true
		})
	}
}

// partsOps: the bookkeeping a method performs on the `Parts` slice / `partIdx` counter of its visitor, in statement order
// (helpers of the same receiver are inlined):
//   0 allocEq    if len(<x>.Parts) == s.partIdx { <x>.Parts = append(<x>.Parts, …) }
//   1 access     <x>.CurrentPart()           (MultiPartQuery.CurrentPart: Parts[len(Parts)-1])
//   2 advance    s.partIdx += 1 / s.partIdx++
//   3 allocZero  if len(<x>.Parts) == 0 { append }
//   4 other      any other append to Parts / assignment to partIdx / indexing of Parts
func (x *vExt) partsOps(list []ast.Stmt, recv, recvType string, depth int) []int {
	var ops []int
	isParts := func(e ast.Expr) bool {
		sel, ok := e.(*ast.SelectorExpr)
		return ok && sel.Sel.Name == "Parts"
	}
	isIdx := func(e ast.Expr) bool {
		sel, ok := e.(*ast.SelectorExpr)
		if !ok || sel.Sel.Name != "partIdx" {
			return false
		}
		id, ok := sel.X.(*ast.Ident)
		return ok && id.Name == recv
	}
	appendsParts := func(n ast.Node) bool {
		found := false
		ast.Inspect(n, func(m ast.Node) bool {
			if as, ok := m.(*ast.AssignStmt); ok && len(as.Lhs) == 1 && isParts(as.Lhs[0]) {
				found = true
			}
			if c, ok := m.(*ast.CallExpr); ok {
				if sel, ok := c.Fun.(*ast.SelectorExpr); ok && sel.Sel.Name == "AppendPart" {
					found = true
				}
			}
			return !found
		})
		return found
	}
	var scanExpr func(n ast.Node)
	scanExpr = func(n ast.Node) {
		ast.Inspect(n, func(m ast.Node) bool {
			switch t := m.(type) {
			case *ast.CallExpr:
				if sel, ok := t.Fun.(*ast.SelectorExpr); ok {
					if sel.Sel.Name == "CurrentPart" {
						ops = append(ops, 1)
					}
					if id, ok := sel.X.(*ast.Ident); ok && id.Name == recv && depth < 4 {
						if fd, ok := x.funcs[recvType+"."+sel.Sel.Name]; ok && fd.Body != nil && fd.Recv != nil && len(fd.Recv.List[0].Names) > 0 {
							ops = append(ops, x.partsOps(fd.Body.List, fd.Recv.List[0].Names[0].Name, recvType, depth+1)...)
						}
					}
				}
			case *ast.IndexExpr:
				if isParts(t.X) {
					ops = append(ops, 4)
				}
			}
			return true
		})
	}
	for _, st := range list {
		switch t := st.(type) {
		case *ast.IfStmt:
			if appendsParts(t.Body) && t.Else == nil && t.Init == nil {
				code := 4
				if be, ok := t.Cond.(*ast.BinaryExpr); ok && be.Op == token.EQL {
					if c, ok := be.X.(*ast.CallExpr); ok && len(c.Args) == 1 && isParts(c.Args[0]) {
						if id, ok := c.Fun.(*ast.Ident); ok && id.Name == "len" {
							if isIdx(be.Y) {
								code = 0
							} else if bl, ok := be.Y.(*ast.BasicLit); ok && bl.Value == "0" {
								code = 3
							}
						}
					}
				}
				if len(t.Body.List) != 1 {
					code = 4
				}
				ops = append(ops, code)
				continue
			}
			scanExpr(t)
		case *ast.AssignStmt:
			handled := false
			if len(t.Lhs) == 1 && isIdx(t.Lhs[0]) {
				if bl, ok := t.Rhs[0].(*ast.BasicLit); ok && t.Tok == token.ADD_ASSIGN && bl.Value == "1" {
					ops = append(ops, 2)
				} else {
					ops = append(ops, 4)
				}
				handled = true
			} else if len(t.Lhs) == 1 && isParts(t.Lhs[0]) {
				ops = append(ops, 4)
				handled = true
			}
			if !handled {
				scanExpr(t)
			}
		case *ast.IncDecStmt:
			if isIdx(t.X) {
				if t.Tok == token.INC {
					ops = append(ops, 2)
				} else {
					ops = append(ops, 4)
				}
			} else {
				scanExpr(t)
			}
		default:
			if appendsParts(st) {
				ops = append(ops, 4)
			}
			scanExpr(st)
		}
	}
	return ops
}

func normGuard(g []vLit) []vLit {
	seen := map[string]bool{}
	var out []vLit
	for _, l := range g {
		k := fmt.Sprintf("%s/%v", l.atom, l.pos)
		if !seen[k] {
			seen[k] = true
			out = append(out, l)
		}
	}
	sort.Slice(out, func(i, j int) bool {
		if out[i].atom != out[j].atom {
			return out[i].atom < out[j].atom
		}
		return !out[i].pos && out[j].pos
	})
	return out
}

func visitorFacts(repo string, w *strings.Builder) error {
	x := &vExt{funcs: map[string]*ast.FuncDecl{}, tokenOf: map[string]int{}, ruleIdx: map[string]int{}, tokVars: map[string]int{},
		touches: map[string]bool{}, inlining: map[string]bool{}}
	// ---- generated parser: rule names, token constants, literal names
	_, pfiles, err := parseDir(filepath.Join(repo, "cypher", "parser"))
	if err != nil {
		return err
	}
	// single-child accessors of the generated rule contexts: `func (s *OC_XContext) A() antlr.TerminalNode | IOC_YContext` — they
	// return nil when the child is absent (optional in the grammar, or missing in a tree built by error recovery)
	nilAccessors := map[string]bool{}
	for _, f := range pfiles {
		for _, d := range f.Decls {
			fd, ok := d.(*ast.FuncDecl)
			if !ok || fd.Recv == nil || len(fd.Type.Params.List) != 0 || fd.Type.Results == nil || len(fd.Type.Results.List) != 1 {
				continue
			}
			if rt := recvType(fd); !strings.HasPrefix(rt, "OC_") || !strings.HasSuffix(rt, "Context") {
				continue
			}
			switch r := fd.Type.Results.List[0].Type.(type) {
			case *ast.SelectorExpr:
				if r.Sel.Name == "TerminalNode" {
					nilAccessors[fd.Name.Name] = true
				}
			case *ast.Ident:
				if strings.HasPrefix(r.Name, "IOC_") {
					nilAccessors[fd.Name.Name] = true
				}
			}
		}
	}
	x.nilAccessors = nilAccessors
	var ruleNames, literalNames, symbolicNames []string
	strList := func(cl *ast.CompositeLit) []string {
		var names []string
		for _, e := range cl.Elts {
			if bl, ok := e.(*ast.BasicLit); ok {
				s, err := strconv.Unquote(bl.Value)
				if err != nil {
					s = strings.Trim(bl.Value, `"`)
				}
				names = append(names, s)
			}
		}
		return names
	}
	type tokc struct {
		name string
		n    int
	}
	var lexerToks []tokc
	for _, f := range pfiles {
		isLexer := strings.HasSuffix(x.fsetName(f), "")
		_ = isLexer
		ast.Inspect(f, func(n ast.Node) bool {
			switch t := n.(type) {
			case *ast.AssignStmt:
				if len(t.Lhs) == 1 && len(t.Rhs) == 1 {
					if sel, ok := t.Lhs[0].(*ast.SelectorExpr); ok {
						if id, ok := sel.X.(*ast.Ident); ok && id.Name == "staticData" {
							if cl, ok := t.Rhs[0].(*ast.CompositeLit); ok {
								names := strList(cl)
								switch sel.Sel.Name {
								case "RuleNames":
									if len(names) > 0 && strings.HasPrefix(names[0], "oC_") {
										ruleNames = names
									}
								case "LiteralNames":
									if len(names) > len(literalNames) {
										literalNames = names
									}
								case "SymbolicNames":
									if len(names) > len(symbolicNames) {
										symbolicNames = names
									}
								}
							}
						}
					}
				}
			case *ast.ValueSpec:
				for i, nm := range t.Names {
					if (strings.HasPrefix(nm.Name, "CypherLexer") || strings.HasPrefix(nm.Name, "CypherParser")) && i < len(t.Values) {
						if bl, ok := t.Values[i].(*ast.BasicLit); ok && bl.Kind == token.INT {
							v, _ := strconv.Atoi(bl.Value)
							if !strings.Contains(nm.Name, "RULE_") {
								x.tokenOf[nm.Name] = v
								if strings.HasPrefix(nm.Name, "CypherLexer") {
									lexerToks = append(lexerToks, tokc{strings.TrimPrefix(nm.Name, "CypherLexer"), v})
								}
							}
						}
					}
				}
			}
			return true
		})
	}
	if len(ruleNames) == 0 {
		return fmt.Errorf("RuleNames not found in cypher/parser")
	}
	for i, n := range ruleNames {
		x.ruleIdx[strings.ToLower(n)] = i
	}
	// CypherParserX aliases for lexer tokens that only exist as CypherLexerX (identical numbering)
	for _, t := range lexerToks {
		if _, ok := x.tokenOf["CypherParser"+t.name]; !ok {
			x.tokenOf["CypherParser"+t.name] = t.n
		}
	}
	ruleOfMethod := func(name string) (int, bool) {
		for _, p := range []string{"EnterOC_", "ExitOC_"} {
			if strings.HasPrefix(name, p) {
				i, ok := x.ruleIdx[strings.ToLower("oC_"+name[len(p):])]
				return i, ok
			}
		}
		return 0, false
	}

	// ---- cypher/frontend
	fset, files, err := parseDir(filepath.Join(repo, "cypher", "frontend"))
	if err != nil {
		return err
	}
	x.fset = fset
	structEmbeds := map[string][]string{}
	for _, f := range files {
		for _, d := range f.Decls {
			switch t := d.(type) {
			case *ast.FuncDecl:
				k := t.Name.Name
				if rt := recvType(t); rt != "" {
					k = rt + "." + k
				}
				x.funcs[k] = t
			case *ast.GenDecl:
				for _, sp := range t.Specs {
					switch s := sp.(type) {
					case *ast.TypeSpec:
						if st, ok := s.Type.(*ast.StructType); ok {
							for _, fl := range st.Fields.List {
								if len(fl.Names) == 0 {
									structEmbeds[s.Name.Name] = append(structEmbeds[s.Name.Name], src(fset, fl.Type))
								}
							}
						}
					case *ast.ValueSpec:
						// TokenTypeEquals = findTokenRuleIndex("=")
						for i, nm := range s.Names {
							if i < len(s.Values) {
								if c, ok := s.Values[i].(*ast.CallExpr); ok {
									if id, ok := c.Fun.(*ast.Ident); ok && id.Name == "findTokenRuleIndex" && len(c.Args) == 1 {
										if bl, ok := c.Args[0].(*ast.BasicLit); ok {
											lit, _ := strconv.Unquote(bl.Value)
											for ti, ln := range literalNames {
												if ln == "'"+lit+"'" {
													x.tokVars[nm.Name] = ti
												}
											}
										}
									}
								}
							}
						}
					}
				}
			}
		}
	}
	// root visitor + result field from parseCypher
	rootType, rootField := "", ""
	if fd := x.funcs["parseCypher"]; fd != nil {
		env := &vEnv{node: map[string]bool{}, ctxs: map[string]bool{}, locals: map[string]ast.Expr{}}
		collectLocals(fd.Body, env)
		ast.Inspect(fd.Body, func(n ast.Node) bool {
			if c, ok := n.(*ast.CallExpr); ok {
				if sel, ok := c.Fun.(*ast.SelectorExpr); ok && sel.Sel.Name == "Enter" && len(c.Args) == 1 {
					if id, ok := sel.X.(*ast.Ident); ok && id.Name == "ctx" {
						rootType = x.typeOfExpr(c.Args[0], env, 0)
					}
				}
			}
			if rs, ok := n.(*ast.ReturnStmt); ok && len(rs.Results) == 2 {
				if sel, ok := rs.Results[0].(*ast.SelectorExpr); ok {
					rootField = sel.Sel.Name
				}
			}
			return true
		})
	}
	if rootType == "" || rootType == "?" || rootField == "" {
		return fmt.Errorf("root visitor / result field of parseCypher not recognised")
	}

	var methods []vMethod
	var overrides []string
	for _, k := range sortedKeys(x.funcs) {
		fd := x.funcs[k]
		rt := recvType(fd)
		if rt == "" || fd.Body == nil {
			continue
		}
		switch fd.Name.Name {
		case "VisitTerminal", "VisitErrorNode", "EnterEveryRule", "ExitEveryRule":
			if rt != "Context" && !(rt == "BaseVisitor" && len(fd.Body.List) == 0) {
				overrides = append(overrides, k)
			}
		}
		r, ok := ruleOfMethod(fd.Name.Name)
		if !ok {
			continue
		}
		env := x.envFor(fd)
		for _, p := range fd.Type.Params.List {
			for _, n := range p.Names {
				if !env.ctxs[n.Name] {
					env.node[n.Name] = true
				}
			}
		}
		var acts []vAction
		x.stmts(fd.Body.List, env, nil, &acts)
		for i := range acts {
			acts[i].guard = normGuard(acts[i].guard)
			if acts[i].typ == "?" {
				x.unresolved = append(x.unresolved, k)
			}
		}
		setsRoot := false
		if rt == rootType {
			ast.Inspect(fd.Body, func(n ast.Node) bool {
				if as, ok := n.(*ast.AssignStmt); ok {
					for _, l := range as.Lhs {
						if sel, ok := l.(*ast.SelectorExpr); ok && sel.Sel.Name == rootField {
							if id, ok := sel.X.(*ast.Ident); ok && id.Name == env.recv {
								setsRoot = true
							}
						}
					}
				}
				return true
			})
		}
		unsupCall := false
		for _, st := range fd.Body.List {
			if es, ok := st.(*ast.ExprStmt); ok {
				if c, ok := es.X.(*ast.CallExpr); ok {
					if sel, ok := c.Fun.(*ast.SelectorExpr); ok && sel.Sel.Name == "newUnsupportedRuleError" {
						unsupCall = true
					}
				}
			}
		}
		// `if s.<n>++; s.<n> > 1 { s.newUnsupportedRuleError(ctx) }` as the whole body: every occurrence after the first is reported
		unsupAfter := false
		if len(fd.Body.List) == 1 {
			if is, ok := fd.Body.List[0].(*ast.IfStmt); ok && is.Init != nil && is.Else == nil && len(is.Body.List) == 1 {
				if inc, ok := is.Init.(*ast.IncDecStmt); ok && inc.Tok == token.INC {
					if be, ok := is.Cond.(*ast.BinaryExpr); ok && be.Op == token.GTR && src(x.fset, be.X) == src(x.fset, inc.X) && src(x.fset, be.Y) == "1" {
						if es, ok := is.Body.List[0].(*ast.ExprStmt); ok {
							if c, ok := es.X.(*ast.CallExpr); ok {
								if sel, ok := c.Fun.(*ast.SelectorExpr); ok && sel.Sel.Name == "newUnsupportedRuleError" {
									unsupAfter = true
								}
							}
						}
					}
				}
			}
		}
		methods = append(methods, vMethod{typ: rt, name: fd.Name.Name, rule: r, enter: strings.HasPrefix(fd.Name.Name, "Enter"), unsupCall: unsupCall, unsupAfter: unsupAfter, parts: x.partsOps(fd.Body.List, env.recv, rt, 0),
			addsErr: callsNamed(fd.Body, "AddErrors") || callsNamed(fd.Body, "newUnsupportedRuleError"),
			empty:   len(fd.Body.List) == 0, setsRoot: setsRoot, actions: acts})
	}

	// default filters (same recognition as mode frontend)
	var defaultFilters []string
	if fd := x.funcs["DefaultCypherContext"]; fd != nil {
		ast.Inspect(fd.Body, func(n ast.Node) bool {
			if c, ok := n.(*ast.CallExpr); ok {
				if id, ok := c.Fun.(*ast.Ident); ok && id.Name == "NewContext" {
					for _, a := range c.Args {
						if u, ok := a.(*ast.UnaryExpr); ok {
							if cl, ok := u.X.(*ast.CompositeLit); ok {
								if id, ok := cl.Type.(*ast.Ident); ok {
									defaultFilters = append(defaultFilters, id.Name)
								}
							}
						}
					}
				}
			}
			return true
		})
	}

	// ---- type numbering: BaseVisitor 0, root 1, then every type with methods or pushed/asserted, sorted
	typeIdx := map[string]int{}
	var typeNames []string
	tix := func(n string) int {
		if i, ok := typeIdx[n]; ok {
			return i
		}
		typeIdx[n] = len(typeNames)
		typeNames = append(typeNames, n)
		return typeIdx[n]
	}
	tix("BaseVisitor")
	tix(rootType)
	for _, f := range defaultFilters {
		tix(f)
	}
	more := map[string]bool{}
	for _, m := range methods {
		more[m.typ] = true
		for _, a := range m.actions {
			if a.typ != "" && a.typ != "?" {
				more[a.typ] = true
			}
		}
	}
	for _, n := range sortedKeys(more) {
		tix(n)
	}
	var notEmbedding []string
	for _, n := range typeNames {
		if n == "BaseVisitor" {
			continue
		}
		ok := false
		for _, e := range structEmbeds[n] {
			if e == "BaseVisitor" {
				ok = true
			}
		}
		if !ok || len(structEmbeds[n]) != 1 {
			notEmbedding = append(notEmbedding, n)
		}
	}

	// ---- atoms
	atomIdx := map[string]int{}
	var atoms []string
	aix := func(a string) int {
		if i, ok := atomIdx[a]; ok {
			return i
		}
		atomIdx[a] = len(atoms)
		atoms = append(atoms, a)
		return atomIdx[a]
	}
	var opaque []string
	for _, m := range methods {
		for _, a := range m.actions {
			for _, l := range a.guard {
				aix(l.atom)
				if strings.HasPrefix(l.atom, "opaque:") {
					opaque = append(opaque, m.typ+"."+m.name+": "+strings.TrimPrefix(l.atom, "opaque:"))
				}
			}
		}
	}
	sort.Strings(opaque)

	// ---- Context protocol source
	protoSrc := func(name string) string {
		fd := x.funcs["Context."+name]
		if fd == nil {
			return "<missing>"
		}
		fd2 := *fd
		fd2.Doc = nil
		// strip comments: print the declaration through a comment-free file set view
		var b bytes.Buffer
		_ = (&printer.Config{Mode: printer.RawFormat}).Fprint(&b, fset, &printer.CommentedNode{Node: &fd2, Comments: nil})
		return strings.Join(strings.Fields(b.String()), " ")
	}

	fmt.Fprintln(w, "/- GENERATED by tools/extract/goext (mode visitors) from cypher/frontend/*.go and cypher/parser — do not edit. -/")
	fmt.Fprintln(w, "namespace Dawgs.Generated.Visitors")
	fmt.Fprintf(w, "def ruleNames : List String := %s\n", leanStrList(ruleNames))
	fmt.Fprintf(w, "def typeNames : List String := %s\n", leanStrList(typeNames))
	fmt.Fprintf(w, "def baseVisitor : Nat := 0\n")
	fmt.Fprintf(w, "/-- the visitor parseCypher primes the context with, and the field it returns -/\n")
	fmt.Fprintf(w, "def rootVisitor : Nat := %d\n", typeIdx[rootType])
	fmt.Fprintf(w, "def rootField : String := %s\n", leanStr(rootField))
	fIdx := []int{}
	for _, f := range defaultFilters {
		fIdx = append(fIdx, typeIdx[f])
	}
	fmt.Fprintf(w, "def defaultFilters : List Nat := %s\n", leanNatList(fIdx))
	fmt.Fprintf(w, "/-- visitor types whose struct does not embed exactly BaseVisitor (method lookup would not be own-else-Base) -/\n")
	fmt.Fprintf(w, "def notEmbeddingBase : List String := %s\n", leanStrList(notEmbedding))
	fmt.Fprintf(w, "/-- non-Context, non-empty overrides of VisitTerminal/VisitErrorNode/EnterEveryRule/ExitEveryRule -/\n")
	fmt.Fprintf(w, "def genericCallbackOverrides : List String := %s\n", leanStrList(overrides))
	sort.Strings(x.unresolved)
	fmt.Fprintf(w, "/-- methods with a Context.Enter whose argument type the extractor could not resolve -/\n")
	fmt.Fprintf(w, "def unresolvedPushes : List String := %s\n", leanStrList(x.unresolved))
	fmt.Fprintf(w, "/-- guard atoms: functions of a rule node's direct children. `tok:k` a terminal (or error) child of token type k exists (GetToken/GetTokens);\n`rule:r` a child of rule r exists; `anylit` newTokenLiteralIterator(node).HasTokens(): a *TerminalNodeImpl child whose TrimSpace'd text is non-empty -/\n")
	fmt.Fprintf(w, "def atoms : List String := %s\n", leanStrList(atoms))
	var codes []string
	for _, a := range atoms {
		switch {
		case a == "anylit":
			// (2, k): k = token type of SP when newTokenLiteralIterator skips SP tokens (comments included), else 0
			spSkip := 0
			if fd := x.funcs["newTokenLiteralIterator"]; fd != nil && strings.Contains(src(x.fset, fd.Body), "GetTokenType() == parser.CypherLexerSP") {
				spSkip = x.tokenOf["CypherLexerSP"]
			}
			codes = append(codes, fmt.Sprintf("(2, %d)", spSkip))
		case strings.HasPrefix(a, "tok:"):
			codes = append(codes, "(0, "+a[4:]+")")
		case strings.HasPrefix(a, "rule:"):
			codes = append(codes, "(1, "+a[5:]+")")
		default:
			codes = append(codes, "(3, 0)")
		}
	}
	fmt.Fprintf(w, "/-- the same atoms as (kind, argument): (0,k) token k, (1,r) rule child r, (2,_) non-blank terminal, (3,_) opaque -/\ndef atomCodes : List (Nat × Nat) := [%s]\n", strings.Join(codes, ", "))
	fmt.Fprintf(w, "def opaqueGuards : List String := %s\n", leanStrList(opaque))
	for _, n := range []string{"Enter", "Exit", "EnterEveryRule", "ExitEveryRule", "VisitTerminal", "VisitErrorNode"} {
		fmt.Fprintf(w, "def src%s : String := %s\n", n, leanStr(protoSrc(n)))
	}
	// actions per rule
	emitActs := func(name string, enter bool) {
		fmt.Fprintf(w, "def %s : List (List (Nat × List (Bool × Option Nat × List (Nat × Bool)))) := [\n", name)
		for r := range ruleNames {
			var parts []string
			for _, m := range methods {
				if m.rule != r || m.enter != enter || len(m.actions) == 0 {
					continue
				}
				var as []string
				for _, a := range m.actions {
					typ := "none"
					if a.typ != "" {
						if a.typ == "?" {
							typ = "some 9999"
						} else {
							typ = fmt.Sprintf("some %d", typeIdx[a.typ])
						}
					}
					var gs []string
					for _, l := range a.guard {
						gs = append(gs, fmt.Sprintf("(%d, %v)", atomIdx[l.atom], l.pos))
					}
					as = append(as, fmt.Sprintf("(%v, %s, [%s])", a.push, typ, strings.Join(gs, ", ")))
				}
				parts = append(parts, fmt.Sprintf("(%d, [%s])", typeIdx[m.typ], strings.Join(as, ", ")))
			}
			sep := ","
			if r == len(ruleNames)-1 {
				sep = ""
			}
			fmt.Fprintf(w, "  [%s]%s\n", strings.Join(parts, ", "), sep)
		}
		fmt.Fprintln(w, "]")
	}
	fmt.Fprintln(w, "/-- per rule: (receiver type, [(isPush, pushed/asserted type, guard literals (atom, polarity))]) for every EnterOC_<rule> that touches the visitor stack -/")
	emitActs("enterActions", true)
	fmt.Fprintln(w, "/-- the same for every ExitOC_<rule> -/")
	emitActs("exitActions", false)
	// method table (kind) per rule
	emitMeth := func(name string, enter bool) {
		fmt.Fprintf(w, "def %s : List (List (Nat × Bool × Bool × Bool)) := [\n", name)
		for r := range ruleNames {
			var parts []string
			for _, m := range methods {
				if m.rule == r && m.enter == enter {
					parts = append(parts, fmt.Sprintf("(%d, %v, %v, %v)", typeIdx[m.typ], m.addsErr, m.empty, m.setsRoot))
				}
			}
			sep := ","
			if r == len(ruleNames)-1 {
				sep = ""
			}
			fmt.Fprintf(w, "  [%s]%s\n", strings.Join(parts, ", "), sep)
		}
		fmt.Fprintln(w, "]")
	}
	fmt.Fprintln(w, "/-- per rule: (receiver type, body adds an error, body empty, body assigns the root result field) of every EnterOC_<rule> -/")
	emitMeth("enterMethods", true)
	fmt.Fprintln(w, "/-- the same for every ExitOC_<rule> -/")
	emitMeth("exitMethods", false)
	var up []string
	for _, m := range methods {
		if m.enter && m.unsupCall && m.typ != "BaseVisitor" {
			up = append(up, fmt.Sprintf("(%d, %d)", typeIdx[m.typ], m.rule))
		}
	}
	fmt.Fprintf(w, "/-- (receiver type, rule) of every EnterOC_<rule> of a visitor OTHER than BaseVisitor whose body unconditionally calls newUnsupportedRuleError -/\ndef unsupMethods : List (Nat × Nat) := [%s]\n", strings.Join(up, ", "))
	var ua []string
	for _, m := range methods {
		if m.unsupAfter && m.enter {
			ua = append(ua, fmt.Sprintf("(%d, %d)", typeIdx[m.typ], m.rule))
		}
	}
	fmt.Fprintf(w, "/-- (receiver type, rule) of every EnterOC_<rule> whose body is `if s.n++; s.n > 1 { s.newUnsupportedRuleError(ctx) }`: the second and every later node of the rule met by one visitor instance is reported -/\ndef unsupAfterFirst : List (Nat × Nat) := [%s]\n", strings.Join(ua, ", "))
	var po []string
	for _, m := range methods {
		if len(m.parts) > 0 {
			po = append(po, fmt.Sprintf("(%d, %d, %v, %s)", typeIdx[m.typ], m.rule, m.enter, leanNatList(m.parts)))
		}
	}
	fmt.Fprintf(w, "/-- (receiver type, rule, isEnter, operations) for every method that touches the `Parts` slice / `partIdx` counter of its visitor:\n0 allocEq `if len(Parts) == partIdx { append }`, 1 access `CurrentPart()`, 2 advance `partIdx += 1`, 3 allocZero `if len(Parts) == 0 { append }`, 4 anything else -/\ndef partsOps : List (Nat × Nat × Bool × List Nat) := [%s]\n", strings.Join(po, ", "))
	// MultiPartQuery.CurrentPart as written (cypher/models/cypher/model.go)
	curSrc := "<missing>"
	if mfset, mfiles, err := parseDir(filepath.Join(repo, "cypher", "models", "cypher")); err == nil {
		for _, f := range mfiles {
			for _, d := range f.Decls {
				if fd, ok := d.(*ast.FuncDecl); ok && fd.Name.Name == "CurrentPart" && recvType(fd) == "MultiPartQuery" {
					fd2 := *fd
					fd2.Doc = nil
					var b bytes.Buffer
					_ = (&printer.Config{Mode: printer.RawFormat}).Fprint(&b, mfset, &printer.CommentedNode{Node: &fd2, Comments: nil})
					curSrc = strings.Join(strings.Fields(b.String()), " ")
				}
			}
		}
	}
	fmt.Fprintf(w, "def srcCurrentPart : String := %s\n", leanStr(curSrc))
	// error reporting as written: every ANTLR SyntaxError call records one error, AddErrors drops only nil, the
	// unsupported-rule error keeps the rule text as it is (no slicing)
	funcSrc := func(key string) string {
		fd := x.funcs[key]
		if fd == nil {
			return "<missing>"
		}
		fd2 := *fd
		fd2.Doc = nil
		var b bytes.Buffer
		_ = (&printer.Config{Mode: printer.RawFormat}).Fprint(&b, fset, &printer.CommentedNode{Node: &fd2, Comments: nil})
		return strings.Join(strings.Fields(b.String()), " ")
	}
	// `<ctx>.A().M(…)`: a method called directly on the result of a single-child accessor — a nil dereference when the child is absent
	var chains []string
	{
		var keys []string
		for k := range x.funcs {
			keys = append(keys, k)
		}
		sort.Strings(keys)
		for _, k := range keys {
			fd := x.funcs[k]
			if fd.Body == nil {
				continue
			}
			ast.Inspect(fd.Body, func(n ast.Node) bool {
				outer, ok := n.(*ast.CallExpr)
				if !ok {
					return true
				}
				sel, ok := outer.Fun.(*ast.SelectorExpr)
				if !ok {
					return true
				}
				inner, ok := sel.X.(*ast.CallExpr)
				if !ok || len(inner.Args) != 0 {
					return true
				}
				isel, ok := inner.Fun.(*ast.SelectorExpr)
				if !ok || !x.nilAccessors[isel.Sel.Name] {
					return true
				}
				chains = append(chains, k+": "+src(fset, sel))
				return true
			})
		}
	}
	fmt.Fprintf(w, "/-- every `<receiver>.A().M` in cypher/frontend where A is a single-child accessor of a generated rule context (nil when the child is absent): \"<function>: <expression>\" -/\ndef accessorChains : List String := %s\n", leanStrList(chains))
	fmt.Fprintf(w, "def srcSyntaxError : String := %s\n", leanStr(funcSrc("Context.SyntaxError")))
	fmt.Fprintf(w, "def srcAddErrors : String := %s\n", leanStr(funcSrc("Context.AddErrors")))
	fmt.Fprintf(w, "def srcNewUnsupportedRuleError : String := %s\n", leanStr(funcSrc("BaseVisitor.newUnsupportedRuleError")))
	fmt.Fprintf(w, "def srcParseCypherInner : String := %s\n", leanStr(funcSrc("parseCypher")))
	// the five places hooks/C07-fix{1,2,3,5,6}.patch repair (each must be the old or the repaired text)
	fmt.Fprintf(w, "def srcNewTokenLiteralIterator : String := %s\n", leanStr(funcSrc("newTokenLiteralIterator")))
	fmt.Fprintf(w, "def srcEnterRangeLiteral : String := %s\n", leanStr(funcSrc("RelationshipPatternVisitor.EnterOC_RangeLiteral")))
	fmt.Fprintf(w, "def srcExitNotExpression : String := %s\n", leanStr(funcSrc("ExpressionVisitor.ExitOC_NotExpression")+" "+funcSrc("JoiningVisitor.ExitOC_NotExpression")))
	fmt.Fprintf(w, "def srcEnterPropertyLookupOfPropertyExpression : String := %s\n", leanStr(funcSrc("PropertyExpressionVisitor.EnterOC_PropertyLookup")))
	// format.formatFloatLiteral as written (cypher/models/cypher/format/format.go)
	fltSrc := "<missing>"
	if ffset, ffiles, err := parseDir(filepath.Join(repo, "cypher", "models", "cypher", "format")); err == nil {
		for _, f := range ffiles {
			for _, d := range f.Decls {
				if fd, ok := d.(*ast.FuncDecl); ok && fd.Name.Name == "formatFloatLiteral" && fd.Recv == nil {
					fd2 := *fd
					fd2.Doc = nil
					var b bytes.Buffer
					_ = (&printer.Config{Mode: printer.RawFormat}).Fprint(&b, ffset, &printer.CommentedNode{Node: &fd2, Comments: nil})
					fltSrc = strings.Join(strings.Fields(b.String()), " ")
				}
			}
		}
	}
	fmt.Fprintf(w, "def srcFormatFloatLiteral : String := %s\n", leanStr(fltSrc))
	// format.go, WriteExpression: the first statement of `case *cypher.FunctionInvocation:` (namespace) and the operand line of `case *cypher.Negation:`
	fnNsSrc, negSrc := "<missing>", "<missing>"
	if ffset, ffiles, err := parseDir(filepath.Join(repo, "cypher", "models", "cypher", "format")); err == nil {
		for _, f := range ffiles {
			ast.Inspect(f, func(n ast.Node) bool {
				cc, ok := n.(*ast.CaseClause)
				if !ok || len(cc.List) != 1 || len(cc.Body) == 0 {
					return true
				}
				one := func(st ast.Stmt) string {
					var b bytes.Buffer
					_ = (&printer.Config{Mode: printer.RawFormat}).Fprint(&b, ffset, &printer.CommentedNode{Node: st, Comments: nil})
					return strings.Join(strings.Fields(b.String()), " ")
				}
				switch src(ffset, cc.List[0]) {
				case "*cypher.FunctionInvocation":
					if fnNsSrc == "<missing>" {
						fnNsSrc = one(cc.Body[0])
					}
				case "*cypher.Negation":
					for _, st := range cc.Body {
						if s := one(st); negSrc == "<missing>" && strings.Contains(s, "writeOperand(") {
							negSrc = s
						}
					}
				}
				return true
			})
		}
	}
	fmt.Fprintf(w, "def srcFormatFunctionNamespace : String := %s\n", leanStr(fnNsSrc))
	fmt.Fprintf(w, "def srcFormatNegationOperand : String := %s\n", leanStr(negSrc))
	// token table
	sort.Slice(lexerToks, func(i, j int) bool { return lexerToks[i].n < lexerToks[j].n })
	var tk []string
	for _, t := range lexerToks {
		tk = append(tk, fmt.Sprintf("(%s, %d)", leanStr(t.name), t.n))
	}
	fmt.Fprintf(w, "/-- lexer token constants (CypherLexer<name> = type) -/\ndef tokenTypes : List (String × Nat) := [%s]\n", strings.Join(tk, ", "))
	fmt.Fprintf(w, "/-- literal names by token type (\"\" = none) -/\ndef literalNames : List String := %s\n", leanStrList(literalNames))
	fmt.Fprintln(w, "end Dawgs.Generated.Visitors")
	return nil
}

func (x *vExt) fsetName(f *ast.File) string { return f.Name.Name }
