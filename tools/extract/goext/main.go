// Command goext: syntactic fact extractors (go/ast only, no dependencies) that regenerate Lean
// tables from /repo's current sources. usage: goext <mode> <repo> <out.lean>
package main

import (
	"fmt"
	"go/ast"
	"go/parser"
	"go/token"
	"os"
	"path/filepath"
	"sort"
	"strings"
)

var modes = map[string]func(repo string, w *strings.Builder) error{}

func main() {
	if len(os.Args) != 4 {
		fmt.Fprintln(os.Stderr, "usage: goext <mode> <repo> <out.lean>")
		os.Exit(2)
	}
	f, ok := modes[os.Args[1]]
	if !ok {
		fmt.Fprintln(os.Stderr, "unknown mode", os.Args[1])
		os.Exit(2)
	}
	var b strings.Builder
	if err := f(os.Args[2], &b); err != nil {
		fmt.Fprintln(os.Stderr, "goext:", err)
		os.Exit(1)
	}
	if err := os.WriteFile(os.Args[3], []byte(b.String()), 0o644); err != nil {
		fmt.Fprintln(os.Stderr, "goext:", err)
		os.Exit(1)
	}
}

func parseDir(dir string) (*token.FileSet, []*ast.File, error) {
	fset := token.NewFileSet()
	entries, err := os.ReadDir(dir)
	if err != nil {
		return nil, nil, err
	}
	var files []*ast.File
	for _, e := range entries {
		n := e.Name()
		if e.IsDir() || !strings.HasSuffix(n, ".go") || strings.HasSuffix(n, "_test.go") || strings.HasPrefix(n, "verif_") {
			continue
		}
		f, err := parser.ParseFile(fset, filepath.Join(dir, n), nil, parser.ParseComments)
		if err != nil {
			return nil, nil, err
		}
		files = append(files, f)
	}
	return fset, files, nil
}

func leanStr(s string) string {
	return `"` + strings.ReplaceAll(strings.ReplaceAll(s, `\`, `\\`), `"`, `\"`) + `"`
}

func leanStrList(xs []string) string {
	q := make([]string, len(xs))
	for i, x := range xs {
		q[i] = leanStr(x)
	}
	return "[" + strings.Join(q, ", ") + "]"
}

func leanNatList(xs []int) string {
	q := make([]string, len(xs))
	for i, x := range xs {
		q[i] = fmt.Sprint(x)
	}
	return "[" + strings.Join(q, ", ") + "]"
}

func recvType(fd *ast.FuncDecl) string {
	if fd.Recv == nil || len(fd.Recv.List) == 0 {
		return ""
	}
	t := fd.Recv.List[0].Type
	if s, ok := t.(*ast.StarExpr); ok {
		t = s.X
	}
	if ix, ok := t.(*ast.IndexExpr); ok {
		t = ix.X
	}
	if ix, ok := t.(*ast.IndexListExpr); ok {
		t = ix.X
	}
	if id, ok := t.(*ast.Ident); ok {
		return id.Name
	}
	return ""
}

// callsNamed reports whether the node contains a call whose function selector or identifier is name.
func callsNamed(n ast.Node, name string) bool {
	found := false
	ast.Inspect(n, func(x ast.Node) bool {
		if c, ok := x.(*ast.CallExpr); ok {
			switch f := c.Fun.(type) {
			case *ast.SelectorExpr:
				if f.Sel.Name == name {
					found = true
				}
			case *ast.Ident:
				if f.Name == name {
					found = true
				}
			}
		}
		return !found
	})
	return found
}

func sortedKeys[V any](m map[string]V) []string {
	ks := make([]string, 0, len(m))
	for k := range m {
		ks = append(ks, k)
	}
	sort.Strings(ks)
	return ks
}
