package main

import (
	"fmt"
	"go/ast"
	"go/parser"
	"go/token"
	"io/fs"
	"os"
	"path/filepath"
	"strings"
)

// c11: copy table (cypher/models/cypher/{model,copy}.go) and branch tables (cypher/models/walk/walk_cypher.go)
// of the query model, plus the module-wide list of in-place slice writes. Purely syntactic: every struct,
// field, copy() literal, Copy case and cursor-constructor case is read from the current sources; the only
// hard-coded names are the helper functions (Copy, copySlice, copy, the two cursor entry points,
// addCypherBranches, newCypherWalkCursorWithMapItems, isNilNode, AddBranches, newSQLWalkCursor,
// pgsqlSyntaxNodeSliceTypeConvert) and the external slice type graph.Kinds.
func init() { modes["c11"] = c11Facts }

const (
	c11CypherDir = "cypher/models/cypher"
	c11WalkDir   = "cypher/models/walk"
	c11Kinds     = "graph.Kinds"
)

type c11Field struct {
	name, kind, styName, mode string
	sty                       int
	frozen                    bool
	via                       string // embedded struct the field is promoted from ("" = declared directly)
}

type c11Decl struct {
	name, shape, elemMode     string
	goName                    string // declared name inside the cypher package ("" for unnamed types)
	fields                    []c11Field
	copyCase, isNode, nilSafe bool
	elemKind                  string // list / map declarations: static class of the ELEMENT type ("value" for obj declarations)
	elemSty                   int
	helpers                   []int // indices into c11ctx.helpers: the functions a Copy of this type passes through
}

type c11Cond struct {
	i int
	v bool
}

type c11Entry struct {
	tgt   string // ".field 3", ".elems 3", ".mapItems 3", ".selfItems", ".unknown"
	conds []c11Cond
	nn    bool
}

var c11Basic = map[string]bool{"bool": true, "string": true, "int": true, "int8": true, "int16": true, "int32": true,
	"int64": true, "uint": true, "uint8": true, "uint16": true, "uint32": true, "uint64": true, "uintptr": true,
	"float32": true, "float64": true, "complex64": true, "complex128": true, "byte": true, "rune": true, "error": true}

// ---------------------------------------------------------------------------------------------------------
// small syntactic helpers

func c11Unparen(e ast.Expr) ast.Expr {
	for {
		p, ok := e.(*ast.ParenExpr)
		if !ok {
			return e
		}
		e = p.X
	}
}

func c11IsIdent(e ast.Expr, name string) bool {
	id, ok := c11Unparen(e).(*ast.Ident)
	return ok && id.Name == name
}

// c11IsSel: e is `recv.field` (or `recv.via.field` for a promoted field)
func c11IsSel(e ast.Expr, recv, via, field string) bool {
	sel, ok := c11Unparen(e).(*ast.SelectorExpr)
	if !ok || sel.Sel.Name != field {
		return false
	}
	if c11IsIdent(sel.X, recv) {
		return true
	}
	in, ok := c11Unparen(sel.X).(*ast.SelectorExpr)
	return ok && via != "" && in.Sel.Name == via && c11IsIdent(in.X, recv)
}

// c11Call: e is a call of the plain identifier name; returns the call
func c11Call(e ast.Expr, name string) *ast.CallExpr {
	if c, ok := c11Unparen(e).(*ast.CallExpr); ok && c11IsIdent(c.Fun, name) {
		return c
	}
	return nil
}

// c11NilTest: e is `<x> op nil`; returns x
func c11NilTest(e ast.Expr, op token.Token) ast.Expr {
	if b, ok := c11Unparen(e).(*ast.BinaryExpr); ok && b.Op == op && c11IsIdent(b.Y, "nil") {
		return b.X
	}
	return nil
}

// c11NilReturn: st is `if v == nil { return … }`
func c11NilReturn(st ast.Stmt, v string) bool {
	is, ok := st.(*ast.IfStmt)
	if !ok || is.Init != nil || is.Else != nil || len(is.Body.List) != 1 {
		return false
	}
	x := c11NilTest(is.Cond, token.EQL)
	_, ret := is.Body.List[0].(*ast.ReturnStmt)
	return x != nil && c11IsIdent(x, v) && ret
}

func c11RecvName(fd *ast.FuncDecl) string {
	if fd.Recv != nil && len(fd.Recv.List) == 1 && len(fd.Recv.List[0].Names) == 1 {
		return fd.Recv.List[0].Names[0].Name
	}
	return ""
}

func c11Params(fd *ast.FuncDecl) []string {
	var ps []string
	for _, p := range fd.Type.Params.List {
		for _, n := range p.Names {
			ps = append(ps, n.Name)
		}
	}
	return ps
}

// c11TypeStr renders a type expression the way %T prints a value of it; pkg qualifies local identifiers.
func c11TypeStr(e ast.Expr, pkg string) string {
	switch t := e.(type) {
	case *ast.Ident:
		if c11Basic[t.Name] || t.Name == "any" || t.Name == "nil" {
			return t.Name
		}
		return pkg + "." + t.Name
	case *ast.StarExpr:
		return "*" + c11TypeStr(t.X, pkg)
	case *ast.ArrayType:
		if t.Len == nil {
			return "[]" + c11TypeStr(t.Elt, pkg)
		}
	case *ast.ParenExpr:
		return c11TypeStr(t.X, pkg)
	case *ast.MapType:
		return "map[" + c11TypeStr(t.Key, pkg) + "]" + c11TypeStr(t.Value, pkg)
	case *ast.SelectorExpr:
		if id, ok := t.X.(*ast.Ident); ok {
			return id.Name + "." + t.Sel.Name
		}
	}
	return "?"
}

// ---------------------------------------------------------------------------------------------------------
// the cypher package: schema and copy table

type c11ctx struct {
	pkg       string
	types     map[string]*ast.TypeSpec
	typeOrder []string
	methods   map[string]map[string]*ast.FuncDecl
	funcs     map[string]*ast.FuncDecl
	copyCases map[string]*ast.CaseClause // by %T name of the case type
	caseOrder []string
	copyVar   string // the variable bound by Copy's type switch
	embedded  map[string]bool
	decls     []*c11Decl
	idx       map[string]int
	notes     []string
	helpers   []c11Helper
}

func (x *c11ctx) note(format string, a ...any) {
	n := fmt.Sprintf(format, a...)
	for _, m := range x.notes {
		if m == n {
			return
		}
	}
	x.notes = append(x.notes, n)
}

// under: class of the underlying type, following `type X Y` chains inside the package
func (x *c11ctx) under(e ast.Expr, depth int) string {
	switch t := e.(type) {
	case *ast.Ident:
		if t.Name == "any" {
			return "iface"
		}
		if c11Basic[t.Name] {
			return "basic"
		}
		if ts, ok := x.types[t.Name]; ok && depth < 32 {
			return x.under(ts.Type, depth+1)
		}
	case *ast.ParenExpr:
		return x.under(t.X, depth)
	case *ast.InterfaceType:
		return "iface"
	case *ast.StructType:
		return "struct"
	case *ast.MapType:
		return "map"
	case *ast.ArrayType:
		if t.Len == nil {
			return "slice"
		}
	case *ast.SelectorExpr:
		return "ext"
	}
	return "other"
}

// elemOf: element type expression of a (named) slice type
func (x *c11ctx) elemOf(e ast.Expr, depth int) ast.Expr {
	switch t := e.(type) {
	case *ast.Ident:
		if ts, ok := x.types[t.Name]; ok && depth < 32 {
			return x.elemOf(ts.Type, depth+1)
		}
	case *ast.ArrayType:
		return t.Elt
	}
	return nil
}

// classify: Kind of a field type and the %T name of its static type's declaration ("" if none)
func (x *c11ctx) classify(e ast.Expr) (kind, sty string, err error) {
	bad := fmt.Errorf("c11: cannot classify field type %s", c11TypeStr(e, x.pkg))
	switch t := e.(type) {
	case *ast.ParenExpr:
		return x.classify(t.X)
	case *ast.Ident:
		if t.Name == "any" {
			return "opaque", "", nil
		}
		switch x.under(t, 0) {
		case "basic":
			return "value", "", nil
		case "iface":
			return "iface", "", nil
		case "map":
			return "map", x.pkg + "." + t.Name, nil
		case "slice":
			if k, _, err := x.classify(x.elemOf(t, 0)); err == nil && (k == "ptr" || k == "iface") {
				return "slice", x.pkg + "." + t.Name, nil
			} else if err == nil && k == "value" {
				return "sliceScalar", x.pkg + "." + t.Name, nil
			}
		}
	case *ast.InterfaceType:
		if t.Methods == nil || len(t.Methods.List) == 0 {
			return "opaque", "", nil
		}
	case *ast.StarExpr:
		if id, ok := t.X.(*ast.Ident); ok {
			switch u := x.under(id, 0); {
			case u == "basic":
				return "ptrScalar", c11TypeStr(t, x.pkg), nil
			case u == "struct" || u == "slice":
				return "ptr", c11TypeStr(t, x.pkg), nil
			}
		}
	case *ast.ArrayType:
		if t.Len == nil {
			if k, _, err := x.classify(t.Elt); err == nil && (k == "ptr" || k == "iface") {
				return "slice", c11TypeStr(t, x.pkg), nil
			} else if err == nil && k == "value" {
				return "sliceScalar", c11TypeStr(t, x.pkg), nil
			}
		}
	case *ast.SelectorExpr:
		if c11TypeStr(t, x.pkg) == c11Kinds {
			return "kinds", c11Kinds, nil
		}
		return "value", "", nil
	}
	return "", "", bad
}

func (x *c11ctx) load(files []*ast.File) error {
	x.types, x.methods, x.funcs = map[string]*ast.TypeSpec{}, map[string]map[string]*ast.FuncDecl{}, map[string]*ast.FuncDecl{}
	x.copyCases, x.embedded, x.idx = map[string]*ast.CaseClause{}, map[string]bool{}, map[string]int{}
	for _, f := range files {
		x.pkg = f.Name.Name
		for _, d := range f.Decls {
			switch d := d.(type) {
			case *ast.GenDecl:
				for _, s := range d.Specs {
					if ts, ok := s.(*ast.TypeSpec); ok {
						x.types[ts.Name.Name] = ts
						x.typeOrder = append(x.typeOrder, ts.Name.Name)
					}
				}
			case *ast.FuncDecl:
				if rt := recvType(d); rt != "" {
					if x.methods[rt] == nil {
						x.methods[rt] = map[string]*ast.FuncDecl{}
					}
					x.methods[rt][d.Name.Name] = d
				} else {
					x.funcs[d.Name.Name] = d
				}
			}
		}
	}
	// Copy's type switch
	cp := x.funcs["Copy"]
	if cp == nil || cp.Body == nil {
		return fmt.Errorf("c11: func Copy not found in %s", c11CypherDir)
	}
	for _, st := range cp.Body.List {
		ts, ok := st.(*ast.TypeSwitchStmt)
		if !ok {
			continue
		}
		if as, ok := ts.Assign.(*ast.AssignStmt); ok && len(as.Lhs) == 1 {
			x.copyVar = as.Lhs[0].(*ast.Ident).Name
		}
		for _, c := range ts.Body.List {
			cc := c.(*ast.CaseClause)
			for _, te := range cc.List {
				if n := c11TypeStr(te, x.pkg); n != "nil" {
					if _, dup := x.copyCases[n]; !dup {
						x.copyCases[n] = cc
						x.caseOrder = append(x.caseOrder, n)
					}
				}
			}
		}
	}
	if x.copyVar == "" {
		return fmt.Errorf("c11: Copy has no `switch v := any(value).(type)`")
	}
	return nil
}

type c11Raw struct {
	name, via string
	typ       ast.Expr
}

// flatten: the fields of a struct with the fields of embedded structs promoted in place (one level)
func (x *c11ctx) flatten(st *ast.StructType, via string) ([]c11Raw, error) {
	var out []c11Raw
	for _, f := range st.Fields.List {
		if len(f.Names) == 0 {
			var est *ast.StructType
			id, ok := f.Type.(*ast.Ident)
			if ok && x.types[id.Name] != nil {
				est, _ = x.types[id.Name].Type.(*ast.StructType)
			}
			if est == nil || via != "" {
				return nil, fmt.Errorf("c11: unsupported embedded field %s", c11TypeStr(f.Type, x.pkg))
			}
			sub, err := x.flatten(est, id.Name)
			if err != nil {
				return nil, err
			}
			out = append(out, sub...)
			continue
		}
		for _, n := range f.Names {
			out = append(out, c11Raw{n.Name, via, f.Type})
		}
	}
	return out, nil
}

func (x *c11ctx) buildDecls() error {
	referenced := map[string]bool{} // local type names mentioned in some struct field type
	for _, n := range x.typeOrder {
		if st, ok := x.types[n].Type.(*ast.StructType); ok {
			for _, f := range st.Fields.List {
				if len(f.Names) == 0 {
					if id, ok := f.Type.(*ast.Ident); ok {
						x.embedded[id.Name] = true
					}
					continue
				}
				ast.Inspect(f.Type, func(m ast.Node) bool {
					if id, ok := m.(*ast.Ident); ok {
						referenced[id.Name] = true
					}
					return true
				})
			}
		}
	}
	used := func(n string) bool {
		_, c1 := x.copyCases[x.pkg+"."+n]
		_, c2 := x.copyCases["*"+x.pkg+"."+n]
		return c1 || c2 || referenced[n] || x.methods[n]["copy"] != nil
	}
	add := func(d *c11Decl) {
		if _, dup := x.idx[d.name]; !dup {
			x.idx[d.name] = len(x.decls)
			x.decls = append(x.decls, d)
		}
	}
	var g3, g4 []string // slice types, pointers to basic types
	seen := map[string]bool{}
	push := func(l *[]string, n string) {
		if !seen[n] {
			seen[n] = true
			*l = append(*l, n)
		}
	}
	// (1) structs
	for _, n := range x.typeOrder {
		st, ok := x.types[n].Type.(*ast.StructType)
		if !ok || x.embedded[n] || !used(n) {
			continue
		}
		raws, err := x.flatten(st, "")
		if err != nil {
			return err
		}
		d := &c11Decl{name: "*" + x.pkg + "." + n, goName: n, shape: "obj", elemMode: "unknown", isNode: true}
		for _, r := range raws {
			k, sty, err := x.classify(r.typ)
			if err != nil {
				return fmt.Errorf("%w (field %s.%s)", err, n, r.name)
			}
			d.fields = append(d.fields, c11Field{name: r.name, kind: k, styName: sty, mode: "unknown", via: r.via})
			_, named := r.typ.(*ast.Ident)
			switch {
			case k == "ptrScalar":
				push(&g4, sty)
			case (k == "slice" || k == "sliceScalar" || k == "kinds") && !named:
				push(&g3, sty)
			}
		}
		add(d)
	}
	// (2) named map / slice types
	for _, n := range x.typeOrder {
		if !used(n) {
			continue
		}
		if _, isStruct := x.types[n].Type.(*ast.StructType); isStruct {
			continue
		}
		switch x.under(x.types[n].Type, 0) {
		case "map":
			add(&c11Decl{name: x.pkg + "." + n, goName: n, shape: "map", elemMode: "unknown", isNode: true})
		case "slice":
			k, _, err := x.classify(&ast.Ident{Name: n})
			if err != nil {
				return err
			}
			add(&c11Decl{name: "*" + x.pkg + "." + n, goName: n, shape: "obj", elemMode: "unknown", isNode: true,
				fields: []c11Field{{name: "*", kind: k, styName: x.pkg + "." + n, mode: "unknown"}}})
			add(&c11Decl{name: x.pkg + "." + n, goName: n, shape: "list", elemMode: "unknown"})
		}
	}
	// (3)/(4) unnamed slice types and pointers to basic types: field types first, then Copy cases
	for _, n := range x.caseOrder {
		_, known := x.idx[n]
		switch {
		case known || x.embedded[strings.TrimPrefix(n, x.pkg+".")]:
		case strings.HasPrefix(n, "[]") || n == c11Kinds:
			push(&g3, n)
		case strings.HasPrefix(n, "*") && c11Basic[n[1:]]:
			push(&g4, n)
		default:
			x.note("Copy: case %s is not a model type", n)
		}
	}
	for _, n := range g3 {
		add(&c11Decl{name: n, shape: "list", elemMode: "unknown", isNode: n == c11Kinds})
	}
	for _, n := range g4 {
		add(&c11Decl{name: n, shape: "obj", elemMode: "unknown",
			fields: []c11Field{{name: "*", kind: "value", mode: "unknown"}}})
	}
	for _, d := range x.decls {
		for i := range d.fields {
			if f := &d.fields[i]; f.styName != "" {
				j, ok := x.idx[f.styName]
				if !ok {
					return fmt.Errorf("c11: field %s.%s: static type %s has no declaration", d.name, f.name, f.styName)
				}
				f.sty = j
			}
		}
	}
	return nil
}

// anyOf: the single statement `return any(E).(T)` of a Copy case; returns E
func c11AnyOf(st ast.Stmt) ast.Expr {
	rs, ok := st.(*ast.ReturnStmt)
	if !ok || len(rs.Results) != 1 {
		return nil
	}
	ta, ok := rs.Results[0].(*ast.TypeAssertExpr)
	if !ok {
		return nil
	}
	if c := c11Call(ta.X, "any"); c != nil && len(c.Args) == 1 {
		return c.Args[0]
	}
	return nil
}

// caseCalls: the Copy case of type tn is exactly `return any(typedValue.<method>()).(T)`
func (x *c11ctx) caseCalls(tn, method string) bool {
	cc := x.copyCases[tn]
	if cc == nil || len(cc.Body) != 1 {
		return false
	}
	c, ok := c11AnyOf(cc.Body[0]).(*ast.CallExpr)
	if !ok || len(c.Args) != 0 {
		return false
	}
	sel, ok := c.Fun.(*ast.SelectorExpr)
	return ok && sel.Sel.Name == method && c11IsIdent(sel.X, x.copyVar)
}

// fresh: e creates a new object (composite literal, &literal, make, new, or a one-line constructor returning one)
func (x *c11ctx) fresh(e ast.Expr, depth int) bool {
	switch t := c11Unparen(e).(type) {
	case *ast.CompositeLit:
		return true
	case *ast.UnaryExpr:
		_, ok := t.X.(*ast.CompositeLit)
		return t.Op == token.AND && ok
	case *ast.CallExpr:
		if c11IsIdent(t.Fun, "make") || c11IsIdent(t.Fun, "new") {
			return true
		}
		if id, ok := t.Fun.(*ast.Ident); ok && depth == 0 && len(t.Args) == 0 {
			if fd := x.funcs[id.Name]; fd != nil && fd.Body != nil && len(fd.Body.List) == 1 {
				if rs, ok := fd.Body.List[0].(*ast.ReturnStmt); ok && len(rs.Results) == 1 {
					return x.fresh(rs.Results[0], 1)
				}
			}
		}
	}
	return false
}

// fieldMode: how the value expression of key `fname` in a copy() literal treats the field
func (x *c11ctx) fieldMode(e ast.Expr, recv, via, fname, where string) string {
	if c := c11Call(e, "Copy"); c != nil && len(c.Args) == 1 && c11IsSel(c.Args[0], recv, via, fname) {
		return "deep"
	}
	if c11IsSel(e, recv, via, fname) {
		return "shallow"
	}
	x.note("%s: unrecognised value for field %s", where, fname)
	return "unknown"
}

// copyLiteral: keyed elements of the composite literal a copy() method returns, `&S{…}` (ptr) or `S{…}`;
// the body must be exactly [if s == nil {return …}] return <literal>
func (x *c11ctx) copyLiteral(tn string, ptr bool) (keys map[string]ast.Expr, recv string, nilSafe, ok bool) {
	fd := x.methods[tn]["copy"]
	if fd == nil || fd.Body == nil {
		return nil, "", false, false
	}
	recv = c11RecvName(fd)
	stmts := fd.Body.List
	if len(stmts) > 0 && c11NilReturn(stmts[0], recv) {
		nilSafe, stmts = true, stmts[1:]
	}
	if len(stmts) != 1 {
		return nil, recv, nilSafe, false
	}
	rs, isRet := stmts[0].(*ast.ReturnStmt)
	if !isRet || len(rs.Results) != 1 {
		return nil, recv, nilSafe, false
	}
	e := rs.Results[0]
	if ptr {
		u, isU := e.(*ast.UnaryExpr)
		if !isU || u.Op != token.AND {
			return nil, recv, nilSafe, false
		}
		e = u.X
	}
	cl, isCL := e.(*ast.CompositeLit)
	if !isCL || !c11IsIdent(cl.Type, tn) {
		return nil, recv, nilSafe, false
	}
	keys = map[string]ast.Expr{}
	for _, el := range cl.Elts {
		kv, isKV := el.(*ast.KeyValueExpr)
		if !isKV {
			return nil, recv, nilSafe, false
		}
		id, isID := kv.Key.(*ast.Ident)
		if !isID {
			return nil, recv, nilSafe, false
		}
		keys[id.Name] = kv.Value
	}
	return keys, recv, nilSafe, true
}

func (x *c11ctx) structModes(d *c11Decl) {
	n := d.goName
	_, d.copyCase = x.copyCases[d.name]
	keys, recv, nilSafe, ok := x.copyLiteral(n, true)
	d.nilSafe = nilSafe
	if d.copyCase && !x.caseCalls(d.name, "copy") {
		x.note("Copy: case %s does not return typedValue.copy()", d.name)
		return
	}
	if !ok {
		x.note("%s.copy(): body is not [nil check] + return &%s{…}", n, n)
		return
	}
	where := n + ".copy()"
	usedKeys := map[string]bool{}
	embModes := map[string]map[string]string{} // embedded struct -> promoted field -> mode
	for i := range d.fields {
		f := &d.fields[i]
		if f.via == "" {
			usedKeys[f.name] = true
			if e, has := keys[f.name]; has {
				f.mode = x.fieldMode(e, recv, "", f.name, where)
			} else {
				f.mode = "dropped"
			}
			continue
		}
		usedKeys[f.via] = true
		if embModes[f.via] == nil {
			embModes[f.via] = x.embeddedModes(keys[f.via], recv, f.via, where)
		}
		if m, has := embModes[f.via][f.name]; has {
			f.mode = m
		} else if embModes[f.via]["*"] != "" {
			f.mode = embModes[f.via]["*"]
		} else {
			f.mode = "dropped"
		}
	}
	for _, k := range sortedKeys(keys) {
		if !usedKeys[k] {
			x.note("%s: key %s is not a field", where, k)
		}
	}
}

// embeddedModes: modes of the promoted fields of embedded struct E given the value of key E in the outer literal;
// the pseudo-field "*" gives the mode of every field not listed
func (x *c11ctx) embeddedModes(e ast.Expr, recv, emb, where string) map[string]string {
	out := map[string]string{}
	cp := c11Call(e, "Copy")
	switch {
	case e == nil:
		out["*"] = "dropped"
	case c11IsSel(e, recv, "", emb):
		out["*"] = "shallow"
	case cp != nil && len(cp.Args) == 1 && c11IsSel(cp.Args[0], recv, "", emb):
		// E: Copy(s.E) goes through `case E: return any(typedValue.copy()).(T)` to func (s *E) copy() E
		keys, r2, _, ok := x.copyLiteral(emb, false)
		if !x.caseCalls(x.pkg+"."+emb, "copy") || !ok {
			x.note("%s: Copy(%s.%s) does not resolve to a recognisable %s.copy()", where, recv, emb, emb)
			out["*"] = "unknown"
			break
		}
		out["*"] = "dropped"
		for _, k := range sortedKeys(keys) {
			out[k] = x.fieldMode(keys[k], r2, "", k, emb+".copy()")
		}
	default:
		cl, ok := e.(*ast.CompositeLit)
		if !ok || !c11IsIdent(cl.Type, emb) {
			x.note("%s: unrecognised value for embedded %s", where, emb)
			out["*"] = "unknown"
			break
		}
		out["*"] = "dropped"
		for _, el := range cl.Elts {
			var id *ast.Ident
			kv, isKV := el.(*ast.KeyValueExpr)
			if isKV {
				id, _ = kv.Key.(*ast.Ident)
			}
			if id == nil {
				x.note("%s: unkeyed literal for embedded %s", where, emb)
				return map[string]string{"*": "unknown"}
			}
			out[id.Name] = x.fieldMode(kv.Value, recv, emb, id.Name, where)
		}
	}
	return out
}

// sliceLoop: `for i, v := range <src> { dst[i] = Copy(v) | v }` → deep | shallow, and dst
func c11SliceLoop(st ast.Stmt, src string) (mode, dst string) {
	rs, ok := st.(*ast.RangeStmt)
	if !ok || !c11IsIdent(rs.X, src) || rs.Key == nil || rs.Value == nil || len(rs.Body.List) != 1 {
		return "", ""
	}
	k, v := rs.Key.(*ast.Ident), rs.Value.(*ast.Ident)
	as, ok := rs.Body.List[0].(*ast.AssignStmt)
	if !ok || as.Tok != token.ASSIGN || len(as.Lhs) != 1 || len(as.Rhs) != 1 {
		return "", ""
	}
	ix, ok := as.Lhs[0].(*ast.IndexExpr)
	if !ok || !c11IsIdent(ix.Index, k.Name) {
		return "", ""
	}
	d, ok := ix.X.(*ast.Ident)
	if !ok {
		return "", ""
	}
	if c := c11Call(as.Rhs[0], "Copy"); c != nil && len(c.Args) == 1 && c11IsIdent(c.Args[0], v.Name) {
		return "deep", d.Name
	}
	if c11IsIdent(as.Rhs[0], v.Name) {
		return "shallow", d.Name
	}
	return "", ""
}

// assignedFresh: the statement list contains `v := <fresh>` / `v = <fresh>` at any depth
func (x *c11ctx) assignedFresh(stmts []ast.Stmt, v string) bool {
	found := false
	for _, st := range stmts {
		ast.Inspect(st, func(n ast.Node) bool {
			if as, ok := n.(*ast.AssignStmt); ok && len(as.Lhs) == 1 && len(as.Rhs) == 1 && c11IsIdent(as.Lhs[0], v) && x.fresh(as.Rhs[0], 0) {
				found = true
			}
			return !found
		})
	}
	return found
}

// guardedBy: some `if v != nil {…}` in stmts
func c11HasNotNilIf(stmts []ast.Stmt, v string) bool {
	for _, st := range stmts {
		if is, ok := st.(*ast.IfStmt); ok {
			if t := c11NilTest(is.Cond, token.NEQ); t != nil && c11IsIdent(t, v) {
				return true
			}
		}
	}
	return false
}

func c11Returns(stmts []ast.Stmt, v string) bool {
	if len(stmts) == 0 {
		return false
	}
	rs, ok := stmts[len(stmts)-1].(*ast.ReturnStmt)
	return ok && len(rs.Results) == 1 && c11IsIdent(rs.Results[0], v)
}

// copySliceFacts: element mode and nil preservation of the generic copySlice helper
func (x *c11ctx) copySliceFacts() (mode string, nilSafe bool) {
	fd := x.funcs["copySlice"]
	if fd == nil || fd.Body == nil || len(c11Params(fd)) != 1 {
		return "unknown", false
	}
	p := c11Params(fd)[0]
	mode = "unknown"
	ast.Inspect(fd.Body, func(n ast.Node) bool {
		if st, ok := n.(ast.Stmt); ok {
			if m, dst := c11SliceLoop(st, p); m != "" && x.assignedFresh(fd.Body.List, dst) && c11Returns(fd.Body.List, dst) {
				mode = m
			}
		}
		return true
	})
	return mode, c11HasNotNilIf(fd.Body.List, p)
}

func (x *c11ctx) otherModes() {
	csMode, csNil := x.copySliceFacts()
	// unnamed slice types first: *ListLiteral's mode is inherited from the Copy case of its conversion target
	order := []*c11Decl{}
	for _, named := range []bool{false, true} {
		for _, d := range x.decls {
			if (d.goName != "") == named {
				order = append(order, d)
			}
		}
	}
	for _, d := range order {
		cc, has := x.copyCases[d.name]
		t := x.types[d.goName]
		switch {
		case d.shape == "obj" && d.goName != "" && t != nil && x.under(t.Type, 0) == "struct":
			x.structModes(d)
		case d.shape == "map": // MapLiteral.copy: [nil check]; m := <fresh>; for k, v := range s { m[k] = Copy(v) }; return m
			d.copyCase = has
			fd := x.methods[d.goName]["copy"]
			if has && !x.caseCalls(d.name, "copy") {
				x.note("Copy: case %s does not return typedValue.copy()", d.name)
			} else if fd != nil && fd.Body != nil {
				recv, stmts := c11RecvName(fd), fd.Body.List
				if len(stmts) > 0 && c11NilReturn(stmts[0], recv) {
					d.nilSafe, stmts = true, stmts[1:]
				}
				if len(stmts) == 3 {
					if m, dst := c11SliceLoop(stmts[1], recv); m != "" && x.assignedFresh(stmts[:1], dst) && c11Returns(stmts, dst) {
						d.elemMode = m
					}
				}
			}
			if d.elemMode == "unknown" {
				x.note("%s.copy(): unrecognised shape", d.goName)
			}
		case d.shape == "obj" && d.goName != "": // *ListLiteral: [nil check]; l := <fresh>; *l = Copy([]E(*s)); return l
			d.copyCase = has
			f := &d.fields[0]
			fd := x.methods[d.goName]["copy"]
			if has && !x.caseCalls(d.name, "copy") {
				x.note("Copy: case %s does not return typedValue.copy()", d.name)
			} else if fd != nil && fd.Body != nil {
				recv, stmts := c11RecvName(fd), fd.Body.List
				if len(stmts) > 0 && c11NilReturn(stmts[0], recv) {
					d.nilSafe, stmts = true, stmts[1:]
				}
				if len(stmts) == 3 {
					f.mode = x.listCopyMode(stmts, recv)
				}
			}
			if f.mode == "unknown" {
				x.note("%s.copy(): unrecognised shape", d.goName)
			}
			val := x.decls[x.idx[x.pkg+"."+d.goName]] // the slice value behind the pointer
			val.elemMode, val.copyCase, val.nilSafe = f.mode, f.mode != "unknown", csNil
		case d.shape == "list" && d.goName != "": // filled in by the pointer decl above
		case d.shape == "list" && d.name == c11Kinds: // external clone method, trusted
			d.copyCase = has
			if has && x.caseCalls(d.name, "Copy") {
				d.elemMode, d.nilSafe = "deep", true
			} else if has {
				x.note("Copy: case %s is not typedValue.Copy()", d.name)
			}
		case d.shape == "list":
			d.copyCase = has
			if !has {
				break
			}
			v := x.copyVar
			if len(cc.Body) == 1 {
				if c := c11Call(c11AnyOf(cc.Body[0]), "copySlice"); c != nil && len(c.Args) == 1 && c11IsIdent(c.Args[0], v) {
					d.elemMode, d.nilSafe = csMode, csNil
				}
			} else if n := len(cc.Body); n > 0 && x.scalarElems(cc) {
				// var c []T; if v != nil { c = make([]T, len(v)); copy(c, v) }; return any(c).(T) — scalar elements only
				if id, ok := c11AnyOf(cc.Body[n-1]).(*ast.Ident); ok && x.assignedFresh(cc.Body, id.Name) && c11BuiltinCopy(cc.Body, id.Name, v) {
					d.elemMode, d.nilSafe = "deep", c11HasNotNilIf(cc.Body, v)
				}
			}
			if d.elemMode == "unknown" {
				x.note("Copy: case %s: unrecognised shape", d.name)
			}
		case d.shape == "obj": // *int64: [if v == nil {return empty}]; c := *v; return any(&c).(T)
			d.copyCase = has
			if !has {
				break
			}
			v, stmts := x.copyVar, cc.Body
			if len(stmts) > 0 && c11NilReturn(stmts[0], v) {
				d.nilSafe, stmts = true, stmts[1:]
			}
			if len(stmts) == 2 {
				as, ok := stmts[0].(*ast.AssignStmt)
				if ok && len(as.Lhs) == 1 && len(as.Rhs) == 1 {
					st, isStar := as.Rhs[0].(*ast.StarExpr)
					u, isAddr := c11AnyOf(stmts[1]).(*ast.UnaryExpr)
					if id, isID := as.Lhs[0].(*ast.Ident); isID && isStar && c11IsIdent(st.X, v) && isAddr && u.Op == token.AND && c11IsIdent(u.X, id.Name) {
						d.fields[0].mode = "shallow"
					}
				}
			}
			if d.fields[0].mode == "unknown" {
				x.note("Copy: case %s: unrecognised shape", d.name)
			}
		}
	}
}

// scalarElems: every type of the case is a slice of basic-typed elements
func (x *c11ctx) scalarElems(cc *ast.CaseClause) bool {
	for _, te := range cc.List {
		if k, _, err := x.classify(te); err != nil || k != "sliceScalar" {
			return false
		}
	}
	return len(cc.List) > 0
}

// c11BuiltinCopy: stmts contain the statement `copy(dst, src)` at any depth
func c11BuiltinCopy(stmts []ast.Stmt, dst, src string) bool {
	found := false
	for _, st := range stmts {
		ast.Inspect(st, func(n ast.Node) bool {
			if es, ok := n.(*ast.ExprStmt); ok {
				if c := c11Call(es.X, "copy"); c != nil && len(c.Args) == 2 && c11IsIdent(c.Args[0], dst) && c11IsIdent(c.Args[1], src) {
					found = true
				}
			}
			return !found
		})
	}
	return found
}

// listCopyMode: stmts = [l := <fresh>; *l = Copy([]E(*s)) | *s; return l]
func (x *c11ctx) listCopyMode(stmts []ast.Stmt, recv string) string {
	as0, ok0 := stmts[0].(*ast.AssignStmt)
	as1, ok1 := stmts[1].(*ast.AssignStmt)
	if !ok0 || !ok1 || len(as0.Lhs) != 1 || len(as0.Rhs) != 1 || len(as1.Lhs) != 1 || len(as1.Rhs) != 1 {
		return "unknown"
	}
	l, ok := as0.Lhs[0].(*ast.Ident)
	if !ok || !x.fresh(as0.Rhs[0], 0) || !c11Returns(stmts, l.Name) {
		return "unknown"
	}
	isDeref := func(e ast.Expr, v string) bool {
		st, ok := c11Unparen(e).(*ast.StarExpr)
		return ok && c11IsIdent(st.X, v)
	}
	if !isDeref(as1.Lhs[0], l.Name) || as1.Tok != token.ASSIGN {
		return "unknown"
	}
	if isDeref(as1.Rhs[0], recv) {
		return "shallow"
	}
	if c := c11Call(as1.Rhs[0], "Copy"); c != nil && len(c.Args) == 1 {
		if conv, ok := c.Args[0].(*ast.CallExpr); ok && len(conv.Args) == 1 && isDeref(conv.Args[0], recv) {
			if at, ok := conv.Fun.(*ast.ArrayType); ok {
				// the conversion target is copied by its own Copy case; inherit that case's element mode
				if j, ok := x.idx[c11TypeStr(at, x.pkg)]; ok && x.decls[j].copyCase && x.decls[j].elemMode != "unknown" {
					return x.decls[j].elemMode
				}
			}
		}
	}
	return "unknown"
}

// ---------------------------------------------------------------------------------------------------------
// module-wide scan for in-place slice writes through a field selector

// c11SelName: the field name of `x.f`, looking through parentheses, slicing, indexing and dereference
func c11SelName(e ast.Expr) string {
	for {
		switch t := e.(type) {
		case *ast.ParenExpr:
			e = t.X
		case *ast.SliceExpr:
			e = t.X
		case *ast.IndexExpr:
			e = t.X
		case *ast.StarExpr:
			e = t.X
		case *ast.SelectorExpr:
			return t.Sel.Name
		default:
			return ""
		}
	}
}

func c11ScanWrites(repo string, names map[string]bool) (idxW, apps [][2]string, err error) {
	fset := token.NewFileSet()
	err = filepath.WalkDir(repo, func(path string, d fs.DirEntry, err error) error {
		if err != nil {
			return err
		}
		n := d.Name()
		if d.IsDir() {
			if path != repo && (n == "vendor" || n == ".git" || n == "testdata") {
				return fs.SkipDir
			}
			return nil
		}
		if !strings.HasSuffix(n, ".go") || strings.HasSuffix(n, "_test.go") || strings.HasPrefix(n, "verif_") {
			return nil
		}
		f, err := parser.ParseFile(fset, path, nil, parser.SkipObjectResolution)
		if err != nil {
			return err
		}
		rel, _ := filepath.Rel(repo, path)
		at := func(p token.Pos) string { return fmt.Sprintf("%s:%d", filepath.ToSlash(rel), fset.Position(p).Line) }
		indexed := func(e ast.Expr) {
			if ix, ok := c11Unparen(e).(*ast.IndexExpr); ok {
				if s := c11SelName(ix.X); names[s] {
					idxW = append(idxW, [2]string{s, at(e.Pos())})
				}
			}
		}
		ast.Inspect(f, func(m ast.Node) bool {
			switch t := m.(type) {
			case *ast.AssignStmt:
				for _, l := range t.Lhs {
					indexed(l)
				}
			case *ast.IncDecStmt:
				indexed(t.X)
			case *ast.CallExpr:
				if len(t.Args) > 0 && (c11IsIdent(t.Fun, "append") || c11IsIdent(t.Fun, "copy")) {
					if s := c11SelName(t.Args[0]); names[s] {
						if c11IsIdent(t.Fun, "append") {
							apps = append(apps, [2]string{s, at(t.Pos())})
						} else {
							idxW = append(idxW, [2]string{s, at(t.Pos())})
						}
					}
				}
			}
			return true
		})
		return nil
	})
	return
}

// ---------------------------------------------------------------------------------------------------------
// the walk package: branch tables

type c11Walk struct {
	x     *c11ctx
	pkg   string
	funcs map[string]*ast.FuncDecl
}

type c11Hit struct {
	fd  *ast.FuncDecl
	cc  *ast.CaseClause
	tv  string // variable bound by the type switch ("" if none)
	unk string // non-empty: the dispatch chain has a shape the extractor does not recognise
}

func c11IsNilNodeGuard(st ast.Stmt, p string) bool {
	is, ok := st.(*ast.IfStmt)
	if !ok || is.Init != nil || is.Else != nil || len(is.Body.List) != 1 {
		return false
	}
	c := c11Call(is.Cond, "isNilNode")
	rs, isRet := is.Body.List[0].(*ast.ReturnStmt)
	return c != nil && len(c.Args) == 1 && c11IsIdent(c.Args[0], p) && isRet && len(rs.Results) == 2 && c11IsIdent(rs.Results[0], "nil")
}

// dispatch enumerates, in the order the code tries them, every (case clause, case type) reachable from fn and
// calls f until it returns true. A function is either a "switch" function (one type switch over its parameter)
// or a "dispatcher" (a chain of `if c, handled := g(node); handled { return c, … }` ending in a delegation or
// a failure return).
func (w *c11Walk) dispatch(fn string, depth int, f func(h c11Hit, tn string) bool) bool {
	fd := w.funcs[fn]
	unk := func(why string) bool { return f(c11Hit{unk: fn + ": " + why}, "") }
	if fd == nil || fd.Body == nil || depth > 16 || len(c11Params(fd)) != 1 {
		return unk("not a cursor constructor")
	}
	p, stmts := c11Params(fd)[0], fd.Body.List
	if len(stmts) > 0 && c11IsNilNodeGuard(stmts[0], p) {
		stmts = stmts[1:]
	}
	if len(stmts) == 1 {
		if ts, ok := stmts[0].(*ast.TypeSwitchStmt); ok {
			tv, x := "", ast.Expr(nil)
			switch a := ts.Assign.(type) {
			case *ast.AssignStmt:
				tv, x = a.Lhs[0].(*ast.Ident).Name, a.Rhs[0]
			case *ast.ExprStmt:
				x = a.X
			}
			if ta, ok := x.(*ast.TypeAssertExpr); !ok || ta.Type != nil || !c11IsIdent(ta.X, p) || ts.Init != nil {
				return unk("type switch is not over the parameter")
			}
			for _, c := range ts.Body.List {
				cc := c.(*ast.CaseClause)
				if cc.List == nil { // default: return nil, false
					var rs *ast.ReturnStmt
					if len(cc.Body) == 1 {
						rs, _ = cc.Body[0].(*ast.ReturnStmt)
					}
					if rs == nil || len(rs.Results) != 2 || !c11IsIdent(rs.Results[0], "nil") || !c11IsIdent(rs.Results[1], "false") {
						if unk("default clause is not `return nil, false`") {
							return true
						}
					}
					continue
				}
				for _, te := range cc.List {
					if f(c11Hit{fd: fd, cc: cc, tv: tv}, c11TypeStr(te, w.pkg)) {
						return true
					}
				}
			}
			return false
		}
	}
	for i, st := range stmts {
		if i == len(stmts)-1 {
			rs, ok := st.(*ast.ReturnStmt)
			if !ok || len(rs.Results) == 0 {
				return unk("last statement is not a return")
			}
			if c, ok := rs.Results[0].(*ast.CallExpr); ok && len(rs.Results) == 1 {
				if id, ok := c.Fun.(*ast.Ident); ok && len(c.Args) == 1 && c11IsIdent(c.Args[0], p) {
					return w.dispatch(id.Name, depth+1, f)
				}
			}
			if len(rs.Results) == 2 && c11IsIdent(rs.Results[0], "nil") {
				return false
			}
			return unk("unrecognised final return")
		}
		is, ok := st.(*ast.IfStmt)
		if !ok || is.Else != nil || len(is.Body.List) != 1 {
			return unk("unrecognised statement")
		}
		as, ok := is.Init.(*ast.AssignStmt)
		if !ok || len(as.Lhs) != 2 || len(as.Rhs) != 1 || as.Tok != token.DEFINE {
			return unk("unrecognised statement")
		}
		c, ok := as.Rhs[0].(*ast.CallExpr)
		rs, isRet := is.Body.List[0].(*ast.ReturnStmt)
		if !ok || !isRet || len(c.Args) != 1 || !c11IsIdent(c.Args[0], p) || len(rs.Results) != 2 {
			return unk("unrecognised statement")
		}
		g, ok := c.Fun.(*ast.Ident)
		cur, ok1 := as.Lhs[0].(*ast.Ident)
		handled, ok2 := as.Lhs[1].(*ast.Ident)
		if !ok || !ok1 || !ok2 || !c11IsIdent(is.Cond, handled.Name) || !c11IsIdent(rs.Results[0], cur.Name) ||
			!(c11IsIdent(rs.Results[1], "nil") || c11IsIdent(rs.Results[1], "true")) {
			return unk("unrecognised statement")
		}
		if w.dispatch(g.Name, depth+1, f) {
			return true
		}
	}
	return unk("empty body")
}

// lookup: the first case for type tn; nil = no case
func (w *c11Walk) lookup(entry, tn string) *c11Hit {
	var hit *c11Hit
	w.dispatch(entry, 0, func(h c11Hit, n string) bool {
		if h.unk != "" || n == tn {
			hit = &h
			return true
		}
		return false
	})
	return hit
}

// symbolic value of an expression inside a case body: the node itself, or one of its (flattened) fields
type c11Sym struct {
	ok, self bool
	field    int
}

type c11Exec struct {
	w    *c11Walk
	d    *c11Decl
	fail string
}

func (e *c11Exec) bad(format string, a ...any) {
	if e.fail == "" {
		e.fail = fmt.Sprintf(format, a...)
	}
}

func (e *c11Exec) eval(x ast.Expr, env map[string]c11Sym) c11Sym {
	switch t := c11Unparen(x).(type) {
	case *ast.Ident:
		return env[t.Name]
	case *ast.SelectorExpr:
		if e.eval(t.X, env).self {
			for i, f := range e.d.fields {
				if f.name == t.Sel.Name {
					return c11Sym{ok: true, field: i}
				}
			}
		}
	case *ast.CallExpr:
		// typedNode.M() where `func (s *T) M() []E { return *s }` on a pointer-to-named-slice: the synthetic field "*"
		if sel, ok := t.Fun.(*ast.SelectorExpr); ok && len(t.Args) == 0 && e.eval(sel.X, env).self &&
			len(e.d.fields) == 1 && e.d.fields[0].name == "*" && e.d.fields[0].kind != "value" {
			if fd := e.w.x.methods[e.d.goName][sel.Sel.Name]; fd != nil && fd.Body != nil && len(fd.Body.List) == 1 {
				if rs, ok := fd.Body.List[0].(*ast.ReturnStmt); ok && len(rs.Results) == 1 {
					if st, ok := rs.Results[0].(*ast.StarExpr); ok && c11IsIdent(st.X, c11RecvName(fd)) {
						return c11Sym{ok: true, field: 0}
					}
				}
			}
		}
	}
	return c11Sym{}
}

func c11Conds(pc []c11Cond, extra ...c11Cond) []c11Cond {
	return append(append([]c11Cond{}, pc...), extra...)
}

// cursor: entries of an expression that constructs a cursor
func (e *c11Exec) cursor(x ast.Expr, env map[string]c11Sym, pc []c11Cond, depth int) []c11Entry {
	out := []c11Entry{}
	if u, ok := c11Unparen(x).(*ast.UnaryExpr); ok && u.Op == token.AND {
		cl, ok := u.X.(*ast.CompositeLit)
		if !ok {
			e.bad("unrecognised cursor expression")
			return nil
		}
		ty := cl.Type
		if ix, ok := ty.(*ast.IndexExpr); ok {
			ty = ix.X
		}
		if !c11IsIdent(ty, "Cursor") {
			e.bad("unrecognised cursor expression")
			return nil
		}
		hasNode := false
		for _, el := range cl.Elts {
			kv, ok := el.(*ast.KeyValueExpr)
			if !ok {
				e.bad("unkeyed Cursor literal")
				return nil
			}
			switch {
			case c11IsIdent(kv.Key, "Node") && e.eval(kv.Value, env).self:
				hasNode = true
			case c11IsIdent(kv.Key, "Branches") && c11Call(kv.Value, "make") != nil:
			case c11IsIdent(kv.Key, "Branches"):
				bl, ok := kv.Value.(*ast.CompositeLit)
				if ok {
					_, ok = bl.Type.(*ast.ArrayType)
				}
				if !ok {
					e.bad("unrecognised Branches value")
					return nil
				}
				for _, b := range bl.Elts {
					s := e.eval(b, env)
					if !s.ok || s.self {
						e.bad("unrecognised Branches element")
						return nil
					}
					out = append(out, c11Entry{tgt: fmt.Sprintf(".field %d", s.field), conds: c11Conds(pc)})
				}
			default:
				e.bad("unrecognised Cursor literal key")
				return nil
			}
		}
		if !hasNode {
			e.bad("Cursor literal without Node: <the node>")
			return nil
		}
		return out
	}
	var id *ast.Ident
	c, ok := c11Unparen(x).(*ast.CallExpr)
	if ok {
		id, _ = c.Fun.(*ast.Ident)
	}
	if id == nil {
		e.bad("unrecognised cursor expression")
		return nil
	}
	args := make([]c11Sym, len(c.Args))
	for i, a := range c.Args {
		if args[i] = e.eval(a, env); !args[i].ok {
			e.bad("%s: unrecognised argument %d", id.Name, i)
			return nil
		}
	}
	if id.Name == "newCypherWalkCursorWithMapItems" { // (node, map): one synthesised *MapItem per entry
		switch {
		case len(args) != 2 || !args[0].self || !e.w.mapItemsHelperOK():
			e.bad("%s: unrecognised call or helper body", id.Name)
		case args[1].self && e.d.shape == "map":
			return []c11Entry{{tgt: ".selfItems", conds: c11Conds(pc)}}
		case !args[1].self && e.d.fields[args[1].field].kind == "map":
			return []c11Entry{{tgt: fmt.Sprintf(".mapItems %d", args[1].field), conds: c11Conds(pc)}}
		default:
			e.bad("%s: argument is not a map", id.Name)
		}
		return nil
	}
	fd := e.w.funcs[id.Name] // same-package helper: inline with parameters bound to the arguments
	if fd == nil || fd.Body == nil || depth > 4 || len(c11Params(fd)) != len(args) {
		e.bad("%s: cannot inline", id.Name)
		return nil
	}
	env2 := map[string]c11Sym{}
	for i, p := range c11Params(fd) {
		env2[p] = args[i]
	}
	ret, returned := e.block(fd.Body.List, env2, map[string][]c11Entry{}, pc, depth+1)
	if !returned {
		e.bad("%s: helper does not end in a return", id.Name)
	}
	return ret
}

// mapItemsHelperOK: newCypherWalkCursorWithMapItems(node, m) builds {Node: node} and, inside m.ForEachItem,
// adds &cypher.MapItem{Key: key, Value: value}
func (w *c11Walk) mapItemsHelperOK() bool {
	fd := w.funcs["newCypherWalkCursorWithMapItems"]
	if fd == nil || fd.Body == nil || len(c11Params(fd)) != 2 {
		return false
	}
	ps, ok := c11Params(fd), false
	ast.Inspect(fd.Body, func(n ast.Node) bool {
		c, isCall := n.(*ast.CallExpr)
		if !isCall || len(c.Args) != 1 {
			return true
		}
		sel, isSel := c.Fun.(*ast.SelectorExpr)
		fl, isFn := c.Args[0].(*ast.FuncLit)
		if !isSel || !isFn || sel.Sel.Name != "ForEachItem" || !c11IsIdent(sel.X, ps[1]) || len(fl.Body.List) != 2 {
			return true
		}
		var fp []string
		for _, p := range fl.Type.Params.List {
			for _, nm := range p.Names {
				fp = append(fp, nm.Name)
			}
		}
		es, isES := fl.Body.List[0].(*ast.ExprStmt)
		if !isES || len(fp) != 2 {
			return true
		}
		ab, isAB := es.X.(*ast.CallExpr)
		if !isAB || len(ab.Args) != 1 {
			return true
		}
		if s, isS := ab.Fun.(*ast.SelectorExpr); !isS || s.Sel.Name != "AddBranches" {
			return true
		}
		u, isU := ab.Args[0].(*ast.UnaryExpr)
		if !isU || u.Op != token.AND {
			return true
		}
		cl, isCL := u.X.(*ast.CompositeLit)
		if !isCL || !strings.HasSuffix(c11TypeStr(cl.Type, w.pkg), ".MapItem") || len(cl.Elts) != 2 {
			return true
		}
		good := 0
		for _, el := range cl.Elts {
			if kv, isKV := el.(*ast.KeyValueExpr); isKV {
				if (c11IsIdent(kv.Key, "Key") && c11IsIdent(kv.Value, fp[0])) || (c11IsIdent(kv.Key, "Value") && c11IsIdent(kv.Value, fp[1])) {
					good++
				}
			}
		}
		ok = ok || good == 2
		return true
	})
	return ok
}

// addBranchesHelperOK: addCypherBranches(cursor, xs) is `for _, b := range xs { cursor.AddBranches(T(b)) }`
func (w *c11Walk) addBranchesHelperOK() bool {
	fd := w.funcs["addCypherBranches"]
	if fd == nil || fd.Body == nil || len(c11Params(fd)) != 2 || len(fd.Body.List) != 1 {
		return false
	}
	ps := c11Params(fd)
	rs, ok := fd.Body.List[0].(*ast.RangeStmt)
	if !ok || !c11IsIdent(rs.X, ps[1]) || rs.Value == nil || len(rs.Body.List) != 1 {
		return false
	}
	es, ok := rs.Body.List[0].(*ast.ExprStmt)
	if !ok {
		return false
	}
	c, ok := es.X.(*ast.CallExpr)
	if !ok || len(c.Args) != 1 {
		return false
	}
	sel, ok := c.Fun.(*ast.SelectorExpr)
	if !ok || sel.Sel.Name != "AddBranches" || !c11IsIdent(sel.X, ps[0]) {
		return false
	}
	a := c.Args[0]
	if conv, ok := a.(*ast.CallExpr); ok && len(conv.Args) == 1 {
		a = conv.Args[0]
	}
	return c11IsIdent(a, rs.Value.(*ast.Ident).Name)
}

// simple: st is `v.AddBranches(a…)` (fields) or `addCypherBranches(v, a)` (elems); appends to vars[v]
func (e *c11Exec) simple(st ast.Stmt, env map[string]c11Sym, vars map[string][]c11Entry, pc []c11Cond, nn bool) (kind string, field int, ok bool) {
	es, isES := st.(*ast.ExprStmt)
	if !isES {
		return "", 0, false
	}
	c, isCall := es.X.(*ast.CallExpr)
	if !isCall {
		return "", 0, false
	}
	if sel, isSel := c.Fun.(*ast.SelectorExpr); isSel && sel.Sel.Name == "AddBranches" && len(c.Args) > 0 {
		v, isID := sel.X.(*ast.Ident)
		if !isID {
			return "", 0, false
		}
		if _, has := vars[v.Name]; !has {
			return "", 0, false
		}
		for _, a := range c.Args {
			s := e.eval(a, env)
			if !s.ok || s.self || c.Ellipsis != token.NoPos {
				return "", 0, false
			}
			vars[v.Name] = append(vars[v.Name], c11Entry{tgt: fmt.Sprintf(".field %d", s.field), conds: c11Conds(pc), nn: nn})
			field = s.field
		}
		return "field", field, len(c.Args) == 1 || !nn
	}
	if c11IsIdent(c.Fun, "addCypherBranches") && len(c.Args) == 2 && !nn {
		v, isID := c.Args[0].(*ast.Ident)
		s := e.eval(c.Args[1], env)
		if !isID || !s.ok || s.self {
			return "", 0, false
		}
		if _, has := vars[v.Name]; !has {
			return "", 0, false
		}
		vars[v.Name] = append(vars[v.Name], c11Entry{tgt: fmt.Sprintf(".elems %d", s.field), conds: c11Conds(pc)})
		return "elems", s.field, true
	}
	return "", 0, false
}

// block executes a statement list; vars maps cursor variables to the branches added so far
func (e *c11Exec) block(stmts []ast.Stmt, env map[string]c11Sym, vars map[string][]c11Entry, pc []c11Cond, depth int) (ret []c11Entry, returned bool) {
	for _, st := range stmts {
		if e.fail != "" {
			return nil, true
		}
		if _, _, ok := e.simple(st, env, vars, pc, false); ok {
			continue
		}
		switch s := st.(type) {
		case *ast.AssignStmt: // v := <cursor expression>
			id, ok := s.Lhs[0].(*ast.Ident)
			if !ok || len(s.Lhs) != 1 || len(s.Rhs) != 1 || s.Tok != token.DEFINE {
				e.bad("unrecognised assignment")
				return nil, true
			}
			vars[id.Name] = e.cursor(s.Rhs[0], env, pc, depth)
		case *ast.ReturnStmt:
			if len(s.Results) == 0 || len(s.Results) > 2 || (len(s.Results) == 2 && !c11IsIdent(s.Results[1], "true")) {
				e.bad("unrecognised return")
				return nil, true
			}
			if id, ok := s.Results[0].(*ast.Ident); ok {
				if es, has := vars[id.Name]; has {
					return es, true
				}
			}
			return e.cursor(s.Results[0], env, pc, depth), true
		case *ast.IfStmt:
			if s.Init != nil {
				e.bad("if with init statement")
				return nil, true
			}
			single := func() ast.Stmt {
				if len(s.Body.List) == 1 && s.Else == nil {
					return s.Body.List[0]
				}
				return &ast.EmptyStmt{}
			}
			// if !isNilNode(x) { v.AddBranches(x) }
			if u, ok := c11Unparen(s.Cond).(*ast.UnaryExpr); ok && u.Op == token.NOT {
				if c := c11Call(u.X, "isNilNode"); c != nil && len(c.Args) == 1 {
					g := e.eval(c.Args[0], env)
					if k, f, ok := e.simple(single(), env, vars, pc, true); ok && g.ok && !g.self && k == "field" && f == g.field {
						continue
					}
				}
				e.bad("unrecognised !isNilNode guard")
				return nil, true
			}
			// if len(x.F) > 0 { addCypherBranches(v, x.F) }: the guard is redundant
			if b, ok := c11Unparen(s.Cond).(*ast.BinaryExpr); ok && b.Op == token.GTR {
				if c := c11Call(b.X, "len"); c != nil && len(c.Args) == 1 {
					g := e.eval(c.Args[0], env)
					lit, isLit := b.Y.(*ast.BasicLit)
					if k, f, ok := e.simple(single(), env, vars, pc, false); ok && g.ok && !g.self && isLit && lit.Value == "0" && k == "elems" && f == g.field {
						continue
					}
				}
				e.bad("unrecognised len guard")
				return nil, true
			}
			// if x.F != nil {…} [else {…}]
			val, t := true, c11NilTest(s.Cond, token.NEQ)
			if t == nil {
				val, t = false, c11NilTest(s.Cond, token.EQL)
			}
			g := c11Sym{}
			if t != nil {
				g = e.eval(t, env)
			}
			if !g.ok || g.self {
				e.bad("unrecognised if condition")
				return nil, true
			}
			if s.Else == nil {
				if _, r := e.block(s.Body.List, env, vars, c11Conds(pc, c11Cond{g.field, val}), depth); r && e.fail == "" {
					e.bad("return inside a guard without else")
				}
				continue
			}
			eb, ok := s.Else.(*ast.BlockStmt)
			if !ok {
				e.bad("else-if chain")
				return nil, true
			}
			clone := func() map[string][]c11Entry {
				m := map[string][]c11Entry{}
				for k, v := range vars {
					m[k] = append([]c11Entry{}, v...)
				}
				return m
			}
			r1, ok1 := e.block(s.Body.List, env, clone(), c11Conds(pc, c11Cond{g.field, val}), depth)
			r2, ok2 := e.block(eb.List, env, clone(), c11Conds(pc, c11Cond{g.field, !val}), depth)
			if !ok1 || !ok2 {
				e.bad("if/else whose branches do not both return")
				return nil, true
			}
			return append(r1, r2...), true
		default:
			e.bad("unrecognised statement")
			return nil, true
		}
	}
	return nil, false
}

// entries: the branch list of type d under the constructor `entry`; nil pointer = no case
func (w *c11Walk) entries(entry string, d *c11Decl) *[]c11Entry {
	hit := w.lookup(entry, d.name)
	if hit == nil {
		return nil
	}
	unknown := &[]c11Entry{{tgt: ".unknown"}}
	if hit.unk != "" {
		w.x.note("%s", hit.unk)
		return unknown
	}
	e := &c11Exec{w: w, d: d}
	env := map[string]c11Sym{c11Params(hit.fd)[0]: {ok: true, self: true}}
	if hit.tv != "" {
		env[hit.tv] = c11Sym{ok: true, self: true}
	}
	ret, returned := e.block(hit.cc.Body, env, map[string][]c11Entry{}, nil, 0)
	if !returned {
		e.bad("case does not end in a return")
	}
	if e.fail != "" {
		w.x.note("%s: case %s: %s", hit.fd.Name.Name, d.name, e.fail)
		return unknown
	}
	if ret == nil {
		ret = []c11Entry{}
	}
	return &ret
}

// ---------------------------------------------------------------------------------------------------------
// walk_pgsql.go: informational list of the fields each case reads

type c11Pg struct {
	funcs map[string]*ast.FuncDecl
	roots map[string]bool   // identifiers denoting the node
	bound map[string]string // local variable -> what it was computed from
	out   []string
	depth int
}

func (p *c11Pg) emit(s string) {
	if n := len(p.out); n == 0 || p.out[n-1] != s {
		p.out = append(p.out, s)
	}
}

// path: `typedNode.A.B` -> "A.B" ("" for the node itself)
func (p *c11Pg) path(e ast.Expr) (string, bool) {
	switch t := c11Unparen(e).(type) {
	case *ast.Ident:
		return "", p.roots[t.Name]
	case *ast.StarExpr:
		return p.path(t.X)
	case *ast.SelectorExpr:
		if b, ok := p.path(t.X); ok {
			if b == "" {
				return t.Sel.Name, true
			}
			return b + "." + t.Sel.Name, true
		}
	}
	return "", false
}

func (p *c11Pg) scan(n ast.Node, g string) {
	switch t := n.(type) {
	case nil:
	case *ast.BlockStmt:
		for _, st := range t.List {
			p.scan(st, g)
		}
	case *ast.IfStmt:
		if as, ok := t.Init.(*ast.AssignStmt); ok && as.Tok == token.DEFINE && len(as.Rhs) == 1 && p.bind(as) {
		} else if t.Init != nil {
			p.scan(t.Init, g)
		}
		g2 := g
		if c := c11NilTest(t.Cond, token.NEQ); c != nil {
			if _, ok := p.path(c); ok {
				g2 = "?"
			} else if id, ok := c.(*ast.Ident); ok && p.bound[id.Name] != "" {
				g2 = "?"
			}
		} else if s, ok := p.path(t.Cond); ok && s != "" {
			g2 = "?"
		}
		p.scan(t.Body, g2)
		if t.Else != nil {
			p.scan(t.Else, g)
		}
	case *ast.RangeStmt:
		if s, ok := p.path(t.X); ok && s != "" {
			p.emit(s + "*" + g)
		} else {
			p.scan(t.X, g)
		}
		p.scan(t.Body, g)
	case *ast.AssignStmt:
		for _, r := range t.Rhs {
			p.scan(r, g)
		}
	case *ast.ReturnStmt:
		for _, r := range t.Results {
			p.scan(r, g)
		}
	case *ast.ExprStmt:
		p.scan(t.X, g)
	case *ast.CallExpr:
		if c11IsIdent(t.Fun, "len") || c11IsIdent(t.Fun, "make") {
			return
		}
		if id, ok := t.Fun.(*ast.Ident); ok {
			if id.Name == "pgsqlSyntaxNodeSliceTypeConvert" && len(t.Args) == 1 {
				if s, ok := p.path(t.Args[0]); ok && s != "" {
					p.emit(s + "*" + g)
					return
				}
			}
			if fd := p.funcs[id.Name]; fd != nil && fd.Body != nil && p.depth < 3 && len(c11Params(fd)) == len(t.Args) {
				inl := false
				for i, a := range t.Args {
					if s, ok := p.path(a); ok && s == "" {
						inl = true
						p.roots[c11Params(fd)[i]] = true
					}
				}
				if inl { // same-package helper taking the node: inline
					p.depth++
					p.scan(fd.Body, g)
					p.depth--
					return
				}
			}
		}
		if sel, ok := t.Fun.(*ast.SelectorExpr); ok {
			if s, ok := p.path(sel); ok {
				p.emit(s + "()" + g)
			}
		}
		for _, a := range t.Args {
			p.scan(a, g)
		}
	case *ast.IndexExpr:
		if s, ok := p.path(t.X); ok && s != "" {
			p.emit(s + "*" + g)
		} else {
			p.scan(t.X, g)
		}
	case *ast.SelectorExpr:
		if s, ok := p.path(t); ok {
			p.emit(s + g)
		} else {
			p.scan(t.X, g)
		}
	case *ast.Ident:
		if s := p.bound[t.Name]; s != "" {
			p.emit(s + g)
		}
	case *ast.StarExpr:
		p.scan(t.X, g)
	case *ast.ParenExpr:
		p.scan(t.X, g)
	case *ast.UnaryExpr:
		p.scan(t.X, g)
	case *ast.BinaryExpr:
		p.scan(t.X, g)
		p.scan(t.Y, g)
	case *ast.KeyValueExpr:
		p.scan(t.Value, g)
	case *ast.CompositeLit:
		for _, el := range t.Elts {
			p.scan(el, g)
		}
	}
}

// bind: `v, … := convert(typedNode.F)` / `v := typedNode.M()`: remember what v stands for, report it where v is used
func (p *c11Pg) bind(as *ast.AssignStmt) bool {
	c, ok := as.Rhs[0].(*ast.CallExpr)
	v, isID := as.Lhs[0].(*ast.Ident)
	if !ok || !isID {
		return false
	}
	if c11IsIdent(c.Fun, "pgsqlSyntaxNodeSliceTypeConvert") && len(c.Args) == 1 {
		if s, ok := p.path(c.Args[0]); ok && s != "" {
			p.bound[v.Name] = s + "*"
			return true
		}
	}
	if sel, ok := c.Fun.(*ast.SelectorExpr); ok && len(c.Args) == 0 {
		if s, ok := p.path(sel); ok {
			p.bound[v.Name] = s + "()"
			return true
		}
	}
	return false
}

func c11PgsqlBranches(funcs map[string]*ast.FuncDecl, pkg string) (out []string) {
	fd := funcs["newSQLWalkCursor"]
	if fd == nil || fd.Body == nil {
		return nil
	}
	for _, st := range fd.Body.List {
		ts, ok := st.(*ast.TypeSwitchStmt)
		if !ok {
			continue
		}
		tv := ""
		if as, ok := ts.Assign.(*ast.AssignStmt); ok {
			tv = as.Lhs[0].(*ast.Ident).Name
		}
		for _, c := range ts.Body.List {
			cc := c.(*ast.CaseClause)
			p := &c11Pg{funcs: funcs, roots: map[string]bool{tv: tv != ""}, bound: map[string]string{}}
			p.scan(&ast.BlockStmt{List: cc.Body}, "")
			for _, te := range cc.List {
				out = append(out, fmt.Sprintf("(%s, %s)", leanStr(c11TypeStr(te, pkg)), leanStrList(p.out)))
			}
		}
	}
	return out
}

// ---------------------------------------------------------------------------------------------------------
// driver and output

func c11LeanEntries(es *[]c11Entry) string {
	if es == nil {
		return "none"
	}
	parts := make([]string, len(*es))
	for i, e := range *es {
		cs := make([]string, len(e.conds))
		for j, c := range e.conds {
			cs[j] = fmt.Sprintf("(%d, %v)", c.i, c.v)
		}
		parts[i] = fmt.Sprintf("{ tgt := %s, conds := [%s], nn := %v }", e.tgt, strings.Join(cs, ", "), e.nn)
	}
	return "some [" + strings.Join(parts, ", ") + "]"
}

func c11LeanPairs(ps [][2]string) string {
	q := make([]string, len(ps))
	for i, p := range ps {
		q[i] = fmt.Sprintf("(%s, %s)", leanStr(p[0]), leanStr(p[1]))
	}
	return "[" + strings.Join(q, ", ") + "]"
}

func c11Facts(repo string, w *strings.Builder) error {
	_, cfiles, err := parseDir(filepath.Join(repo, filepath.FromSlash(c11CypherDir)))
	if err != nil {
		return err
	}
	x := &c11ctx{}
	if err := x.load(cfiles); err != nil {
		return err
	}
	if err := x.buildDecls(); err != nil {
		return err
	}
	x.otherModes()
	x.buildHelpers(repo)
	// element types of list / map declarations, from the type expression (named types) or the %T name (unnamed slices)
	for _, d := range x.decls {
		d.elemKind = "value"
		if d.shape == "obj" {
			continue
		}
		var el ast.Expr
		if d.goName != "" {
			if ts := x.types[d.goName]; ts != nil {
				switch t := ts.Type.(type) {
				case *ast.MapType:
					el = t.Value
				case *ast.ArrayType:
					el = t.Elt
				}
			}
		} else if strings.HasPrefix(d.name, "[]") {
			e := strings.TrimPrefix(d.name, "[]")
			if strings.HasPrefix(e, "*") {
				if j, ok := x.idx[e]; ok {
					d.elemKind, d.elemSty = "ptr", j
				}
				continue
			}
			if local := strings.TrimPrefix(e, x.pkg+"."); local != e {
				el = &ast.Ident{Name: local}
			}
		}
		if el != nil {
			if k, sty, err := x.classify(el); err == nil {
				d.elemKind = k
				if j, ok := x.idx[sty]; ok {
					d.elemSty = j
				}
			}
		}
	}

	// frozen: no indexed write and no append through a selector of that field name anywhere in the module
	sliceNames := map[string]bool{}
	for _, d := range x.decls {
		for _, f := range d.fields {
			if (f.kind == "slice" || f.kind == "sliceScalar" || f.kind == "kinds") && f.name != "*" {
				sliceNames[f.name] = true
			}
		}
	}
	idxW, apps, err := c11ScanWrites(repo, sliceNames)
	if err != nil {
		return err
	}
	written := map[string]bool{}
	for _, p := range append(append([][2]string{}, idxW...), apps...) {
		written[p[0]] = true
	}
	for _, d := range x.decls {
		for i := range d.fields {
			f := &d.fields[i]
			f.frozen = sliceNames[f.name] && !written[f.name] && (f.kind == "slice" || f.kind == "sliceScalar" || f.kind == "kinds")
		}
	}

	// branch tables
	_, wfiles, err := parseDir(filepath.Join(repo, filepath.FromSlash(c11WalkDir)))
	if err != nil {
		return err
	}
	wk := &c11Walk{x: x, funcs: map[string]*ast.FuncDecl{}}
	for _, f := range wfiles {
		wk.pkg = f.Name.Name
		for _, d := range f.Decls {
			if fd, ok := d.(*ast.FuncDecl); ok && fd.Recv == nil {
				wk.funcs[fd.Name.Name] = fd
			}
		}
	}
	const semEntry, strEntry = "newCypherWalkCursor", "newCypherStructuralWalkCursor"
	if !wk.addBranchesHelperOK() {
		x.note("addCypherBranches: body is not a range loop adding every element")
	}
	for _, en := range []string{semEntry, strEntry} {
		if fd := wk.funcs[en]; fd == nil || fd.Body == nil || len(fd.Body.List) == 0 || len(c11Params(fd)) != 1 || !c11IsNilNodeGuard(fd.Body.List[0], c11Params(fd)[0]) {
			x.note("%s: missing or does not start with the isNilNode guard", en)
		}
	}
	structural, semantic := make([]*[]c11Entry, len(x.decls)), make([]*[]c11Entry, len(x.decls))
	for i, d := range x.decls {
		structural[i], semantic[i] = wk.entries(strEntry, d), wk.entries(semEntry, d)
	}
	// case types that are not declarations: scalar leaves (named basic types of the cypher package without branches)
	var scalarLeaves []string
	seenCase := map[string]bool{}
	wk.dispatch(strEntry, 0, func(h c11Hit, tn string) bool {
		if _, isDecl := x.idx[tn]; h.unk != "" || isDecl || seenCase[tn] {
			return false
		}
		seenCase[tn] = true
		local := strings.TrimPrefix(tn, x.pkg+".")
		if local != tn && x.types[local] != nil && x.under(&ast.Ident{Name: local}, 0) == "basic" {
			dummy := &c11Decl{name: tn, shape: "obj"}
			a, b := wk.entries(strEntry, dummy), wk.entries(semEntry, dummy)
			if a != nil && b != nil && len(*a) == 0 && len(*b) == 0 {
				scalarLeaves = append(scalarLeaves, tn)
				return false
			}
		}
		x.note("walk: case type %s is neither a model declaration nor a scalar leaf", tn)
		return false
	})
	mapItem, ok := x.idx["*"+x.pkg+".MapItem"]
	if !ok {
		return fmt.Errorf("c11: no declaration *%s.MapItem", x.pkg)
	}
	pg := c11PgsqlBranches(wk.funcs, wk.pkg)
	gs, err := c11GenericShape(repo)
	if err != nil {
		return err
	}
	hs, err := c11HandlerShape(repo)
	if err != nil {
		return err
	}

	// output
	fmt.Fprintf(w, "/- GENERATED by tools/extract/goext (mode c11) from cypher/models/cypher/{model,copy}.go and cypher/models/walk/walk_{cypher,pgsql}.go — do not edit. -/\n")
	fmt.Fprintf(w, "import Dawgs.Model.C11\nnamespace Dawgs.Generated.C11\nopen Dawgs.C11\n\n")
	fmt.Fprintf(w, "def types : List TypeDecl := [\n")
	for i, d := range x.decls {
		fmt.Fprintf(w, "  -- %d %s\n", i, d.name)
		fmt.Fprintf(w, "  { name := %s, shape := .%s, elemMode := .%s, copyCase := %v, isNode := %v, nilSafe := %v, helpers := %s, elemKind := .%s, elemSty := %d,\n    fields := [",
			leanStr(d.name), d.shape, d.elemMode, d.copyCase, d.isNode, d.nilSafe, leanNatList(d.helpers), d.elemKind, d.elemSty)
		for j, f := range d.fields {
			if j > 0 {
				fmt.Fprintf(w, ",")
			}
			fmt.Fprintf(w, "\n      { name := %s, kind := .%s, sty := %d, mode := .%s, frozen := %v }", leanStr(f.name), f.kind, f.sty, f.mode, f.frozen)
		}
		fmt.Fprintf(w, "] }%s\n", map[bool]string{true: ",", false: ""}[i < len(x.decls)-1])
	}
	fmt.Fprintf(w, "]\n")
	tab := func(name string, t []*[]c11Entry) {
		fmt.Fprintf(w, "def %s : BranchTab := [\n", name)
		for i, d := range x.decls {
			fmt.Fprintf(w, "  -- %d %s\n  %s%s\n", i, d.name, c11LeanEntries(t[i]), map[bool]string{true: ",", false: ""}[i < len(x.decls)-1])
		}
		fmt.Fprintf(w, "]\n")
	}
	tab("structural", structural)
	tab("semantic", semantic)
	fmt.Fprintf(w, "def scalarLeaves : List String := %s\n", leanStrList(scalarLeaves))
	fmt.Fprintf(w, "def mapItemTy : Nat := %d\n", mapItem)
	fmt.Fprintf(w, "/-- every function a deep copy passes through (the Copy dispatcher, copy() methods, copySlice, graph.Kinds.Copy): does every\n    return hand back a fresh object / nil, and does some return hand back the argument itself -/\n")
	fmt.Fprintf(w, "def helpers : List Helper := [\n")
	for i, h := range x.helpers {
		fmt.Fprintf(w, "  { name := %s, allocates := %v, returnsArg := %v }%s  -- %d\n", leanStr(h.name), h.allocates, h.returnsArg, map[bool]string{true: ",", false: ""}[i < len(x.helpers)-1], i)
	}
	fmt.Fprintf(w, "]\n")
	var hra, hal []string
	for _, h := range x.helpers {
		hra = append(hra, fmt.Sprintf("(%s, %v)", leanStr(h.name), h.returnsArg))
		hal = append(hal, fmt.Sprintf("(%s, %v)", leanStr(h.name), h.allocates))
	}
	fmt.Fprintf(w, "def helperReturnsArgument : List (String × Bool) := [%s]\n", strings.Join(hra, ", "))
	fmt.Fprintf(w, "def helperAllocates : List (String × Bool) := [%s]\n", strings.Join(hal, ", "))
	fmt.Fprintf(w, "def tables : Tables := { types := types, structural := structural, semantic := semantic, scalarLeaves := scalarLeaves, mapItemTy := mapItemTy, helpers := helpers }\n\n")
	fmt.Fprintf(w, "/-- (field name, file:line) of every indexed write `x.f[i] = …`, `x.f[i]++`, `copy(x.f, …)` found in the module -/\n")
	fmt.Fprintf(w, "def indexedWrites : List (String × String) := %s\n", c11LeanPairs(idxW))
	fmt.Fprintf(w, "/-- (field name, file:line) of every `x.f = append(x.f, …)` found in the module -/\n")
	fmt.Fprintf(w, "def appends : List (String × String) := %s\n", c11LeanPairs(apps))
	fmt.Fprintf(w, "/-- walk_pgsql.go: per case type of newSQLWalkCursor the ordered fields it reads for branches (\"F?\" = guarded by a nil/Set test, \"F*\" = slice converted element-wise, \"F()\" = method call) -/\n")
	fmt.Fprintf(w, "def pgsqlBranches : List (String × List String) := [%s]\n", strings.Join(pg, ", "))
	fmt.Fprintf(w, "/-- walk.Generic: per callback call site (source order) whether the error / done checks follow it, and for every Exit site whether\n    the consume flag is read-and-cleared (`visitor.WasConsumed()`) after it and before the cursor is popped -/\n")
	fmt.Fprintf(w, "def genericFacts : List (String × Bool) := %s\n", strings.ReplaceAll(strings.ReplaceAll(c11LeanPairs(gs.facts), "\"true\"", "true"), "\"false\"", "false"))
	fmt.Fprintf(w, "/-- the visitor handler's methods: SetError acts only on a non-nil error (and then records it and sets done), SetDone / Consume set\n    one field, WasConsumed reads and clears the flag, Done / Error are field reads -/\n")
	fmt.Fprintf(w, "def handlerFacts : List (String × Bool) := %s\n", strings.ReplaceAll(strings.ReplaceAll(c11LeanPairs(hs), "\"true\"", "true"), "\"false\"", "false"))
	fmt.Fprintf(w, "/-- walk.Generic: number of Enter / Visit / Exit call sites -/\n")
	fmt.Fprintf(w, "def genericSites : Nat × Nat × Nat := (%d, %d, %d)\n", gs.enters, gs.visits, gs.exits)
	fmt.Fprintf(w, "/-- extractor notes: anything it could not classify (must be empty for the checks to pass) -/\n")
	fmt.Fprintf(w, "def unrecognised : List String := %s\n", leanStrList(x.notes))
	fmt.Fprintf(w, "end Dawgs.Generated.C11\n")

	if os.Getenv("C11_DEBUG") == "1" {
		dbg := os.Stderr
		fmt.Fprintf(dbg, "c11: %d decls, %d indexed writes, %d appends, %d pgsql cases, scalarLeaves=%v, mapItemTy=%d\n",
			len(x.decls), len(idxW), len(apps), len(pg), scalarLeaves, mapItem)
		for i, d := range x.decls {
			fmt.Fprintf(dbg, "%3d %-42s %-4s elem=%-7s copyCase=%-5v node=%-5v nilSafe=%v\n", i, d.name, d.shape, d.elemMode, d.copyCase, d.isNode, d.nilSafe)
			for j, f := range d.fields {
				fmt.Fprintf(dbg, "      %d %-24s %-11s sty=%-3d %-8s frozen=%v\n", j, f.name, f.kind, f.sty, f.mode, f.frozen)
			}
			fmt.Fprintf(dbg, "      structural: %s\n      semantic:   %s\n", c11LeanEntries(structural[i]), c11LeanEntries(semantic[i]))
		}
		for _, n := range x.notes {
			fmt.Fprintf(dbg, "UNRECOGNISED: %s\n", n)
		}
	}
	return nil
}
