package main

import (
	"bytes"
	"fmt"
	"go/ast"
	"go/printer"
	"go/token"
	"path/filepath"
	"sort"
	"strconv"
	"strings"
)

// c04: where text enters the emitted SQL.
//
// (1) cypher/models/pgsql/format: every argument of every `<x>.Write(...)` / WriteString / WriteByte / WriteRune call,
// with the provenance class of the argument expression (purely syntactic):
//
//	0 const      string literal (keyword / punctuation); expr = its text
//	1 number     strconv.FormatInt / FormatUint / FormatFloat / FormatBool
//	2 quoteEsc   strings.ReplaceAll(x, "'", "''"); wrapped = the call is exactly Write("'", <that>, "'")
//	3 identHelp  formatIdentifier(x)
//	4 stringer   x.String()
//	5 raw        identifier or selector written as it is
//	6 call       any other call (fmt.Sprintf, …)
//	7 sink       inside OutputBuilder.Write itself (the strings.Builder)
//	8 other      any other expression (concatenation, index, …)
//
// ctx = the case type list of the enclosing type switch whose bound variable is the root of the expression, or
// "range <source>" when the root is a range variable, else "".
// Also every `pgsql.FormattingLiteral(x)` conversion (text the formatter writes verbatim) with the class of x.
//
// (2) cypher/models/pgsql/translate (+ pgsql, optimize): the places that build identifiers, literals, raw fragments,
// nested SQL text and parameter values:
//
//	ident     pgsql.Identifier(x) with a non-literal x
//	literal   pgsql.NewLiteral(x, T) / pgsql.AsLiteral(x) / pgsql.Literal{Value: x} with a non-constant x
//	alias     <projection>.SetAlias(x)
//	like      rewriteStringWildCardLiteral(x) calls and string concatenations with a "%" literal
//	nested    format.Statement / format.Expression / format.SyntaxNode calls (SQL formatted to text inside the translator)
//	param     assignments into a `…Parameters[…]` / `queryParameters[…]` map
//	fmtlit    pgsql.FormattingLiteral(x)
//	shape     pgsql.NewRecordShape(…) column lists (INSERT column lists are written without the identifier helper)
//	symop     strings.* calls and slice expressions applied to a Cypher symbol (expression text mentions Symbol/symbol):
//	          formatIdentifier decides quoting from the raw symbol's back-ticks, so nothing may rewrite symbols on the way
//
// like sites carry the enclosing plain `if` conditions and switch cases (which operators, which operand shape).
func init() { modes["c04"] = c04Facts }

type c04Write struct {
	line    int
	fn      string
	arg     int
	cls     int
	wrapped bool
	expr    string
	ctx     string
}

type c04Site struct {
	kind string
	file string
	line int
	fn   string
	expr string
	aux  string
}

func c04Print(fset *token.FileSet, e ast.Node) string {
	var b bytes.Buffer
	_ = printer.Fprint(&b, fset, e)
	return strings.Join(strings.Fields(b.String()), " ")
}

func c04IsQuoteEsc(c *ast.CallExpr) bool {
	sel, ok := c.Fun.(*ast.SelectorExpr)
	if !ok || sel.Sel.Name != "ReplaceAll" || len(c.Args) != 3 {
		return false
	}
	if x, ok := sel.X.(*ast.Ident); !ok || x.Name != "strings" {
		return false
	}
	a, ok1 := c.Args[1].(*ast.BasicLit)
	b, ok2 := c.Args[2].(*ast.BasicLit)
	return ok1 && ok2 && a.Value == `"'"` && b.Value == `"''"`
}

func c04IsLit(e ast.Expr, v string) bool {
	l, ok := e.(*ast.BasicLit)
	return ok && l.Value == v
}

func c04Root(e ast.Expr) string {
	for {
		switch x := e.(type) {
		case *ast.Ident:
			return x.Name
		case *ast.SelectorExpr:
			e = x.X
		case *ast.CallExpr:
			e = x.Fun
		case *ast.IndexExpr:
			e = x.X
		case *ast.ParenExpr:
			e = x.X
		case *ast.StarExpr:
			e = x.X
		default:
			return ""
		}
	}
}

func c04Class(e ast.Expr) int {
	switch x := e.(type) {
	case *ast.BasicLit:
		if x.Kind == token.STRING {
			return 0
		}
		return 8
	case *ast.CallExpr:
		if c04IsQuoteEsc(x) {
			return 2
		}
		switch f := x.Fun.(type) {
		case *ast.Ident:
			if f.Name == "formatIdentifier" {
				return 3
			}
		case *ast.SelectorExpr:
			if p, ok := f.X.(*ast.Ident); ok && p.Name == "strconv" && strings.HasPrefix(f.Sel.Name, "Format") {
				return 1
			}
			if f.Sel.Name == "String" && len(x.Args) == 0 {
				return 4
			}
		}
		return 6
	case *ast.Ident, *ast.SelectorExpr:
		return 5
	case *ast.ParenExpr:
		return c04Class(x.X)
	}
	return 8
}

// c04Ctx finds the type-switch case or range statement that binds the root identifier of e.
func c04Ctx(fset *token.FileSet, stack []ast.Node, e ast.Expr) string {
	root := c04Root(e)
	if root == "" {
		return ""
	}
	for i := len(stack) - 1; i >= 0; i-- {
		switch n := stack[i].(type) {
		case *ast.RangeStmt:
			for _, kv := range []ast.Expr{n.Key, n.Value} {
				if id, ok := kv.(*ast.Ident); ok && id.Name == root {
					return "range " + c04Print(fset, n.X)
				}
			}
		case *ast.TypeSwitchStmt:
			bound := ""
			if as, ok := n.Assign.(*ast.AssignStmt); ok && len(as.Lhs) == 1 {
				if id, ok := as.Lhs[0].(*ast.Ident); ok {
					bound = id.Name
				}
			}
			if bound != root {
				continue
			}
			// the case clause is the next element of the stack below the switch body
			for j := i + 1; j < len(stack); j++ {
				if cc, ok := stack[j].(*ast.CaseClause); ok {
					var ts []string
					for _, t := range cc.List {
						ts = append(ts, c04Print(fset, t))
					}
					if len(ts) == 0 {
						return "default"
					}
					return strings.Join(ts, ",")
				}
			}
		}
	}
	return ""
}

func c04Walk(fd *ast.FuncDecl, visit func(stack []ast.Node, n ast.Node)) {
	var stack []ast.Node
	ast.Inspect(fd, func(n ast.Node) bool {
		if n == nil {
			stack = stack[:len(stack)-1]
			return true
		}
		visit(stack, n)
		stack = append(stack, n)
		return true
	})
}

func c04Facts(repo string, w *strings.Builder) error {
	// ---------------- (1) format package
	fdir := filepath.Join(repo, "cypher", "models", "pgsql", "format")
	fset, files, err := parseDir(fdir)
	if err != nil {
		return err
	}
	var writes []c04Write
	var sites []c04Site
	for _, f := range files {
		fname := filepath.Base(fset.Position(f.Pos()).Filename)
		for _, d := range f.Decls {
			fd, ok := d.(*ast.FuncDecl)
			if !ok || fd.Body == nil {
				continue
			}
			isSink := fd.Name.Name == "Write" && recvType(fd) == "OutputBuilder"
			c04Walk(fd, func(stack []ast.Node, n ast.Node) {
				call, ok := n.(*ast.CallExpr)
				if !ok {
					return
				}
				if sel, ok := call.Fun.(*ast.SelectorExpr); ok {
					switch sel.Sel.Name {
					case "Write", "WriteString", "WriteByte", "WriteRune":
						wrapped := len(call.Args) == 3 && c04IsLit(call.Args[0], `"'"`) && c04IsLit(call.Args[2], `"'"`)
						for i, a := range call.Args {
							cls := c04Class(a)
							if isSink {
								cls = 7
							}
							expr := c04Print(fset, a)
							if bl, ok := a.(*ast.BasicLit); ok && bl.Kind == token.STRING {
								if s, err := strconv.Unquote(bl.Value); err == nil {
									expr = s
								}
							}
							writes = append(writes, c04Write{fset.Position(a.Pos()).Line, fd.Name.Name, i, cls, wrapped, expr, c04Ctx(fset, append(stack, n), a)})
						}
					}
				}
				c04Conversions(fset, fname, fd, call, &sites, true, stack)
			})
		}
	}
	// ---------------- (2) translate, pgsql, optimize packages
	for _, sub := range []string{"translate", "", "optimize"} {
		dir := filepath.Join(repo, "cypher", "models", "pgsql", sub)
		fs2, files2, err := parseDir(dir)
		if err != nil {
			return err
		}
		for _, f := range files2 {
			fname := filepath.Base(fs2.Position(f.Pos()).Filename)
			if sub != "translate" {
				fname = filepath.Join(filepath.Base(dir), fname)
			}
			for _, d := range f.Decls {
				fd, ok := d.(*ast.FuncDecl)
				if !ok || fd.Body == nil {
					continue
				}
				c04Walk(fd, func(stack []ast.Node, n ast.Node) {
					switch x := n.(type) {
					case *ast.CallExpr:
						c04Conversions(fs2, fname, fd, x, &sites, sub != "translate", stack)
						if sel, ok := x.Fun.(*ast.SelectorExpr); ok && sub != "" {
							if pk, ok := sel.X.(*ast.Ident); ok && pk.Name == "strings" {
								for _, a := range x.Args {
									if t := c04Print(fs2, a); strings.Contains(t, "ymbol") {
										sites = append(sites, c04Site{"symop", fname, fs2.Position(x.Pos()).Line, fd.Name.Name, c04Print(fs2, x), ""})
										break
									}
								}
							}
						}
					case *ast.SliceExpr:
						if t := c04Print(fs2, x); sub != "" && strings.Contains(t, "ymbol") {
							sites = append(sites, c04Site{"symop", fname, fs2.Position(x.Pos()).Line, fd.Name.Name, t, "slice"})
						}
					case *ast.CompositeLit:
						if sub == "translate" && c04Print(fs2, x.Type) == "pgsql.Literal" {
							for _, el := range x.Elts {
								if kv, ok := el.(*ast.KeyValueExpr); ok && c04Print(fs2, kv.Key) == "Value" && !c04ConstArg(kv.Value) {
									sites = append(sites, c04Site{"literal", fname, fs2.Position(x.Pos()).Line, fd.Name.Name, c04Print(fs2, kv.Value), "composite"})
								}
							}
						}
					case *ast.BinaryExpr:
						if sub == "translate" && x.Op == token.ADD && (c04IsLit(x.X, `"%"`) || c04IsLit(x.Y, `"%"`)) {
							// only the outermost concatenation of a chain
							if len(stack) > 0 {
								if p, ok := stack[len(stack)-1].(*ast.BinaryExpr); ok && p.Op == token.ADD {
									return
								}
							}
							sites = append(sites, c04Site{"like", fname, fs2.Position(x.Pos()).Line, fd.Name.Name, c04Print(fs2, x), "concat ; " + c04Guards(fs2, stack)})
						}
					case *ast.AssignStmt:
						if sub != "translate" {
							return
						}
						for i, lhs := range x.Lhs {
							if ix, ok := lhs.(*ast.IndexExpr); ok {
								t := c04Print(fs2, ix.X)
								if strings.HasSuffix(t, "translation.Parameters") || strings.HasSuffix(t, "queryParameters") || t == "inputParameters" {
									rhs := ""
									if i < len(x.Rhs) {
										rhs = c04Print(fs2, x.Rhs[i])
									}
									sites = append(sites, c04Site{"param", fname, fs2.Position(x.Pos()).Line, fd.Name.Name, rhs, t})
								}
							}
						}
					}
				})
			}
		}
	}
	// ---------------- (3) entry points that do not pass the Cypher lexer: the query builders and the pg statement builders
	guardStart, guardPart, guardBody, err := c04Guard(filepath.Join(repo, "query", "v2"))
	if err != nil {
		return err
	}
	for _, dir := range []string{"query/v2", "query"} {
		fs3, files3, err := parseDir(filepath.Join(repo, filepath.FromSlash(dir)))
		if err != nil {
			return err
		}
		for _, f := range files3 {
			fname := dir + "/" + filepath.Base(fs3.Position(f.Pos()).Filename)
			for _, d := range f.Decls {
				fd, ok := d.(*ast.FuncDecl)
				if !ok || fd.Body == nil {
					continue
				}
				c04Walk(fd, func(stack []ast.Node, n ast.Node) {
					switch x := n.(type) {
					case *ast.CallExpr:
						name := c04Print(fs3, x.Fun)
						line := fs3.Position(x.Pos()).Line
						switch name {
						case "cypher.NewVariableWithSymbol", "cypherModel.NewVariableWithSymbol", "cypher.NewParameter", "cypherModel.NewParameter":
							if len(x.Args) >= 1 && !c04ConstArg(x.Args[0]) {
								sites = append(sites, c04Site{"symbol", fname, line, fd.Name.Name, c04Print(fs3, x.Args[0]), name})
							}
						case "validateCypherSymbol", "validateKnownIdentifiers", "validateBoundIdentifiers":
							if len(x.Args) >= 1 {
								aux := name
								if len(x.Args) >= 2 && name == "validateCypherSymbol" {
									aux += " ; " + c04Print(fs3, x.Args[1])
								}
								sites = append(sites, c04Site{"guard", fname, line, fd.Name.Name, c04Print(fs3, x.Args[0]), aux})
							}
						}
					case *ast.CompositeLit:
						if t := c04Print(fs3, x.Type); t == "cypher.Variable" || t == "cypherModel.Variable" || t == "cypher.Parameter" || t == "cypherModel.Parameter" {
							for _, el := range x.Elts {
								if kv, ok := el.(*ast.KeyValueExpr); ok && c04Print(fs3, kv.Key) == "Symbol" && !c04ConstArg(kv.Value) {
									sites = append(sites, c04Site{"symbol", fname, fs3.Position(x.Pos()).Line, fd.Name.Name, c04Print(fs3, kv.Value), t + "{}"})
								}
							}
						}
					}
				})
			}
		}
	}
	for _, dir := range []string{"drivers/pg/query", "drivers/pg/model"} {
		fs4, files4, err := parseDir(filepath.Join(repo, filepath.FromSlash(dir)))
		if err != nil {
			return err
		}
		for _, f := range files4 {
			base := filepath.Base(fs4.Position(f.Pos()).Filename)
			if base != "format.go" {
				continue
			}
			fname := dir + "/" + base
			for _, d := range f.Decls {
				fd, ok := d.(*ast.FuncDecl)
				if !ok || fd.Body == nil {
					continue
				}
				seen := map[string]bool{}
				c04Walk(fd, func(stack []ast.Node, n ast.Node) {
					call, ok := n.(*ast.CallExpr)
					if !ok {
						return
					}
					name := c04Print(fs4, call.Fun)
					if name != "join" && !strings.HasSuffix(name, ".WriteString") {
						return
					}
					for _, a := range call.Args {
						if _, isLit := a.(*ast.BasicLit); isLit {
							continue
						}
						t := c04Print(fs4, a)
						if !seen[t] {
							seen[t] = true
							sites = append(sites, c04Site{"pgraw", fname, fs4.Position(a.Pos()).Line, fd.Name.Name, t, fmt.Sprint(c04Class(a))})
						}
					}
				})
			}
		}
	}
	sort.SliceStable(writes, func(i, j int) bool {
		if writes[i].line != writes[j].line {
			return writes[i].line < writes[j].line
		}
		return writes[i].arg < writes[j].arg
	})
	sort.SliceStable(sites, func(i, j int) bool {
		a, b := sites[i], sites[j]
		if a.kind != b.kind {
			return a.kind < b.kind
		}
		if a.file != b.file {
			return a.file < b.file
		}
		return a.line < b.line
	})
	w.WriteString("-- GENERATED by tools/extract/goext c04 from cypher/models/pgsql/{format,translate,optimize,.}/*.go — do not edit\n")
	w.WriteString("namespace Dawgs.Generated.C04Sites\n\n")
	w.WriteString("/-- classes: 0 const, 1 number, 2 quoteEsc, 3 identHelp, 4 stringer, 5 raw, 6 call, 7 sink, 8 other -/\n")
	w.WriteString("structure WSite where\n  line : Nat\n  fn : String\n  arg : Nat\n  cls : Nat\n  wrapped : Bool\n  expr : String\n  ctx : String\nderiving Repr, DecidableEq\n\n")
	w.WriteString("/-- every argument of every Write/WriteString/WriteByte/WriteRune call of cypher/models/pgsql/format -/\n")
	w.WriteString("def writeSites : List WSite := [\n")
	for i, s := range writes {
		sep := ","
		if i == len(writes)-1 {
			sep = ""
		}
		fmt.Fprintf(w, "  ⟨%d, %s, %d, %d, %v, %s, %s⟩%s\n", s.line, leanStr(s.fn), s.arg, s.cls, s.wrapped, leanStr(s.expr), leanStr(s.ctx), sep)
	}
	w.WriteString("]\n\n")
	w.WriteString("structure Site where\n  kind : String\n  file : String\n  line : Nat\n  fn : String\n  expr : String\n  aux : String\nderiving Repr, DecidableEq\n\n")
	w.WriteString("/-- construction sites of identifiers, literals, verbatim fragments, LIKE patterns, nested SQL text and parameters -/\n")
	w.WriteString("def sites : List Site := [\n")
	for i, s := range sites {
		sep := ","
		if i == len(sites)-1 {
			sep = ""
		}
		fmt.Fprintf(w, "  ⟨%s, %s, %d, %s, %s, %s⟩%s\n", leanStr(s.kind), leanStr(s.file), s.line, leanStr(s.fn), leanStr(s.expr), leanStr(s.aux), sep)
	}
	w.WriteString("]\n\n")
	w.WriteString("/-- query/v2/util.go: the disjuncts of isCypherSymbolStart / isCypherSymbolPart (`eq:c` = char == 'c', `unicode.X` = the\nrange table or predicate, `@start` = isCypherSymbolStart, `?…` = anything else) and what validateCypherSymbol calls -/\n")
	fmt.Fprintf(w, "def guardStart : List String := %s\n", leanStrList(guardStart))
	fmt.Fprintf(w, "def guardPart : List String := %s\n", leanStrList(guardPart))
	fmt.Fprintf(w, "def guardBody : List String := %s\n", leanStrList(guardBody))
	// ---------------- (5) number formatting calls of the formatter: strconv.Format*(…) with every argument's text
	w.WriteString("\n/-- every strconv.Format… call of cypher/models/pgsql/format: (line, enclosing function, callee, arguments) -/\n")
	w.WriteString("def formatCalls : List (Nat × String × String × List String) := [\n")
	{
		var rows []string
		for _, f := range files {
			for _, d := range f.Decls {
				fd, ok := d.(*ast.FuncDecl)
				if !ok || fd.Body == nil {
					continue
				}
				ast.Inspect(fd.Body, func(n ast.Node) bool {
					call, ok := n.(*ast.CallExpr)
					if !ok {
						return true
					}
					name := c04Print(fset, call.Fun)
					if strings.HasPrefix(name, "strconv.") || strings.HasPrefix(name, "fmt.Sprint") {
						var args []string
						for _, a := range call.Args {
							args = append(args, c04Print(fset, a))
						}
						rows = append(rows, fmt.Sprintf("  (%d, %s, %s, %s)", fset.Position(call.Pos()).Line, leanStr(fd.Name.Name), leanStr(name), leanStrList(args)))
					}
					return true
				})
			}
		}
		sort.Strings(rows)
		w.WriteString(strings.Join(rows, ",\n"))
	}
	w.WriteString("\n]\n")
	// ---------------- (4) option parameters of the entry points
	opts, err := c04EntryOptions(repo)
	if err != nil {
		return err
	}
	w.WriteString("\n/-- exported entry points of translate / pgsql format / cypher format: every parameter (entry, name, type), every exported\nfield of the option-carrying structs and every parameter of their With… methods -/\n")
	w.WriteString("def entryOptions : List (String × String × String) := [\n")
	for i, o := range opts {
		sep := ","
		if i == len(opts)-1 {
			sep = ""
		}
		fmt.Fprintf(w, "  (%s, %s, %s)%s\n", leanStr(o[0]), leanStr(o[1]), leanStr(o[2]), sep)
	}
	w.WriteString("]\n")
	w.WriteString("\nend Dawgs.Generated.C04Sites\n")
	return nil
}

// c04Guard reads the builder's symbol guard: the disjuncts of the two rune predicates and the calls of validateCypherSymbol.
func c04Guard(dir string) (start, part, body []string, err error) {
	fset, files, err := parseDir(dir)
	if err != nil {
		return nil, nil, nil, err
	}
	var atoms func(e ast.Expr) []string
	atoms = func(e ast.Expr) []string {
		switch x := e.(type) {
		case *ast.ParenExpr:
			return atoms(x.X)
		case *ast.BinaryExpr:
			if x.Op == token.LOR {
				return append(atoms(x.X), atoms(x.Y)...)
			}
			if x.Op == token.EQL {
				if l, ok := x.Y.(*ast.BasicLit); ok && l.Kind == token.CHAR {
					if c, err := strconv.Unquote(l.Value); err == nil {
						return []string{"eq:" + c}
					}
				}
			}
		case *ast.CallExpr:
			name := c04Print(fset, x.Fun)
			switch {
			case name == "isCypherSymbolStart" && len(x.Args) == 1:
				return []string{"@start"}
			case name == "unicode.In" && len(x.Args) >= 2:
				var out []string
				for _, a := range x.Args[1:] {
					out = append(out, c04Print(fset, a))
				}
				return out
			case strings.HasPrefix(name, "unicode.") && len(x.Args) == 1:
				return []string{name}
			}
		}
		return []string{"?" + c04Print(fset, e)}
	}
	found := 0
	for _, f := range files {
		for _, d := range f.Decls {
			fd, ok := d.(*ast.FuncDecl)
			if !ok || fd.Body == nil {
				continue
			}
			switch fd.Name.Name {
			case "isCypherSymbolStart", "isCypherSymbolPart":
				var as []string
				if len(fd.Body.List) == 1 {
					if r, ok := fd.Body.List[0].(*ast.ReturnStmt); ok && len(r.Results) == 1 {
						as = atoms(r.Results[0])
					}
				}
				if as == nil {
					as = []string{"?body"}
				}
				if fd.Name.Name == "isCypherSymbolStart" {
					start = as
				} else {
					part = as
				}
				found++
			case "validateCypherSymbol":
				ast.Inspect(fd.Body, func(n ast.Node) bool {
					if c, ok := n.(*ast.CallExpr); ok {
						body = append(body, c04Print(fset, c.Fun))
					}
					if b, ok := n.(*ast.BinaryExpr); ok && b.Op == token.EQL {
						body = append(body, c04Print(fset, b))
					}
					return true
				})
				found++
			}
		}
	}
	if found != 3 {
		return nil, nil, nil, fmt.Errorf("query/v2: symbol guard functions not found (%d of 3)", found)
	}
	return start, part, body, nil
}

// c04EntryOptions lists the parameters of the exported functions of the three packages through which a query becomes SQL
// text, the exported fields of OutputBuilder / Emitter and the parameters of their exported methods named With….
func c04EntryOptions(repo string) ([][3]string, error) {
	var out [][3]string
	for _, pk := range []struct{ dir, name string }{
		{"cypher/models/pgsql/translate", "translate"},
		{"cypher/models/pgsql/format", "format"},
		{"cypher/models/cypher/format", "cypherformat"},
	} {
		fset, files, err := parseDir(filepath.Join(repo, filepath.FromSlash(pk.dir)))
		if err != nil {
			return nil, err
		}
		entry := map[string]bool{
			"translate.FromCypher": true, "translate.Translate": true, "translate.Translated": true, "translate.NewTranslator": true,
			"format.NewOutputBuilder": true, "format.Statement": true, "format.Expression": true, "format.SyntaxNode": true,
			"cypherformat.NewCypherEmitter": true, "cypherformat.RegularQuery": true,
		}
		optStructs := map[string]bool{"format.OutputBuilder": true, "cypherformat.Emitter": true}
		for _, f := range files {
			for _, d := range f.Decls {
				switch x := d.(type) {
				case *ast.FuncDecl:
					name := pk.name + "." + x.Name.Name
					recv := recvType(x)
					isWith := recv != "" && optStructs[pk.name+"."+recv] && strings.HasPrefix(x.Name.Name, "With")
					if (x.Recv == nil && entry[name]) || isWith {
						if isWith {
							name = pk.name + "." + recv + "." + x.Name.Name
						}
						if x.Type.Params != nil {
							for _, fl := range x.Type.Params.List {
								t := c04Print(fset, fl.Type)
								for _, n := range fl.Names {
									out = append(out, [3]string{name, n.Name, t})
								}
							}
						}
					}
				case *ast.GenDecl:
					for _, sp := range x.Specs {
						ts, ok := sp.(*ast.TypeSpec)
						if !ok || !optStructs[pk.name+"."+ts.Name.Name] {
							continue
						}
						if st, ok := ts.Type.(*ast.StructType); ok {
							for _, fl := range st.Fields.List {
								for _, n := range fl.Names {
									if ast.IsExported(n.Name) {
										out = append(out, [3]string{pk.name + "." + ts.Name.Name, n.Name, c04Print(fset, fl.Type)})
									}
								}
							}
						}
					}
				}
			}
		}
	}
	sort.Slice(out, func(i, j int) bool {
		if out[i][0] != out[j][0] {
			return out[i][0] < out[j][0]
		}
		return out[i][1] < out[j][1]
	})
	return out, nil
}

// c04ConstArg: literals, the predeclared constants and negative numbers carry no user text.
func c04ConstArg(e ast.Expr) bool {
	switch x := e.(type) {
	case *ast.BasicLit:
		return true
	case *ast.Ident:
		return x.Name == "true" || x.Name == "false" || x.Name == "nil"
	case *ast.UnaryExpr:
		return c04ConstArg(x.X)
	case *ast.ParenExpr:
		return c04ConstArg(x.X)
	}
	return false
}

// c04Guards: the plain `if <cond> {` conditions and `case a, b:` lists (of ordinary switches) enclosing a node.
func c04Guards(fset *token.FileSet, stack []ast.Node) string {
	var gs []string
	for _, n := range stack {
		switch x := n.(type) {
		case *ast.IfStmt:
			if x.Init == nil {
				gs = append(gs, "if "+c04Print(fset, x.Cond))
			}
		case *ast.CaseClause:
			var ts []string
			for _, t := range x.List {
				ts = append(ts, c04Print(fset, t))
			}
			if len(ts) > 0 {
				gs = append(gs, "case "+strings.Join(ts, ","))
			}
		}
	}
	return strings.Join(gs, " ; ")
}

func c04Conversions(fset *token.FileSet, fname string, fd *ast.FuncDecl, call *ast.CallExpr, sites *[]c04Site, fmtlitOnly bool, stack []ast.Node) {
	name := c04Print(fset, call.Fun)
	line := fset.Position(call.Pos()).Line
	add := func(kind, expr, aux string) {
		*sites = append(*sites, c04Site{kind, fname, line, fd.Name.Name, expr, aux})
	}
	switch name {
	case "pgsql.FormattingLiteral", "FormattingLiteral":
		if len(call.Args) == 1 {
			cls := c04Class(call.Args[0])
			if cls != 0 {
				add("fmtlit", c04Print(fset, call.Args[0]), fmt.Sprint(cls))
			}
		}
		return
	}
	if fmtlitOnly {
		return
	}
	switch name {
	case "pgsql.Identifier":
		if len(call.Args) == 1 && !c04ConstArg(call.Args[0]) {
			add("ident", c04Print(fset, call.Args[0]), "")
		}
	case "pgsql.NewLiteral":
		if len(call.Args) == 2 && !c04ConstArg(call.Args[0]) {
			add("literal", c04Print(fset, call.Args[0]), c04Print(fset, call.Args[1]))
		}
	case "pgsql.AsLiteral":
		if len(call.Args) == 1 && !c04ConstArg(call.Args[0]) {
			add("literal", c04Print(fset, call.Args[0]), "AsLiteral")
		}
	case "rewriteStringWildCardLiteral":
		if len(call.Args) == 1 {
			add("like", c04Print(fset, call.Args[0]), "rewriteStringWildCardLiteral ; "+c04Guards(fset, stack))
		}
	case "pgsql.NewRecordShape":
		if len(call.Args) == 1 {
			if cl, ok := call.Args[0].(*ast.CompositeLit); ok {
				var es []string
				for _, el := range cl.Elts {
					es = append(es, c04Print(fset, el))
				}
				add("shape", strings.Join(es, ","), "")
			} else {
				add("shape", c04Print(fset, call.Args[0]), "expr")
			}
		}
	case "format.Statement", "format.Expression", "format.SyntaxNode":
		aux := "plain"
		if len(call.Args) >= 2 && strings.Contains(c04Print(fset, call.Args[1]), "WithMaterializedParameters") {
			aux = "materialized"
		}
		if len(call.Args) >= 1 {
			add("nested", c04Print(fset, call.Args[0]), aux)
		}
	default:
		if sel, ok := call.Fun.(*ast.SelectorExpr); ok && sel.Sel.Name == "SetAlias" && len(call.Args) == 1 {
			add("alias", c04Print(fset, call.Args[0]), "")
		}
	}
}
