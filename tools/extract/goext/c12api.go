package main

import (
	"fmt"
	"go/ast"
	"go/token"
	"path/filepath"
	"reflect"
	"sort"
	"strings"
)

// c12api: the write surface of the tracked entities in package graph.
//
//	methods      every method of Properties / Node / Relationship: exported?, the tracked fields it writes through its
//	             receiver (assignment, index assignment, delete(), ++/--), and `mutates` = writes something or calls
//	             (on the receiver or on a field of it) a method that mutates (fixpoint by method name)
//	constructors every function of the package that builds a Properties / Node / Relationship composite literal, with
//	             the fields the literal sets
//	factories    every package-level function whose result type is one of the three
//	jsonFields   the json struct tags of Properties, Node and serializableNode
//
// Purely syntactic (go/ast).
func init() { modes["c12api"] = c12ApiFacts }

var c12Tracked = map[string]bool{"Properties": true, "Node": true, "Relationship": true}

// selChain returns the selector chain of an lvalue-ish expression: s.Properties.Map[k] -> [s Properties Map].
func selChain(e ast.Expr) []string {
	switch x := e.(type) {
	case *ast.Ident:
		return []string{x.Name}
	case *ast.SelectorExpr:
		if c := selChain(x.X); c != nil {
			return append(c, x.Sel.Name)
		}
	case *ast.IndexExpr:
		return selChain(x.X)
	case *ast.StarExpr:
		return selChain(x.X)
	case *ast.ParenExpr:
		return selChain(x.X)
	case *ast.SliceExpr:
		return selChain(x.X)
	}
	return nil
}

func c12ApiFacts(repo string, w *strings.Builder) error {
	_, files, err := parseDir(filepath.Join(repo, "graph"))
	if err != nil {
		return err
	}
	type method struct {
		name     string
		exported bool
		writes   map[string]bool
		calls    map[string]bool
		mutates  bool
	}
	var methods []*method
	type ctor struct {
		fn, typ string
		fields  []string
	}
	var ctors []ctor
	var factories []string
	var cacheCalls []string
	minters := map[string]bool{}
	stringsToKindsUsesFactory := false
	type jf struct{ st, field, tag string }
	var jfs []jf
	for _, f := range files {
		for _, d := range f.Decls {
			switch x := d.(type) {
			case *ast.GenDecl:
				if x.Tok != token.TYPE {
					continue
				}
				for _, sp := range x.Specs {
					ts := sp.(*ast.TypeSpec)
					st, ok := ts.Type.(*ast.StructType)
					if !ok || !(c12Tracked[ts.Name.Name] || ts.Name.Name == "serializableNode") {
						continue
					}
					for _, fl := range st.Fields.List {
						tag := ""
						if fl.Tag != nil {
							tag = reflect.StructTag(strings.Trim(fl.Tag.Value, "`")).Get("json")
						}
						for _, n := range fl.Names {
							jfs = append(jfs, jf{ts.Name.Name, n.Name, tag})
						}
					}
				}
			case *ast.FuncDecl:
				if x.Body == nil {
					continue
				}
				// kind interning: which sync.Map methods StringKind calls on kindCache, who mints stringKind values
				ast.Inspect(x.Body, func(n ast.Node) bool {
					c, ok := n.(*ast.CallExpr)
					if !ok {
						return true
					}
					if sel, ok := c.Fun.(*ast.SelectorExpr); ok {
						if id, ok := sel.X.(*ast.Ident); ok && id.Name == "kindCache" && x.Name.Name == "StringKind" && x.Recv == nil {
							cacheCalls = append(cacheCalls, sel.Sel.Name)
						}
					}
					if id, ok := c.Fun.(*ast.Ident); ok {
						if id.Name == "stringKind" {
							minters[x.Name.Name] = true
						}
						if id.Name == "StringKind" && x.Name.Name == "StringsToKinds" {
							stringsToKindsUsesFactory = true
						}
					}
					return true
				})
				fname := x.Name.Name
				if r := recvType(x); r != "" {
					fname = r + "." + fname
				}
				// constructors: composite literals of the tracked types
				ast.Inspect(x.Body, func(n ast.Node) bool {
					cl, ok := n.(*ast.CompositeLit)
					if !ok {
						return true
					}
					id, ok := cl.Type.(*ast.Ident)
					if !ok || !(c12Tracked[id.Name] || id.Name == "serializableNode") {
						return true
					}
					var fields []string
					for _, el := range cl.Elts {
						if kv, ok := el.(*ast.KeyValueExpr); ok {
							if k, ok := kv.Key.(*ast.Ident); ok {
								fields = append(fields, k.Name)
							}
						}
					}
					sort.Strings(fields)
					ctors = append(ctors, ctor{fname, id.Name, fields})
					return true
				})
				// factories: package-level functions returning a tracked entity
				if x.Recv == nil && x.Type.Results != nil {
					for _, res := range x.Type.Results.List {
						t := res.Type
						if st, ok := t.(*ast.StarExpr); ok {
							t = st.X
						}
						if id, ok := t.(*ast.Ident); ok && c12Tracked[id.Name] {
							factories = append(factories, x.Name.Name)
						}
					}
				}
				rt := recvType(x)
				if !c12Tracked[rt] || len(x.Recv.List[0].Names) == 0 {
					continue
				}
				recv := x.Recv.List[0].Names[0].Name
				m := &method{name: rt + "." + x.Name.Name, exported: x.Name.IsExported(), writes: map[string]bool{}, calls: map[string]bool{}}
				noteWrite := func(e ast.Expr) {
					if c := selChain(e); len(c) >= 2 && c[0] == recv {
						m.writes[strings.Join(c[1:], ".")] = true
					}
				}
				ast.Inspect(x.Body, func(n ast.Node) bool {
					switch y := n.(type) {
					case *ast.AssignStmt:
						if y.Tok != token.DEFINE {
							for _, l := range y.Lhs {
								noteWrite(l)
							}
						}
					case *ast.IncDecStmt:
						noteWrite(y.X)
					case *ast.CallExpr:
						if id, ok := y.Fun.(*ast.Ident); ok && (id.Name == "delete" || id.Name == "clear") && len(y.Args) > 0 {
							noteWrite(y.Args[0])
						}
						if sel, ok := y.Fun.(*ast.SelectorExpr); ok {
							if c := selChain(sel.X); len(c) >= 1 && c[0] == recv {
								m.calls[sel.Sel.Name] = true
							}
						}
					}
					return true
				})
				methods = append(methods, m)
			}
		}
	}
	// fixpoint: a method mutates if it writes, or calls (through its receiver) a method name that mutates
	mutNames := map[string]bool{}
	for changed := true; changed; {
		changed = false
		for _, m := range methods {
			if m.mutates {
				continue
			}
			mut := len(m.writes) > 0
			for c := range m.calls {
				if mutNames[c] {
					mut = true
				}
			}
			if mut {
				m.mutates = true
				mutNames[m.name[strings.Index(m.name, ".")+1:]] = true
				changed = true
			}
		}
	}
	sort.Slice(methods, func(i, j int) bool { return methods[i].name < methods[j].name })
	sort.Slice(ctors, func(i, j int) bool {
		if ctors[i].fn != ctors[j].fn {
			return ctors[i].fn < ctors[j].fn
		}
		return ctors[i].typ < ctors[j].typ
	})
	fmt.Fprintln(w, "/- GENERATED by tools/extract/goext (mode c12api) from graph/*.go — do not edit. -/")
	fmt.Fprintln(w, "namespace Dawgs.Generated.C12Api")
	fmt.Fprintln(w, "/-- (Type.Method, exported, tracked fields written through the receiver, mutates) -/")
	fmt.Fprintln(w, "def methods : List (String × Bool × List String × Bool) := [")
	for i, m := range methods {
		sep := ","
		if i == len(methods)-1 {
			sep = ""
		}
		fmt.Fprintf(w, "  (%s, %v, %s, %v)%s\n", leanStr(m.name), m.exported, leanStrList(sortedKeys(m.writes)), m.mutates, sep)
	}
	fmt.Fprintln(w, "]")
	fmt.Fprintln(w, "/-- (function, type of the composite literal it builds, fields the literal sets) -/")
	fmt.Fprintln(w, "def constructors : List (String × String × List String) := [")
	for i, c := range ctors {
		sep := ","
		if i == len(ctors)-1 {
			sep = ""
		}
		fmt.Fprintf(w, "  (%s, %s, %s)%s\n", leanStr(c.fn), leanStr(c.typ), leanStrList(c.fields), sep)
	}
	fmt.Fprintln(w, "]")
	sort.Strings(factories)
	fmt.Fprintln(w, "/-- package-level functions returning a Properties / Node / Relationship -/")
	fmt.Fprintf(w, "def factories : List String := %s\n", leanStrList(factories))
	fmt.Fprintln(w, "/-- the sync.Map methods graph.StringKind calls on kindCache, in source order -/")
	fmt.Fprintf(w, "def stringKindCacheCalls : List String := %s\n", leanStrList(cacheCalls))
	fmt.Fprintln(w, "/-- the functions of package graph that convert a string to the unexported stringKind type (mint a handle) -/")
	fmt.Fprintf(w, "def stringKindMinters : List String := %s\n", leanStrList(sortedKeys(minters)))
	fmt.Fprintf(w, "def stringsToKindsUsesFactory : Bool := %v\n", stringsToKindsUsesFactory)
	fmt.Fprintln(w, "/-- (struct, field, json tag) -/")
	fmt.Fprintln(w, "def jsonFields : List (String × String × String) := [")
	for i, j := range jfs {
		sep := ","
		if i == len(jfs)-1 {
			sep = ""
		}
		fmt.Fprintf(w, "  (%s, %s, %s)%s\n", leanStr(j.st), leanStr(j.field), leanStr(j.tag), sep)
	}
	fmt.Fprintln(w, "]")
	fmt.Fprintln(w, "end Dawgs.Generated.C12Api")
	return nil
}
