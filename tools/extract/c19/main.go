// Command c19extract regenerates lean/Dawgs/Generated/C19_identity.lean from the CURRENT source of
// /repo/retriever (purely syntactic: go/parser + go/ast).
//
//	c19extract <repo root> <output .lean file>
//
// Facts (side conditions of theorems in Props/C19Identity.lean, closed by `decide`):
//   - every field of DumpOptions, and for each where it enters newDumpCheckpointIdentity: directly (an identity
//     field is assigned `options.F`), through the scrub configuration digest (it is an argument of newScrubber
//     that becomes scrubber.config, which is json-marshalled and hashed), through the dedicated salt digest,
//     or not at all;
//   - every field of dumpCheckpointIdentity and the source expression it is assigned from; the function's
//     non-option parameters (driver name, targets) and the identity fields they feed;
//   - every leaf field of ScrubberConfig, whether json.Marshal skips it, and which fields are blanked before
//     the configuration digest is taken;
//   - the ORDER fact: the salt digest is taken from a value read from the configuration BEFORE `config.Salt` is
//     blanked (a local saved earlier, or the field itself read earlier) — never from the blanked field;
//   - resume compares the whole identity (reflect.DeepEqual of the two identity values) and computes the
//     expected identity from the options of the resuming call.
package main

import (
	"fmt"
	"go/ast"
	"go/parser"
	"go/token"
	"os"
	"path/filepath"
	"reflect"
	"sort"
	"strings"
)

func exprString(e ast.Expr) string {
	switch x := e.(type) {
	case *ast.Ident:
		return x.Name
	case *ast.SelectorExpr:
		return exprString(x.X) + "." + x.Sel.Name
	case *ast.BasicLit:
		return x.Value
	case *ast.CallExpr:
		args := make([]string, len(x.Args))
		for i, a := range x.Args {
			args[i] = exprString(a)
		}
		return exprString(x.Fun) + "(" + strings.Join(args, ",") + ")"
	case *ast.ArrayType:
		return "[]" + exprString(x.Elt)
	case *ast.IndexExpr:
		return exprString(x.X) + "[" + exprString(x.Index) + "]"
	case *ast.StarExpr:
		return "*" + exprString(x.X)
	case *ast.UnaryExpr:
		return x.Op.String() + exprString(x.X)
	case *ast.ParenExpr:
		return exprString(x.X)
	}
	return "?"
}

// exprString2 renders binary expressions as well (operands, operator, parentheses dropped).
func exprString2(e ast.Expr) string {
	switch x := e.(type) {
	case *ast.BinaryExpr:
		return exprString2(x.X) + " " + x.Op.String() + " " + exprString2(x.Y)
	case *ast.ParenExpr:
		return "(" + exprString2(x.X) + ")"
	case *ast.UnaryExpr:
		return x.Op.String() + exprString2(x.X)
	}
	return exprString(e)
}

func leanStr(s string) string { return fmt.Sprintf("%q", s) }

func leanList(xs []string) string {
	q := make([]string, len(xs))
	for i, x := range xs {
		q[i] = leanStr(x)
	}
	return "[" + strings.Join(q, ", ") + "]"
}

func leanPairs(xs [][2]string) string {
	q := make([]string, len(xs))
	for i, x := range xs {
		q[i] = "(" + leanStr(x[0]) + ", " + leanStr(x[1]) + ")"
	}
	return "[" + strings.Join(q, ", ") + "]"
}

func leanBool(b bool) string {
	if b {
		return "true"
	}
	return "false"
}

type pkg struct {
	funcs   map[string]*ast.FuncDecl
	structs map[string]*ast.StructType
}

func (p *pkg) fields(name string) []*ast.Field {
	if s, ok := p.structs[name]; ok {
		return s.Fields.List
	}
	return nil
}

// leafFields lists the leaf field paths of a struct type, following named struct types of the package and slices
// of them; skipped = leaves (or whole sub-structs) carrying a `json:"-"` tag.
func (p *pkg) leafFields(name, prefix string, leaves, skipped *[]string) {
	for _, f := range p.fields(name) {
		tag := ""
		if f.Tag != nil {
			tag = reflect.StructTag(strings.Trim(f.Tag.Value, "`")).Get("json")
		}
		for _, n := range f.Names {
			path := prefix + n.Name
			if strings.HasPrefix(tag, "-") && tag != "-," {
				*skipped = append(*skipped, path)
			}
			typ := f.Type
			if at, ok := typ.(*ast.ArrayType); ok {
				typ = at.Elt
			}
			if id, ok := typ.(*ast.Ident); ok {
				if _, isStruct := p.structs[id.Name]; isStruct {
					p.leafFields(id.Name, path+".", leaves, skipped)
					continue
				}
			}
			*leaves = append(*leaves, path)
		}
	}
}

// flatten returns every statement of a block in source order, descending into if/for/range bodies.
func flatten(b *ast.BlockStmt, out *[]ast.Stmt) {
	if b == nil {
		return
	}
	for _, s := range b.List {
		*out = append(*out, s)
		switch x := s.(type) {
		case *ast.IfStmt:
			flatten(x.Body, out)
			if eb, ok := x.Else.(*ast.BlockStmt); ok {
				flatten(eb, out)
			}
		case *ast.ForStmt:
			flatten(x.Body, out)
		case *ast.RangeStmt:
			flatten(x.Body, out)
		case *ast.BlockStmt:
			flatten(x, out)
		}
	}
}

func mentions(e ast.Node, what string) bool {
	hit := false
	ast.Inspect(e, func(n ast.Node) bool {
		if x, ok := n.(ast.Expr); ok && exprString(x) == what {
			hit = true
		}
		return !hit
	})
	return hit
}

var planKeyDecls []*ast.FuncDecl

func fail(msg string) {
	fmt.Fprintln(os.Stderr, "c19extract:", msg)
	os.Exit(1)
}

func main() {
	if len(os.Args) != 3 {
		fmt.Fprintln(os.Stderr, "usage: c19extract <repo root> <out.lean>")
		os.Exit(2)
	}
	dir := filepath.Join(os.Args[1], "retriever")
	fset := token.NewFileSet()
	entries, err := os.ReadDir(dir)
	if err != nil {
		fail(err.Error())
	}
	p := &pkg{funcs: map[string]*ast.FuncDecl{}, structs: map[string]*ast.StructType{}}
	for _, e := range entries {
		if e.IsDir() || !strings.HasSuffix(e.Name(), ".go") || strings.HasSuffix(e.Name(), "_test.go") {
			continue
		}
		f, err := parser.ParseFile(fset, filepath.Join(dir, e.Name()), nil, parser.SkipObjectResolution)
		if err != nil {
			fail(err.Error())
		}
		for _, d := range f.Decls {
			switch x := d.(type) {
			case *ast.FuncDecl:
				if x.Recv == nil {
					p.funcs[x.Name.Name] = x
				} else if x.Name.Name == "planKey" {
					planKeyDecls = append(planKeyDecls, x)
				}
			case *ast.GenDecl:
				for _, sp := range x.Specs {
					if ts, ok := sp.(*ast.TypeSpec); ok {
						if st, ok := ts.Type.(*ast.StructType); ok {
							p.structs[ts.Name.Name] = st
						}
					}
				}
			}
		}
	}

	// ---- option fields and identity fields
	var optionFields, identityFields []string
	for _, f := range p.fields("DumpOptions") {
		for _, n := range f.Names {
			optionFields = append(optionFields, n.Name)
		}
	}
	for _, f := range p.fields("dumpCheckpointIdentity") {
		for _, n := range f.Names {
			identityFields = append(identityFields, n.Name)
		}
	}
	if len(optionFields) == 0 || len(identityFields) == 0 {
		fail("DumpOptions or dumpCheckpointIdentity not found")
	}

	// ---- newDumpCheckpointIdentity: parameters and assignments
	fn := p.funcs["newDumpCheckpointIdentity"]
	if fn == nil || fn.Body == nil {
		fail("newDumpCheckpointIdentity not found")
	}
	var params []string
	paramType := map[string]string{}
	for _, f := range fn.Type.Params.List {
		for _, n := range f.Names {
			params = append(params, n.Name)
			paramType[n.Name] = exprString(f.Type)
		}
	}
	optionsParam, scrubberParam := "", ""
	for _, n := range params {
		switch strings.TrimPrefix(paramType[n], "*") {
		case "DumpOptions":
			optionsParam = n
		case "scrubber":
			scrubberParam = n
		}
	}
	var stmts []ast.Stmt
	flatten(fn.Body, &stmts)
	identityVar := ""
	source := map[string]string{} // identity field -> source expression text
	record := func(field string, e ast.Expr) { source[field] = exprString(e) }
	local := map[string]struct { // local variable -> defining expression and statement index
		expr ast.Expr
		idx  int
	}{}
	blankIdx, marshalIdx := -1, -1
	marshalArg := ""
	saltDigestIdx := -1
	var saltDigestArg ast.Expr
	var configDigestArg ast.Expr
	for i, s := range stmts {
		switch x := s.(type) {
		case *ast.AssignStmt:
			for k, lhs := range x.Lhs {
				if k >= len(x.Rhs) && len(x.Rhs) != 1 {
					continue
				}
				rhs := x.Rhs[0]
				if k < len(x.Rhs) {
					rhs = x.Rhs[k]
				}
				// identity := dumpCheckpointIdentity{...}
				if cl, ok := rhs.(*ast.CompositeLit); ok && exprString(cl.Type) == "dumpCheckpointIdentity" {
					identityVar = exprString(lhs)
					for _, el := range cl.Elts {
						if kv, ok := el.(*ast.KeyValueExpr); ok {
							record(exprString(kv.Key), kv.Value)
						}
					}
					continue
				}
				l := exprString(lhs)
				if id, ok := lhs.(*ast.Ident); ok && x.Tok == token.DEFINE && k < len(x.Rhs) {
					local[id.Name] = struct {
						expr ast.Expr
						idx  int
					}{rhs, i}
				}
				if id, ok := lhs.(*ast.Ident); ok && x.Tok == token.DEFINE && len(x.Rhs) == 1 && k == 0 {
					if call, ok := rhs.(*ast.CallExpr); ok && exprString(call.Fun) == "json.Marshal" && len(call.Args) == 1 {
						marshalIdx, marshalArg = i, exprString(call.Args[0])
						local[id.Name] = struct {
							expr ast.Expr
							idx  int
						}{rhs, i}
					}
				}
				if identityVar != "" && strings.HasPrefix(l, identityVar+".") {
					field := strings.TrimPrefix(l, identityVar+".")
					if ix, ok := lhs.(*ast.IndexExpr); ok { // identity.Graphs[index] = target.Name
						field = strings.TrimPrefix(exprString(ix.X), identityVar+".")
						record(field, rhs)
						source[field] = "each:" + exprString(rhs)
						continue
					}
					record(field, rhs)
					if call, ok := rhs.(*ast.CallExpr); ok && exprString(call.Fun) == "sha256Hex" && len(call.Args) == 1 {
						if strings.Contains(strings.ToLower(field), "salt") {
							saltDigestIdx, saltDigestArg = i, call.Args[0]
						} else {
							configDigestArg = call.Args[0]
						}
					}
				}
				// config.Salt = ""
				if sel, ok := lhs.(*ast.SelectorExpr); ok && sel.Sel.Name == "Salt" && x.Tok == token.ASSIGN {
					if lit, ok := rhs.(*ast.BasicLit); ok && lit.Value == `""` {
						blankIdx = i
					}
				}
			}
		}
	}
	// range over targets assigning into identity.Graphs
	rangeOver := map[string]string{} // loop variable -> ranged expression
	ast.Inspect(fn.Body, func(n ast.Node) bool {
		if r, ok := n.(*ast.RangeStmt); ok && r.Value != nil {
			rangeOver[exprString(r.Value)] = exprString(r.X)
		}
		return true
	})

	// classify the source of every identity field
	var identitySources [][2]string
	directOption := map[string]string{} // option field -> identity field
	paramFeeds := map[string]string{}   // non-option parameter -> identity field
	for _, f := range identityFields {
		src, ok := source[f]
		if !ok {
			identitySources = append(identitySources, [2]string{f, "unassigned"})
			continue
		}
		kind := "expr:" + src
		switch {
		case optionsParam != "" && strings.HasPrefix(src, optionsParam+"."):
			opt := strings.TrimPrefix(src, optionsParam+".")
			kind = "option:" + opt
			directOption[opt] = f
		case strings.HasPrefix(src, "each:"):
			e := strings.TrimPrefix(src, "each:")
			loopVar := strings.SplitN(e, ".", 2)[0]
			if over, ok := rangeOver[loopVar]; ok {
				kind = "param-each:" + over
				paramFeeds[over] = f
			}
		case paramType[src] != "":
			kind = "param:" + src
			paramFeeds[src] = f
		case strings.HasPrefix(src, "sha256Hex("):
			kind = "digest"
		case strings.HasPrefix(src, "make("):
			kind = "make"
		default:
			if _, isLocal := local[src]; !isLocal && ast.IsExported(src) == false && !strings.Contains(src, ".") && !strings.Contains(src, "(") {
				kind = "const:" + src
			}
		}
		identitySources = append(identitySources, [2]string{f, kind})
	}
	// identity.Graphs is first `make(...)`d in the literal and then filled in the loop: keep the loop source
	for i, s := range identitySources {
		if s[1] == "make" {
			identitySources[i][1] = "unassigned"
		}
	}

	// ---- where the two digests come from
	configVar := marshalArg // json.Marshal(config)
	configDigestFrom := "none"
	if configDigestArg != nil {
		if l, ok := local[exprString(configDigestArg)]; ok {
			if call, ok := l.expr.(*ast.CallExpr); ok && exprString(call.Fun) == "json.Marshal" {
				if def, ok := local[exprString(call.Args[0])]; ok && scrubberParam != "" && exprString(def.expr) == scrubberParam+".config" {
					configDigestFrom = "scrubber-config"
				}
			}
		}
	}
	saltDigestFrom := "none"
	if saltDigestArg != nil {
		inner := saltDigestArg
		if call, ok := inner.(*ast.CallExpr); ok && len(call.Args) == 1 { // []byte(x)
			inner = call.Args[0]
		}
		s := exprString(inner)
		switch {
		case scrubberParam != "" && s == scrubberParam+".config.Salt":
			saltDigestFrom = "scrubber-config" // the scrubber's own copy is never blanked
		case configVar != "" && s == configVar+".Salt":
			if blankIdx >= 0 && saltDigestIdx > blankIdx {
				saltDigestFrom = "config-after-blank"
			} else {
				saltDigestFrom = "config-before-blank"
			}
		default:
			if def, ok := local[s]; ok {
				d := exprString(def.expr)
				switch {
				case d == configVar+".Salt" || (scrubberParam != "" && d == scrubberParam+".config.Salt"):
					if d == configVar+".Salt" && blankIdx >= 0 && def.idx > blankIdx {
						saltDigestFrom = "saved-after-blank"
					} else {
						saltDigestFrom = "saved-before-blank"
					}
				default:
					saltDigestFrom = "other:" + d
				}
			} else {
				saltDigestFrom = "other:" + s
			}
		}
	}
	var blankedBeforeConfigDigest []string
	if blankIdx >= 0 && marshalIdx > blankIdx {
		blankedBeforeConfigDigest = append(blankedBeforeConfigDigest, "Salt")
	}

	// ---- how options reach the scrubber: Dump calls newScrubber(options.X, options.Y); newScrubber fills config
	var scrubberArgs [][2]string // newScrubber parameter name -> option field
	dump := p.funcs["Dump"]
	newScrubber := p.funcs["newScrubber"]
	identityFromCurrentOptions, resumeUsesThatIdentity := false, false
	if dump != nil && newScrubber != nil {
		var nsParams []string
		for _, f := range newScrubber.Type.Params.List {
			for _, n := range f.Names {
				nsParams = append(nsParams, n.Name)
			}
		}
		identityLocal := ""
		ast.Inspect(dump.Body, func(n ast.Node) bool {
			switch x := n.(type) {
			case *ast.CallExpr:
				switch exprString(x.Fun) {
				case "newScrubber":
					for i, a := range x.Args {
						if i < len(nsParams) && strings.HasPrefix(exprString(a), "options.") {
							scrubberArgs = append(scrubberArgs, [2]string{nsParams[i], strings.TrimPrefix(exprString(a), "options.")})
						}
					}
				case "loadCompatibleDumpCheckpoint":
					for _, a := range x.Args {
						if identityLocal != "" && exprString(a) == identityLocal {
							resumeUsesThatIdentity = true
						}
					}
				}
			case *ast.AssignStmt:
				if len(x.Rhs) == 1 {
					if call, ok := x.Rhs[0].(*ast.CallExpr); ok && exprString(call.Fun) == "newDumpCheckpointIdentity" {
						identityLocal = exprString(x.Lhs[0])
						for _, a := range call.Args {
							if exprString(a) == "options" {
								identityFromCurrentOptions = true
							}
						}
					}
				}
			}
			return true
		})
	}
	// inside newScrubber: cfg.Salt = f(salt param); cfg decoded from the reader param
	saltParamIntoConfig, readerIntoConfig := "", ""
	if newScrubber != nil {
		var ns []ast.Stmt
		flatten(newScrubber.Body, &ns)
		cfgVar := ""
		for _, s := range ns {
			as, ok := s.(*ast.AssignStmt)
			if !ok {
				continue
			}
			for k, lhs := range as.Lhs {
				if k >= len(as.Rhs) {
					continue
				}
				l := exprString(lhs)
				if strings.HasSuffix(l, ".Salt") {
					cfgVar = strings.TrimSuffix(l, ".Salt")
					for _, f := range newScrubber.Type.Params.List {
						for _, n := range f.Names {
							if mentions(as.Rhs[k], n.Name) {
								saltParamIntoConfig = n.Name
							}
						}
					}
				}
			}
		}
		if cfgVar != "" {
			ast.Inspect(newScrubber.Body, func(n ast.Node) bool {
				if call, ok := n.(*ast.CallExpr); ok && exprString(call.Fun) == "ReadScrubberConfig" && len(call.Args) >= 1 {
					readerIntoConfig = exprString(call.Args[0])
				}
				return true
			})
		}
	}

	// ---- binding of every option field
	var optionBinding [][2]string
	for _, f := range optionFields {
		b := "unbound"
		if idf, ok := directOption[f]; ok {
			b = "direct:" + idf
		}
		for _, a := range scrubberArgs {
			if a[1] != f {
				continue
			}
			switch {
			case a[0] == saltParamIntoConfig && saltDigestFrom != "none":
				b = "saltDigest"
			case a[0] == readerIntoConfig && configDigestFrom == "scrubber-config":
				b = "configDigest"
			}
		}
		optionBinding = append(optionBinding, [2]string{f, b})
	}
	var paramBinding [][2]string
	for _, n := range params {
		if n == optionsParam || n == scrubberParam {
			continue
		}
		b := "unbound"
		if idf, ok := paramFeeds[n]; ok {
			b = "direct:" + idf
		}
		paramBinding = append(paramBinding, [2]string{n, b})
	}

	// ---- scrubber configuration leaves
	var leaves, skipped []string
	p.leafFields("ScrubberConfig", "", &leaves, &skipped)
	sort.Strings(skipped)

	// ---- the comparison in loadCompatibleDumpCheckpoint
	comparesWhole := false
	if lc := p.funcs["loadCompatibleDumpCheckpoint"]; lc != nil {
		ast.Inspect(lc.Body, func(n ast.Node) bool {
			if call, ok := n.(*ast.CallExpr); ok && exprString(call.Fun) == "reflect.DeepEqual" && len(call.Args) == 2 {
				a, b := exprString(call.Args[0]), exprString(call.Args[1])
				if strings.HasSuffix(a, ".Identity") && !strings.Contains(b, ".") || strings.HasSuffix(b, ".Identity") && !strings.Contains(a, ".") {
					comparesWhole = true
				}
			}
			return true
		})
	}

	// ---- the source-count guards of resume
	// validateCompletedDumpSources: `if snapshot.NodeCount != graphEntry.NodeCount || snapshot.EdgeCount != graphEntry.EdgeCount { return error }`
	completedGuard := "not-found"
	if vf := p.funcs["validateCompletedDumpSources"]; vf != nil {
		ast.Inspect(vf.Body, func(n ast.Node) bool {
			ifs, ok := n.(*ast.IfStmt)
			if !ok || ifs.Init != nil {
				return true
			}
			if !strings.Contains(exprString2(ifs.Cond), "NodeCount") {
				return true
			}
			returnsErr := false
			for _, st := range ifs.Body.List {
				if r, ok := st.(*ast.ReturnStmt); ok && len(r.Results) == 1 && exprString(r.Results[0]) != "nil" {
					returnsErr = true
				}
			}
			if returnsErr {
				completedGuard = exprString2(ifs.Cond)
			}
			return true
		})
	}
	// loop shape: the guard must be reached for EVERY completed graph — the loop ranges over the whole parameter and no
	// statement before the guard leaves the iteration successfully (continue / break / return nil)
	completedRangeOver := "not-found"
	var completedEarlyExits []string
	if vf := p.funcs["validateCompletedDumpSources"]; vf != nil {
		param := ""
		for _, f := range vf.Type.Params.List {
			if strings.HasPrefix(exprString(f.Type), "[]") && len(f.Names) == 1 {
				param = f.Names[0].Name
			}
		}
		for _, st := range vf.Body.List {
			rs, ok := st.(*ast.RangeStmt)
			if !ok {
				// anything but the loop and the final return is reported
				if r, isRet := st.(*ast.ReturnStmt); !(isRet && len(r.Results) == 1 && exprString(r.Results[0]) == "nil") {
					completedEarlyExits = append(completedEarlyExits, "top-level:"+fmt.Sprintf("%T", st))
				}
				continue
			}
			completedRangeOver = exprString(rs.X)
			if completedRangeOver == param {
				completedRangeOver = "param:" + param
			}
			for _, bs := range rs.Body.List {
				if ifs, ok := bs.(*ast.IfStmt); ok && exprString2(ifs.Cond) == completedGuard {
					break // reached the guard
				}
				leaves := false
				ast.Inspect(bs, func(n ast.Node) bool {
					switch x := n.(type) {
					case *ast.BranchStmt:
						if x.Tok == token.CONTINUE || x.Tok == token.BREAK || x.Tok == token.GOTO {
							leaves = true
						}
					case *ast.ReturnStmt:
						if len(x.Results) == 1 && exprString(x.Results[0]) == "nil" {
							leaves = true
						}
					}
					return true
				})
				if leaves {
					cond := fmt.Sprintf("%T", bs)
					if ifs, ok := bs.(*ast.IfStmt); ok {
						cond = exprString2(ifs.Cond)
					}
					completedEarlyExits = append(completedEarlyExits, cond)
				}
			}
		}
	}
	// dumpGraph: `if checkpoint.HasSnapshot { if checkpoint.Snapshot != currentSnapshot { return error } }` (struct comparison: both counts)
	currentGuard := "not-found"
	if dg := p.funcs["dumpGraph"]; dg != nil {
		ast.Inspect(dg.Body, func(n ast.Node) bool {
			ifs, ok := n.(*ast.IfStmt)
			if !ok {
				return true
			}
			c := exprString2(ifs.Cond)
			if strings.Contains(c, "Snapshot") && strings.Contains(c, "currentSnapshot") {
				for _, st := range ifs.Body.List {
					if r, ok := st.(*ast.ReturnStmt); ok && len(r.Results) > 0 && exprString(r.Results[len(r.Results)-1]) != "nil" {
						currentGuard = c
					}
				}
			}
			return true
		})
	}
	snapshotFields := []string{}
	for _, f := range p.fields("graphEntitySnapshot") {
		for _, n := range f.Names {
			snapshotFields = append(snapshotFields, n.Name)
		}
	}

	// ---- the resume-time directory walk: which entries are skipped without being checked
	var walkSkips []string
	walkFound := false
	if vf := p.funcs["validateDumpCheckpointFiles"]; vf != nil {
		ast.Inspect(vf.Body, func(n ast.Node) bool {
			call, ok := n.(*ast.CallExpr)
			if !ok || exprString(call.Fun) != "filepath.WalkDir" || len(call.Args) != 2 {
				return true
			}
			lit, ok := call.Args[1].(*ast.FuncLit)
			if !ok {
				return true
			}
			walkFound = true
			for _, st := range lit.Body.List {
				ifs, ok := st.(*ast.IfStmt)
				if !ok || len(ifs.Body.List) != 1 {
					continue
				}
				if r, ok := ifs.Body.List[0].(*ast.ReturnStmt); ok && len(r.Results) == 1 && exprString(r.Results[0]) == "nil" {
					walkSkips = append(walkSkips, exprString2(ifs.Cond))
				}
			}
			return true
		})
	}
	if !walkFound {
		walkSkips = append(walkSkips, "walk-not-found")
	}

	// ---- the scrubber's per-key plan cache: the cached plan must be a function of the cache key only
	planCacheKey, planNormalizedFrom := "not-found", "not-found"
	var planFieldsFromRaw []string
	for _, d := range planKeyDecls {
		rawParam := ""
		if len(d.Type.Params.List) == 1 && len(d.Type.Params.List[0].Names) == 1 {
			rawParam = d.Type.Params.List[0].Names[0].Name
		}
		var ps []ast.Stmt
		flatten(d.Body, &ps)
		cacheKeys := map[string]bool{}
		for _, st := range ps {
			as, ok := st.(*ast.AssignStmt)
			if !ok {
				continue
			}
			// normalized := normalizeKey(key)
			if as.Tok == token.DEFINE && len(as.Lhs) == 1 && len(as.Rhs) == 1 {
				if call, ok := as.Rhs[0].(*ast.CallExpr); ok && exprString(call.Fun) == "normalizeKey" {
					planNormalizedFrom = exprString(as.Lhs[0]) + ":=" + exprString(as.Rhs[0])
				}
			}
			// every use of the cache map: s.propertyPlans[<key>] on either side
			for _, e := range append(append([]ast.Expr{}, as.Lhs...), as.Rhs...) {
				ast.Inspect(e, func(n ast.Node) bool {
					if ix, ok := n.(*ast.IndexExpr); ok && strings.HasSuffix(exprString(ix.X), ".propertyPlans") {
						cacheKeys[exprString(ix.Index)] = true
					}
					return true
				})
			}
			// plan.<field> = <expr mentioning the raw parameter>
			for k, lhs := range as.Lhs {
				l := exprString(lhs)
				if !strings.HasPrefix(l, "plan.") {
					continue
				}
				rhs := as.Rhs[0]
				if k < len(as.Rhs) {
					rhs = as.Rhs[k]
				}
				if rawParam != "" && mentions(rhs, rawParam) {
					planFieldsFromRaw = append(planFieldsFromRaw, strings.TrimPrefix(l, "plan."))
				}
			}
		}
		keys := []string{}
		for k := range cacheKeys {
			keys = append(keys, k)
		}
		sort.Strings(keys)
		planCacheKey = strings.Join(keys, ",")
	}

	var out strings.Builder
	out.WriteString("/- GENERATED by tools/extract/c19 from retriever/*.go on every check run. Do not edit. -/\nnamespace Dawgs.Generated.C19\n\n")
	fmt.Fprintf(&out, "/-- fields of `DumpOptions` -/\ndef optionFields : List String := %s\n\n", leanList(optionFields))
	fmt.Fprintf(&out, "/-- for each `DumpOptions` field where it enters `newDumpCheckpointIdentity` -/\ndef optionBinding : List (String × String) := %s\n\n", leanPairs(optionBinding))
	fmt.Fprintf(&out, "/-- the other parameters of `newDumpCheckpointIdentity` (driver name, targets) and the identity field they feed -/\ndef paramBinding : List (String × String) := %s\n\n", leanPairs(paramBinding))
	fmt.Fprintf(&out, "/-- fields of `dumpCheckpointIdentity` -/\ndef identityFields : List String := %s\n\n", leanList(identityFields))
	fmt.Fprintf(&out, "/-- source of every identity field -/\ndef identitySources : List (String × String) := %s\n\n", leanPairs(identitySources))
	fmt.Fprintf(&out, "/-- leaf fields of `ScrubberConfig` (all of them are json-marshalled into the configuration digest unless skipped) -/\ndef scrubberConfigLeaves : List String := %s\n\n", leanList(leaves))
	fmt.Fprintf(&out, "/-- configuration fields json.Marshal skips (`json:\"-\"`) -/\ndef configDigestSkips : List String := %s\n\n", leanList(skipped))
	fmt.Fprintf(&out, "/-- configuration fields blanked before the configuration digest is taken -/\ndef blankedBeforeConfigDigest : List String := %s\n\n", leanList(blankedBeforeConfigDigest))
	fmt.Fprintf(&out, "/-- what the configuration digest hashes -/\ndef configDigestFrom : String := %s\n\n", leanStr(configDigestFrom))
	fmt.Fprintf(&out, "/-- ORDER fact: where the salt digest takes its input from, relative to the blanking of `config.Salt` -/\ndef saltDigestFrom : String := %s\n\n", leanStr(saltDigestFrom))
	fmt.Fprintf(&out, "/-- `newScrubber` parameters fed from option fields by `Dump`, and which of them reach the configuration -/\ndef scrubberArgs : List (String × String) := %s\n", leanPairs(scrubberArgs))
	fmt.Fprintf(&out, "def saltParamIntoConfig : String := %s\ndef readerIntoConfig : String := %s\n\n", leanStr(saltParamIntoConfig), leanStr(readerIntoConfig))
	fmt.Fprintf(&out, "/-- resume compares the two identity values as a whole (reflect.DeepEqual) -/\ndef comparesWholeIdentity : Bool := %s\n", leanBool(comparesWhole))
	fmt.Fprintf(&out, "/-- `Dump` computes the expected identity from the options of the current call and hands it to the resume check -/\ndef identityFromCurrentOptions : Bool := %s\ndef resumeUsesThatIdentity : Bool := %s\n", leanBool(identityFromCurrentOptions), leanBool(resumeUsesThatIdentity))
	fmt.Fprintf(&out, "\n/-- the refusal guard of `validateCompletedDumpSources` (operands, comparison operators and connective as written) -/\ndef completedSourceGuard : String := %s\n", leanStr(completedGuard))
	fmt.Fprintf(&out, "/-- loop shape of `validateCompletedDumpSources`: what the loop ranges over and the conditions under which an iteration is left before the guard (continue / break / return nil) -/\ndef completedGuardRangeOver : String := %s\ndef completedGuardEarlyExits : List String := %s\n", leanStr(completedRangeOver), leanList(completedEarlyExits))
	fmt.Fprintf(&out, "/-- the refusal guard on the in-progress graph's snapshot in `dumpGraph` (a comparison of the whole snapshot struct) and the struct's fields -/\ndef currentSourceGuard : String := %s\ndef snapshotFields : List String := %s\n", leanStr(currentGuard), leanList(snapshotFields))
	fmt.Fprintf(&out, "\n/-- conditions under which the resume-time walk of the output directory skips an entry unchecked -/\ndef walkSkips : List String := %s\n", leanList(walkSkips))
	fmt.Fprintf(&out, "\n/-- the scrubber's plan cache (`planKey`): the expression(s) indexing the cache, where the normalised key comes from, and the plan fields computed from the RAW key -/\ndef planCacheKey : String := %s\ndef planNormalizedFrom : String := %s\ndef planFieldsFromRawKey : List String := %s\n", leanStr(planCacheKey), leanStr(planNormalizedFrom), leanList(planFieldsFromRaw))
	out.WriteString("\nend Dawgs.Generated.C19\n")
	if err := os.WriteFile(os.Args[2], []byte(out.String()), 0o644); err != nil {
		fail(err.Error())
	}
}
