module c19extract

go 1.26.4
