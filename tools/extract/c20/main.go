// Command c20extract regenerates lean/Dawgs/Generated/C20_order.lean from the CURRENT source of
// /repo/retriever (purely syntactic: go/parser + go/ast, no type checking).
//
//	c20extract <repo root> <output .lean file>
//
// Facts (each one is a side condition of a theorem in Props/C20.lean, closed by `decide`):
//   - statement order of func Load: the guard `if err := verifyLoadFragments(..); err != nil { return .. }`
//     is a top-level statement and precedes every top-level statement that (transitively, inside the
//     package) reaches a database write primitive;
//   - verifyLoadFragments delegates to a function ranging over ALL graphs and ALL files and decoding both
//     phases with verifyIntegrity = true; the verified reader checks digest and byte count and returns the error;
//   - the extraction open call carries O_EXCL (and no O_TRUNC); sanitize / duplicate / typeflag allow-list
//     checks precede the extraction call inside the loop; the allow-list of typeflags;
//   - the AAD of a frame is built from header hash, frame index and frame type, by writer and reader alike;
//     the reader checks EOF after the final frame;
//   - Unpack extracts into the staging directory and promotes afterwards.
package main

import (
	"fmt"
	"go/ast"
	"go/parser"
	"go/token"
	"os"
	"path/filepath"
	"sort"
	"strings"
)

var writePrimitives = map[string]bool{
	"BatchOperation": true, "WriteTransaction": true, "CreateNodes": true, "CreateNode": true,
	"CreateRelationshipByIDs": true, "CreateRelationship": true, "UpdateNodeBy": true, "UpdateNodes": true,
	"UpdateRelationshipBy": true, "DeleteNode": true, "DeleteRelationship": true, "Run": true,
}

type pkgInfo struct {
	funcs map[string]*ast.FuncDecl
}

func calls(n ast.Node, visit func(call *ast.CallExpr, name string, selector bool)) {
	if n == nil {
		return
	}
	ast.Inspect(n, func(x ast.Node) bool {
		if c, ok := x.(*ast.CallExpr); ok {
			switch f := c.Fun.(type) {
			case *ast.Ident:
				visit(c, f.Name, false)
			case *ast.SelectorExpr:
				visit(c, f.Sel.Name, true)
			case *ast.IndexExpr: // generic instantiation f[T](..)
				if id, ok := f.X.(*ast.Ident); ok {
					visit(c, id.Name, false)
				}
			}
		}
		return true
	})
}

// writers = least set of package functions whose body reaches a database write primitive.
func (p *pkgInfo) writers() map[string]bool {
	w := map[string]bool{}
	for changed := true; changed; {
		changed = false
		for name, fn := range p.funcs {
			if w[name] || fn.Body == nil {
				continue
			}
			hit := false
			calls(fn.Body, func(_ *ast.CallExpr, callee string, selector bool) {
				if (selector && writePrimitives[callee]) || (!selector && w[callee]) {
					hit = true
				}
			})
			if hit {
				w[name], changed = true, true
			}
		}
	}
	return w
}

func reachesWrite(n ast.Node, w map[string]bool) bool {
	hit := false
	calls(n, func(_ *ast.CallExpr, callee string, selector bool) {
		if (selector && writePrimitives[callee]) || (!selector && w[callee]) {
			hit = true
		}
	})
	return hit
}

// guardCall recognises `if [x,] err := f(..); err != nil { ...; return .. }` (no else) and returns f.
func guardCall(s ast.Stmt) (string, *ast.CallExpr) {
	ifs, ok := s.(*ast.IfStmt)
	if !ok || ifs.Init == nil || ifs.Else != nil || len(ifs.Body.List) == 0 {
		return "", nil
	}
	as, ok := ifs.Init.(*ast.AssignStmt)
	if !ok || len(as.Rhs) != 1 {
		return "", nil
	}
	call, ok := as.Rhs[0].(*ast.CallExpr)
	if !ok {
		return "", nil
	}
	cond, ok := ifs.Cond.(*ast.BinaryExpr)
	if !ok || cond.Op != token.NEQ {
		return "", nil
	}
	if id, ok := cond.Y.(*ast.Ident); !ok || id.Name != "nil" {
		return "", nil
	}
	if _, ok := ifs.Body.List[len(ifs.Body.List)-1].(*ast.ReturnStmt); !ok {
		return "", nil
	}
	switch f := call.Fun.(type) {
	case *ast.Ident:
		return f.Name, call
	case *ast.SelectorExpr:
		return f.Sel.Name, call
	}
	return "", nil
}

func exprString(e ast.Expr) string {
	switch x := e.(type) {
	case *ast.Ident:
		return x.Name
	case *ast.SelectorExpr:
		return exprString(x.X) + "." + x.Sel.Name
	case *ast.SliceExpr:
		return exprString(x.X)
	case *ast.BasicLit:
		return x.Value
	case *ast.CallExpr:
		return exprString(x.Fun) + "()"
	case *ast.UnaryExpr:
		return x.Op.String() + exprString(x.X)
	case *ast.IndexExpr:
		return exprString(x.X) + "[]"
	case *ast.StarExpr:
		return "*" + exprString(x.X)
	}
	return "?"
}

func condString(e ast.Expr) string {
	switch x := e.(type) {
	case *ast.BinaryExpr:
		return condString(x.X) + " " + x.Op.String() + " " + condString(x.Y)
	case *ast.ParenExpr:
		return "(" + condString(x.X) + ")"
	}
	return exprString(e)
}

func leanList(xs []string) string {
	q := make([]string, len(xs))
	for i, x := range xs {
		q[i] = fmt.Sprintf("%q", x)
	}
	return "[" + strings.Join(q, ", ") + "]"
}

func leanBool(b bool) string {
	if b {
		return "true"
	}
	return "false"
}

func main() {
	if len(os.Args) != 3 {
		fmt.Fprintln(os.Stderr, "usage: c20extract <repo root> <out.lean>")
		os.Exit(2)
	}
	dir := filepath.Join(os.Args[1], "retriever")
	fset := token.NewFileSet()
	entries, err := os.ReadDir(dir)
	if err != nil {
		fmt.Fprintln(os.Stderr, err)
		os.Exit(1)
	}
	p := &pkgInfo{funcs: map[string]*ast.FuncDecl{}}
	for _, e := range entries {
		if e.IsDir() || !strings.HasSuffix(e.Name(), ".go") || strings.HasSuffix(e.Name(), "_test.go") {
			continue
		}
		f, err := parser.ParseFile(fset, filepath.Join(dir, e.Name()), nil, parser.SkipObjectResolution)
		if err != nil {
			fmt.Fprintln(os.Stderr, err)
			os.Exit(1)
		}
		for _, d := range f.Decls {
			if fn, ok := d.(*ast.FuncDecl); ok {
				name := fn.Name.Name
				if fn.Recv != nil && len(fn.Recv.List) == 1 {
					name = strings.TrimPrefix(exprString(fn.Recv.List[0].Type), "*") + "." + name
				}
				p.funcs[name] = fn
				if fn.Recv != nil { // method calls are matched by bare selector name as well
					if _, dup := p.funcs["."+fn.Name.Name]; !dup {
						p.funcs["."+fn.Name.Name] = fn
					}
				}
			}
		}
	}
	w := p.writers()
	var out strings.Builder
	out.WriteString("/- GENERATED by tools/extract/c20 from retriever/*.go on every check run. Do not edit. -/\nnamespace Dawgs.Generated.C20\n\n")

	// ---- 1. Load statement order
	loadKinds := []string{}
	if fn := p.funcs["Load"]; fn != nil && fn.Body != nil {
		for _, s := range fn.Body.List {
			name, _ := guardCall(s)
			switch {
			case name == "verifyLoadFragments":
				loadKinds = append(loadKinds, "verify")
			case reachesWrite(s, w):
				loadKinds = append(loadKinds, "write")
			default:
				loadKinds = append(loadKinds, "other")
			}
		}
	}
	fmt.Fprintf(&out, "/-- top-level statements of `Load`, in order: the verify-all guard, statements reaching a DB write primitive, others -/\ndef loadKinds : List String := %s\n\n", leanList(loadKinds))
	writerNames := []string{}
	for name := range w {
		if !strings.HasPrefix(name, ".") {
			writerNames = append(writerNames, name)
		}
	}
	sort.Strings(writerNames)
	fmt.Fprintf(&out, "/-- package functions that (transitively) reach a database write primitive -/\ndef writers : List String := %s\n\n", leanList(writerNames))

	// ---- 2. verification covers everything
	delegates := ""
	if fn := p.funcs["verifyLoadFragments"]; fn != nil && fn.Body != nil && len(fn.Body.List) == 1 {
		if r, ok := fn.Body.List[0].(*ast.ReturnStmt); ok && len(r.Results) == 1 {
			if c, ok := r.Results[0].(*ast.CallExpr); ok {
				delegates = exprString(c.Fun)
			}
		}
	}
	rangesGraphs, rangesFiles, nodeTrue, edgeTrue := false, false, false, false
	if fn := p.funcs[delegates]; fn != nil && fn.Body != nil {
		for _, s := range fn.Body.List {
			outer, ok := s.(*ast.RangeStmt)
			if !ok || !strings.HasSuffix(exprString(outer.X), ".Graphs") {
				continue
			}
			rangesGraphs = true
			for _, s2 := range outer.Body.List {
				inner, ok := s2.(*ast.RangeStmt)
				if !ok || !strings.HasSuffix(exprString(inner.X), ".Files") {
					continue
				}
				rangesFiles = true
				ast.Inspect(inner.Body, func(x ast.Node) bool {
					if st, ok := x.(ast.Stmt); ok {
						if name, call := guardCall(st); call != nil && len(call.Args) >= 4 && exprString(call.Args[3]) == "true" {
							if name == "decodeNodeFragmentFile" {
								nodeTrue = true
							}
							if name == "decodeEdgeFragmentFile" {
								edgeTrue = true
							}
						}
					}
					return true
				})
			}
		}
	}
	// the duplicate-id / endpoint resolver of the preflight: created inside the loop over graphs (state is a
	// function of the current graph only) or shared between graphs
	resolverScope := "missing"
	if fn := p.funcs[delegates]; fn != nil && fn.Body != nil {
		inLoop, outside := 0, 0
		for _, s := range fn.Body.List {
			outer, ok := s.(*ast.RangeStmt)
			isGraphs := ok && strings.HasSuffix(exprString(outer.X), ".Graphs")
			calls(s, func(c *ast.CallExpr, name string, selector bool) {
				if !selector && name == "newNodeIDResolver" {
					if isGraphs {
						inLoop++
					} else {
						outside++
					}
				}
			})
			if isGraphs { // must be a direct statement of the loop body, not buried in the per-file loop
				direct := 0
				for _, s2 := range outer.Body.List {
					if as, ok := s2.(*ast.AssignStmt); ok && as.Tok == token.DEFINE && len(as.Rhs) == 1 {
						if c, ok := as.Rhs[0].(*ast.CallExpr); ok && exprString(c.Fun) == "newNodeIDResolver" {
							direct++
						}
					}
				}
				if direct != inLoop {
					inLoop = -1
				}
			}
		}
		switch {
		case inLoop == 1 && outside == 0:
			resolverScope = "per-graph"
		case outside > 0:
			resolverScope = "shared"
		}
	}
	fmt.Fprintf(&out, "/-- where the preflight creates its node-id resolver -/\ndef resolverScope : String := %q\n", resolverScope)
	fmt.Fprintf(&out, "def verifyDelegate : String := %q\ndef verifyRangesGraphs : Bool := %s\ndef verifyRangesFiles : Bool := %s\ndef verifyNodeIntegrity : Bool := %s\ndef verifyEdgeIntegrity : Bool := %s\n",
		delegates, leanBool(rangesGraphs), leanBool(rangesFiles), leanBool(nodeTrue), leanBool(edgeTrue))
	checksumGuard := false
	if fn := p.funcs["readVerifiedCompressedJSONLines"]; fn != nil && fn.Body != nil {
		for _, s := range fn.Body.List {
			if name, _ := guardCall(s); name == "verifyChecksumValues" {
				checksumGuard = true
			}
		}
	}
	shaCompared, bytesCompared := false, false
	if fn := p.funcs["verifyChecksumValues"]; fn != nil && fn.Body != nil {
		ast.Inspect(fn.Body, func(x ast.Node) bool {
			if b, ok := x.(*ast.BinaryExpr); ok && b.Op == token.NEQ {
				l, r := exprString(b.X), exprString(b.Y)
				if (l == "actualSHA256" && r == "expectedSHA256") || (r == "actualSHA256" && l == "expectedSHA256") {
					shaCompared = true
				}
				if (l == "actualCompressedBytes" && r == "expectedCompressedBytes") || (r == "actualCompressedBytes" && l == "expectedCompressedBytes") {
					bytesCompared = true
				}
			}
			return true
		})
	}
	fmt.Fprintf(&out, "def checksumGuardReturns : Bool := %s\ndef checksumComparesSha : Bool := %s\ndef checksumComparesBytes : Bool := %s\n\n",
		leanBool(checksumGuard), leanBool(shaCompared), leanBool(bytesCompared))

	// ---- 2b. the comparisons of the verification code: which operator relates which two operands inside an
	// `if` whose body returns. An inequality test (`!=`) weakened to an ordering test (`<`) changes the fact.
	cmpFact := func(fnName, a, b string) string {
		fn := p.funcs[fnName]
		if fn == nil || fn.Body == nil {
			return "missing-function"
		}
		found := "missing"
		ast.Inspect(fn.Body, func(x ast.Node) bool {
			ifs, ok := x.(*ast.IfStmt)
			if !ok || len(ifs.Body.List) == 0 {
				return true
			}
			if _, ok := ifs.Body.List[len(ifs.Body.List)-1].(*ast.ReturnStmt); !ok {
				return true
			}
			ast.Inspect(ifs.Cond, func(y ast.Node) bool {
				if be, ok := y.(*ast.BinaryExpr); ok {
					l, r := exprString(be.X), exprString(be.Y)
					if (l == a && r == b) || (l == b && r == a) {
						op := be.Op.String()
						if found == "missing" {
							found = op
						} else if found != op {
							found = found + "," + op
						}
					}
				}
				return true
			})
			return true
		})
		return found
	}
	comparisons := [][4]string{
		{"verify.node.count", "decodeNodeFragmentFile", "count", "fileEntry.Count"},
		{"verify.edge.count", "decodeEdgeFragmentFile", "count", "fileEntry.Count"},
		{"verify.node.phase", "decodeNodeFragmentFile", "fileEntry.Phase", "PhaseNodes"},
		{"verify.edge.phase", "decodeEdgeFragmentFile", "fileEntry.Phase", "PhaseEdges"},
		{"verify.bytes", "verifyChecksumValues", "actualCompressedBytes", "expectedCompressedBytes"},
		{"verify.sha", "verifyChecksumValues", "actualSHA256", "expectedSHA256"},
		{"validate.graphCount", "Manifest.validate", "s.Source.GraphCount", "len()"},
		{"validate.nodeCount", "Manifest.validate", "graphEntry.NodeCount", "nodeFiles"},
		{"validate.edgeCount", "Manifest.validate", "graphEntry.EdgeCount", "edgeFiles"},
		{"validate.count.nonneg", "Manifest.validate", "fileEntry.Count", "0"},
		{"validate.sha.nonempty", "Manifest.validate", "fileEntry.SHA256", "\"\""},
		{"validate.path.nonempty", "Manifest.validate", "fileEntry.Path", "\"\""},
		{"load.node.fragmentCount", "loadGraphNodes", "fragmentCount", "fileEntry.Count"},
		{"load.graph.nodeCount", "loadManifestGraph", "nodeCount", "graphEntry.NodeCount"},
		{"load.graph.edgeCount", "loadManifestGraph", "edgeCount", "graphEntry.EdgeCount"},
	}
	out.WriteString("/-- operator found between the two operands in an error-returning `if` of the named function -/\ndef comparisons : List (String × String) := [\n")
	for i, c := range comparisons {
		sep := ","
		if i == len(comparisons)-1 {
			sep = ""
		}
		fmt.Fprintf(&out, "  (%q, %q)%s\n", c[0], cmpFact(c[1], c[2], c[3]), sep)
	}
	out.WriteString("]\n")
	// the byte-count test is guarded by `expectedCompressedBytes >= 0 &&` (validate refuses negative sizes)
	fmt.Fprintf(&out, "def bytesGuard : String := %q\n", cmpFact("verifyChecksumValues", "expectedCompressedBytes", "0"))
	fmt.Fprintf(&out, "def validateBytesNonneg : String := %q\n\n", cmpFact("Manifest.validate", "fileEntry.CompressedBytes", "0"))

	// ---- 2c. validateExtractedCollection: which loop carries the checksum guard, under which key the tracked
	// file is looked up, whether the loop can skip an entry
	extractedRange, extractedKey, extractedSkips := "missing", "missing", false
	extractedArgs := []string{}
	if fn := p.funcs["validateExtractedCollection"]; fn != nil && fn.Body != nil {
		var walk func(list []ast.Stmt, ranges []string)
		walk = func(list []ast.Stmt, ranges []string) {
			for _, st := range list {
				if rs, ok := st.(*ast.RangeStmt); ok {
					walk(rs.Body.List, append(append([]string{}, ranges...), exprString(rs.X)))
					continue
				}
				if name, call := guardCall(st); name == "verifyChecksumValues" {
					extractedRange = strings.Join(ranges, ">")
					for _, a := range call.Args {
						extractedArgs = append(extractedArgs, exprString(a))
					}
					// siblings of the guard: the lookup and any `continue`
					for _, sib := range list {
						if as, ok := sib.(*ast.AssignStmt); ok && len(as.Rhs) == 1 {
							if ix, ok := as.Rhs[0].(*ast.IndexExpr); ok && exprString(ix.X) == "files" && len(as.Lhs) >= 1 && exprString(as.Lhs[0]) == "actual" {
								extractedKey = exprString(ix.Index)
								if len(as.Lhs) > 1 {
									extractedKey += ",comma-ok"
								}
							}
						}
						ast.Inspect(sib, func(x ast.Node) bool {
							if b, ok := x.(*ast.BranchStmt); ok && (b.Tok == token.CONTINUE || b.Tok == token.BREAK || b.Tok == token.GOTO) {
								extractedSkips = true
							}
							return true
						})
					}
				}
			}
		}
		walk(fn.Body.List, nil)
	}
	fmt.Fprintf(&out, "/-- validateExtractedCollection: ranges enclosing the checksum guard, lookup key of the tracked file, skip statements, guard arguments -/\ndef extractedRange : String := %q\ndef extractedKey : String := %q\ndef extractedSkips : Bool := %s\ndef extractedArgs : List String := %s\n\n",
		extractedRange, extractedKey, leanBool(extractedSkips), leanList(extractedArgs))

	// ---- 2d. every `n, err := X.Read(..)` of the package: is `n` examined (in an `if` condition) before `err`?
	// (`n > 0` together with io.EOF is legal: the bytes count.)
	readSites := []string{}
	for name, fn := range p.funcs {
		if strings.HasPrefix(name, ".") || fn.Body == nil {
			continue
		}
		ast.Inspect(fn.Body, func(x ast.Node) bool {
			blk, ok := x.(*ast.BlockStmt)
			if !ok {
				return true
			}
			for i, st := range blk.List {
				as, ok := st.(*ast.AssignStmt)
				if !ok || len(as.Lhs) != 2 || len(as.Rhs) != 1 {
					continue
				}
				call, ok := as.Rhs[0].(*ast.CallExpr)
				if !ok {
					continue
				}
				sel, ok := call.Fun.(*ast.SelectorExpr)
				if !ok || sel.Sel.Name != "Read" || len(call.Args) != 1 {
					continue
				}
				nName, errName := exprString(as.Lhs[0]), exprString(as.Lhs[1])
				order := "unused"
				for _, later := range blk.List[i+1:] {
					ifs, ok := later.(*ast.IfStmt)
					if !ok {
						continue
					}
					usesN, usesErr := false, false
					ast.Inspect(ifs.Cond, func(y ast.Node) bool {
						if id, ok := y.(*ast.Ident); ok {
							usesN = usesN || id.Name == nName
							usesErr = usesErr || id.Name == errName
						}
						return true
					})
					if usesN {
						order = "n-first"
						break
					}
					if usesErr {
						order = "err-first"
						break
					}
				}
				readSites = append(readSites, name+":"+order)
			}
			return true
		})
	}
	sort.Strings(readSites)
	fmt.Fprintf(&out, "/-- `n, err := r.Read(p)` call sites: which of the two results an `if` examines first -/\ndef readSites : List String := %s\n\n", leanList(readSites))

	// ---- 2e. JSON decoders of whole files: `json.Unmarshal(bytes, &v)` (whole slice), a Decoder whose Decode is
	// followed by an end-of-input check (second Decode compared with io.EOF, or More()), or a Decoder that takes
	// the first value only
	jsonShape := func(fnName string) string {
		fn := p.funcs[fnName]
		if fn == nil || fn.Body == nil {
			return "missing-function"
		}
		unmarshal, decodes, eofCheck, decoder := 0, 0, false, false
		calls(fn.Body, func(c *ast.CallExpr, name string, selector bool) {
			if !selector {
				return
			}
			switch name {
			case "Unmarshal":
				unmarshal++
			case "NewDecoder":
				decoder = true
			case "Decode":
				decodes++
			case "More":
				eofCheck = true
			}
		})
		ast.Inspect(fn.Body, func(x ast.Node) bool {
			if be, ok := x.(*ast.BinaryExpr); ok && (be.Op == token.NEQ || be.Op == token.EQL) {
				if exprString(be.X) == "io.EOF" || exprString(be.Y) == "io.EOF" {
					eofCheck = true
				}
			}
			return true
		})
		switch {
		case decoder && decodes >= 2 && eofCheck:
			return "decoder+eof-check"
		case decoder && eofCheck:
			return "decoder+eof-check"
		case decoder:
			return "decoder-first-value"
		case unmarshal > 0:
			return "unmarshal-whole-slice"
		}
		return "none"
	}
	decoders := []string{}
	for _, fnName := range []string{"readManifest", "readDumpCheckpoint", "readEncryptedArchiveHeader", "readCompressedJSONLinesFromReader", "readArchiveKeyBytes"} {
		decoders = append(decoders, fnName+":"+jsonShape(fnName))
	}
	fmt.Fprintf(&out, "/-- how each reader of a JSON document decodes it -/\ndef jsonDecoders : List String := %s\n\n", leanList(decoders))

	// ---- 3. extraction
	flags := []string{}
	if fn := p.funcs["unpackTarFileTracked"]; fn != nil {
		calls(fn.Body, func(c *ast.CallExpr, name string, selector bool) {
			if selector && name == "OpenFile" && len(c.Args) == 3 {
				ast.Inspect(c.Args[1], func(x ast.Node) bool {
					if s, ok := x.(*ast.SelectorExpr); ok {
						flags = append(flags, s.Sel.Name)
					}
					return true
				})
			}
		})
	}
	sort.Strings(flags)
	fmt.Fprintf(&out, "/-- flags of the `os.OpenFile` call that creates an extracted file -/\ndef openFlags : List String := %s\n\n", leanList(flags))
	loopKinds := []string{}
	allowed := []string{}
	if fn := p.funcs["unpackTarWithOptions"]; fn != nil && fn.Body != nil {
		for _, s := range fn.Body.List {
			loop, ok := s.(*ast.ForStmt)
			if !ok {
				continue
			}
			for _, ls := range loop.Body.List {
				kind := "other"
				if as, ok := ls.(*ast.AssignStmt); ok && len(as.Rhs) == 1 {
					if c, ok := as.Rhs[0].(*ast.CallExpr); ok {
						switch exprString(c.Fun) {
						case "tarReader.Next":
							kind = "next"
						case "sanitizeArchivePath":
							if len(c.Args) == 1 && exprString(c.Args[0]) == "header.Name" {
								kind = "sanitize"
							}
						case "unpackTarFileTracked":
							kind = "extract"
							if len(c.Args) >= 3 && exprString(c.Args[2]) != "relativePath" {
								kind = "extract-unsanitized"
							}
						}
					}
					if len(as.Lhs) == 1 && exprString(as.Lhs[0]) == "seen[]" {
						kind = "seen-add"
					}
				}
				if ifs, ok := ls.(*ast.IfStmt); ok && len(ifs.Body.List) > 0 {
					_, returns := ifs.Body.List[len(ifs.Body.List)-1].(*ast.ReturnStmt)
					if returns && ifs.Init != nil {
						if as, ok := ifs.Init.(*ast.AssignStmt); ok && len(as.Rhs) == 1 && exprString(as.Rhs[0]) == "seen[]" {
							kind = "dup-check"
						}
					}
					if returns && ifs.Init == nil {
						names, onlyNeqAnd := []string{}, true
						var walk func(e ast.Expr)
						walk = func(e ast.Expr) {
							if b, ok := e.(*ast.BinaryExpr); ok {
								switch b.Op {
								case token.LAND:
									walk(b.X)
									walk(b.Y)
									return
								case token.NEQ:
									if exprString(b.X) == "header.Typeflag" {
										names = append(names, strings.TrimPrefix(exprString(b.Y), "tar."))
										return
									}
								}
							}
							onlyNeqAnd = false
						}
						walk(ifs.Cond)
						if onlyNeqAnd && len(names) > 0 {
							kind = "type-check"
							allowed = names
						}
						if b, ok := ifs.Cond.(*ast.BinaryExpr); ok && exprString(b.X) == "header.Size" && b.Op == token.LSS {
							kind = "size-check"
						}
					}
					if returns && kind == "other" {
						kind = "error-return"
					}
				}
				loopKinds = append(loopKinds, kind)
			}
		}
	}
	sort.Strings(allowed)
	fmt.Fprintf(&out, "/-- statements of the extraction loop body, in order -/\ndef loopKinds : List String := %s\n/-- typeflags the loop lets through (`header.Typeflag != X && ...` returns an error) -/\ndef allowedTypeflags : List String := %s\n\n", leanList(loopKinds), leanList(allowed))

	// ---- 4. frame AAD
	aadParts := []string{}
	if fn := p.funcs["archiveFrameAAD"]; fn != nil && fn.Body != nil {
		indexSource := ""
		calls(fn.Body, func(c *ast.CallExpr, name string, selector bool) {
			if selector && name == "PutUint64" && len(c.Args) == 2 {
				indexSource = exprString(c.Args[1])
			}
		})
		calls(fn.Body, func(c *ast.CallExpr, name string, selector bool) {
			if sel, ok := c.Fun.(*ast.SelectorExpr); ok && exprString(sel.X) == "aad" && strings.HasPrefix(name, "Write") && len(c.Args) == 1 {
				arg := exprString(c.Args[0])
				if arg == "indexBytes" {
					arg = "be64:" + indexSource
				}
				aadParts = append(aadParts, arg)
			}
		})
	}
	fmt.Fprintf(&out, "/-- what `archiveFrameAAD` writes, in order -/\ndef aadParts : List String := %s\n", leanList(aadParts))
	aadArgs := func(fnName, method string) []string {
		res := []string{}
		if fn := p.funcs[fnName]; fn != nil {
			calls(fn.Body, func(c *ast.CallExpr, name string, selector bool) {
				if selector && name == method && len(c.Args) == 2 {
					if inner, ok := c.Args[0].(*ast.CallExpr); ok && exprString(inner.Fun) == "archiveFrameAAD" {
						for _, a := range inner.Args {
							res = append(res, exprString(a))
						}
					}
				}
			})
		}
		return res
	}
	fmt.Fprintf(&out, "def writerAadArgs : List String := %s\ndef readerAadArgs : List String := %s\n",
		leanList(aadArgs("encryptedArchiveWriter.writeFrame", "Seal")), leanList(aadArgs("encryptedArchiveReader.readNextFrame", "Open")))
	eofOnFinal, finalEmpty, indexIncr := false, false, false
	if fn := p.funcs["encryptedArchiveReader.readNextFrame"]; fn != nil && fn.Body != nil {
		for _, s := range fn.Body.List {
			if inc, ok := s.(*ast.IncDecStmt); ok && inc.Tok == token.INC && exprString(inc.X) == "s.frameIndex" {
				indexIncr = true
			}
			ifs, ok := s.(*ast.IfStmt)
			if !ok {
				continue
			}
			if b, ok := ifs.Cond.(*ast.BinaryExpr); ok && b.Op == token.EQL && exprString(b.X) == "frameType" && exprString(b.Y) == "encryptedArchiveFrameFinal" {
				for _, inner := range ifs.Body.List {
					if name, _ := guardCall(inner); name == "requireEncryptedArchiveEOF" {
						eofOnFinal = true
					}
					if i2, ok := inner.(*ast.IfStmt); ok {
						if b2, ok := i2.Cond.(*ast.BinaryExpr); ok && b2.Op == token.NEQ && exprString(b2.X) == "len()" && exprString(b2.Y) == "0" {
							if _, ok := i2.Body.List[len(i2.Body.List)-1].(*ast.ReturnStmt); ok {
								finalEmpty = true
							}
						}
					}
				}
			}
		}
	}
	fmt.Fprintf(&out, "def readerIncrementsIndex : Bool := %s\ndef readerChecksEofAfterFinal : Bool := %s\ndef readerRequiresEmptyFinal : Bool := %s\n\n",
		leanBool(indexIncr), leanBool(eofOnFinal), leanBool(finalEmpty))

	// ---- 4b. early-return table of readNextFrame: every return between reading the frame header and the AEAD open,
	// with the condition that guards it and whether it returns an error or nil. A frame must not be accepted (nil)
	// before it went through Open.
	preOpen := []string{}
	openSeen := false
	if fn := p.funcs["encryptedArchiveReader.readNextFrame"]; fn != nil && fn.Body != nil {
		for _, st := range fn.Body.List {
			isOpen := false
			calls(st, func(c *ast.CallExpr, name string, selector bool) {
				if selector && name == "Open" {
					isOpen = true
				}
			})
			if isOpen {
				openSeen = true
				break
			}
			cond := "unconditional"
			if ifs, ok := st.(*ast.IfStmt); ok {
				cond = condString(ifs.Cond)
				if ifs.Init != nil {
					if as, ok := ifs.Init.(*ast.AssignStmt); ok && len(as.Rhs) == 1 {
						cond = exprString(as.Rhs[0]) + "; " + cond
					}
				}
			}
			ast.Inspect(st, func(x ast.Node) bool {
				if r, ok := x.(*ast.ReturnStmt); ok {
					kind := "error"
					if len(r.Results) == 1 && exprString(r.Results[0]) == "nil" {
						kind = "nil"
					}
					preOpen = append(preOpen, cond+" => "+kind)
				}
				return true
			})
		}
	}
	fmt.Fprintf(&out, "/-- returns of `readNextFrame` before the AEAD `Open`: guarding condition => error | nil -/\ndef framePreOpenReturns : List String := %s\ndef frameOpenReached : Bool := %s\n\n", leanList(preOpen), leanBool(openSeen))

	// ---- 5. staging order of Unpack (encrypted) and of UnpackTarWithOptions (plain, since the F11 repair)
	stagingKinds := func(fnName string, extractors map[string]bool) []string {
		unpackKinds := []string{}
		if fn := p.funcs[fnName]; fn != nil && fn.Body != nil {
			for _, s := range fn.Body.List {
				kind := "other"
				if as, ok := s.(*ast.AssignStmt); ok && len(as.Rhs) == 1 {
					if c, ok := as.Rhs[0].(*ast.CallExpr); ok && exprString(c.Fun) == "createUnpackStagingDirectory" {
						kind = "create-staging"
					}
				}
				if _, ok := s.(*ast.DeferStmt); ok {
					kind = "defer"
					calls(s, func(c *ast.CallExpr, name string, selector bool) {
						if selector && name == "RemoveAll" && len(c.Args) == 1 && exprString(c.Args[0]) == "stagingDir" {
							kind = "defer-remove-staging"
						}
					})
				}
				if name, call := guardCall(s); call != nil {
					switch {
					case extractors[name]:
						kind = "extract-elsewhere"
						if len(call.Args) >= 2 && exprString(call.Args[1]) == "stagingDir" {
							kind = "extract-into-staging"
						}
					case name == "promoteUnpackStagingDirectory":
						kind = "promote"
					case name == "validate":
						kind = "validate-options"
					}
				} else if kind == "other" {
					// an extraction call that is not guarded by `if .. err != nil { return }` (the pre-repair shape
					// `_, err := unpackTarWithOptions(reader, outputDir, ..)`) is an extraction elsewhere
					calls(s, func(c *ast.CallExpr, name string, selector bool) {
						if !selector && extractors[name] {
							kind = "extract-elsewhere"
						}
					})
				}
				unpackKinds = append(unpackKinds, kind)
			}
		}
		return unpackKinds
	}
	fmt.Fprintf(&out, "/-- top-level statements of `Unpack`, in order -/\ndef unpackKinds : List String := %s\n",
		leanList(stagingKinds("Unpack", map[string]bool{"UnpackEncryptedCollectionArchiveWithOptions": true, "unpackEncryptedCollectionArchiveInto": true})))
	fmt.Fprintf(&out, "/-- top-level statements of `UnpackTarWithOptions` (plain path), in order -/\ndef plainUnpackKinds : List String := %s\n",
		leanList(stagingKinds("UnpackTarWithOptions", map[string]bool{"unpackTarWithOptions": true})))
	// every caller of the extraction loop and the directory it hands to it
	callers := []string{}
	for name, fn := range p.funcs {
		if strings.HasPrefix(name, ".") || fn.Body == nil {
			continue
		}
		calls(fn.Body, func(c *ast.CallExpr, callee string, selector bool) {
			if !selector && callee == "unpackTarWithOptions" && len(c.Args) >= 2 {
				callers = append(callers, name+":"+exprString(c.Args[1]))
			}
		})
	}
	sort.Strings(callers)
	fmt.Fprintf(&out, "/-- `caller:directory argument` of every call of the extraction loop `unpackTarWithOptions` -/\ndef extractLoopCallers : List String := %s\n\nend Dawgs.Generated.C20\n", leanList(callers))
	if err := os.WriteFile(os.Args[2], []byte(out.String()), 0o644); err != nil {
		fmt.Fprintln(os.Stderr, err)
		os.Exit(1)
	}
}
