module c20extract

go 1.26.4
