module c18extract

go 1.26.4
