// Command gotyped: fact extractors that need TYPE information (go/types with the source importer; stdlib only).
// It lives in its own module with the repository's Go version so that the repository's toolchain type-checks the
// sources. usage: gotyped <mode> <repo> <out.lean>     (run with GOFLAGS=-mod=mod GOPROXY=off)
package main

import (
	"fmt"
	"go/ast"
	"go/importer"
	"go/parser"
	"go/token"
	"go/types"
	"os"
	"path/filepath"
	"sort"
	"strings"
)

var modes = map[string]func(repo string, w *strings.Builder) error{}

func main() {
	if len(os.Args) != 4 {
		fmt.Fprintln(os.Stderr, "usage: gotyped <mode> <repo> <out.lean>")
		os.Exit(2)
	}
	f, ok := modes[os.Args[1]]
	if !ok {
		fmt.Fprintln(os.Stderr, "unknown mode", os.Args[1])
		os.Exit(2)
	}
	var b strings.Builder
	if err := f(os.Args[2], &b); err != nil {
		fmt.Fprintln(os.Stderr, "gotyped:", err)
		os.Exit(1)
	}
	if err := os.WriteFile(os.Args[3], []byte(b.String()), 0o644); err != nil {
		fmt.Fprintln(os.Stderr, "gotyped:", err)
		os.Exit(1)
	}
}

// Pkg is one type-checked package directory (non-test files, verif_on.go hook files excluded; the no-op verif_off.go stays so that hook call lines type-check).
type Pkg struct {
	Rel   string
	Fset  *token.FileSet
	Files []*ast.File
	Info  *types.Info
	Types *types.Package
}

type loader struct {
	repo string
	fset *token.FileSet
	imp  types.Importer
}

func newLoader(repo string) *loader {
	fset := token.NewFileSet()
	return &loader{repo: repo, fset: fset, imp: importer.ForCompiler(fset, "source", nil)}
}

func (l *loader) load(rel string, only ...string) (*Pkg, error) {
	dir := filepath.Join(l.repo, rel)
	if err := os.Chdir(dir); err != nil { // the source importer resolves module imports relative to the cwd
		return nil, err
	}
	ents, err := os.ReadDir(dir)
	if err != nil {
		return nil, err
	}
	var files []*ast.File
	for _, e := range ents {
		n := e.Name()
		if e.IsDir() || !strings.HasSuffix(n, ".go") || strings.HasSuffix(n, "_test.go") || strings.HasPrefix(n, "verif_on") {
			continue
		}
		f, err := parser.ParseFile(l.fset, filepath.Join(dir, n), nil, parser.ParseComments)
		if err != nil {
			return nil, err
		}
		files = append(files, f)
	}
	info := &types.Info{Types: map[ast.Expr]types.TypeAndValue{}, Uses: map[*ast.Ident]types.Object{}, Defs: map[*ast.Ident]types.Object{},
		Selections: map[*ast.SelectorExpr]*types.Selection{}}
	var firstErr error
	conf := types.Config{Importer: l.imp, Error: func(err error) {
		if firstErr == nil {
			firstErr = err
		}
	}}
	tp, _ := conf.Check(rel, l.fset, files, info)
	if firstErr != nil {
		return nil, fmt.Errorf("type-checking %s: %v", rel, firstErr)
	}
	return &Pkg{Rel: rel, Fset: l.fset, Files: files, Info: info, Types: tp}, nil
}

func leanStr(s string) string {
	return `"` + strings.ReplaceAll(strings.ReplaceAll(s, `\`, `\\`), `"`, `\"`) + `"`
}

func leanStrList(xs []string) string {
	q := make([]string, len(xs))
	for i, x := range xs {
		q[i] = leanStr(x)
	}
	return "[" + strings.Join(q, ", ") + "]"
}

func recvName(fd *ast.FuncDecl) string {
	if fd.Recv == nil || len(fd.Recv.List) == 0 {
		return ""
	}
	t := fd.Recv.List[0].Type
	if s, ok := t.(*ast.StarExpr); ok {
		t = s.X
	}
	if ix, ok := t.(*ast.IndexExpr); ok {
		t = ix.X
	}
	if id, ok := t.(*ast.Ident); ok {
		return id.Name
	}
	return ""
}

func funcName(fd *ast.FuncDecl) string {
	if r := recvName(fd); r != "" {
		return r + "." + fd.Name.Name
	}
	return fd.Name.Name
}

func sortedKeys[V any](m map[string]V) []string {
	ks := make([]string, 0, len(m))
	for k := range m {
		ks = append(ks, k)
	}
	sort.Strings(ks)
	return ks
}
