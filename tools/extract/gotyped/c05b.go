package main

import (
	"fmt"
	"go/ast"
	"go/token"
	"go/types"
	"path/filepath"
	"sort"
	"strings"
)

// c05 (second table, appended to Generated/C05_ranges.lean by c05Facts): the other ingredients of "total, deterministic,
// side-effect free" that can be read off the typed source.
//
//	nondetSources   every construct besides map iteration through which a sequential Go program can depend on anything but
//	                its inputs: select, go statements, wall clock, random numbers, sync.Map, reflective / iterator map
//	                traversal, %p formatting, unsafe, process environment
//	inputWrites     every assignment / delete / append-assign whose target is a field or element of a cypher model value
//	                (the caller's AST is made of those), every write into a map[string]any (the caller's parameter map is
//	                one), every reflect.Value setter, every call on the kind mapper — each with a classification
//	partialSites    every single-value type assertion and every slice index / slice expression in translate/, with the guard
//	                that protects it, or "unguarded"

type c05bSite struct {
	file string
	line int
	fn   string
	kind string
	expr string
	cls  string
}

func c05bPos(p *Pkg, pos token.Pos, rel string) (string, int) {
	pp := p.Fset.Position(pos)
	return rel[strings.LastIndex(rel, "/")+1:] + "/" + filepath.Base(pp.Filename), pp.Line
}

func pkgPathOf(t types.Type) string {
	for {
		switch x := t.(type) {
		case *types.Pointer:
			t = x.Elem()
			continue
		case *types.Named:
			if x.Obj().Pkg() != nil {
				return x.Obj().Pkg().Path()
			}
			return ""
		case *types.Alias:
			t = types.Unalias(x)
			continue
		}
		return ""
	}
}

func isCypherModel(t types.Type) bool {
	if t == nil {
		return false
	}
	if strings.HasSuffix(pkgPathOf(t), "cypher/models/cypher") {
		return true
	}
	// unnamed containers of model values: []cypher.Expression, []*cypher.PatternPart, map[…]cypher.Expression
	switch u := t.(type) {
	case *types.Slice:
		return isCypherModel(u.Elem())
	case *types.Array:
		return isCypherModel(u.Elem())
	case *types.Map:
		return isCypherModel(u.Elem())
	}
	return false
}

func isStringAnyMap(t types.Type) bool {
	if t == nil {
		return false
	}
	m, ok := t.Underlying().(*types.Map)
	if !ok {
		return false
	}
	k, okk := m.Key().Underlying().(*types.Basic)
	iface, isIface := m.Elem().Underlying().(*types.Interface)
	return okk && k.Kind() == types.String && isIface && iface.NumMethods() == 0
}

var timeSources = map[string]bool{"Now": true, "Since": true, "Until": true, "After": true, "AfterFunc": true, "Tick": true, "NewTimer": true, "NewTicker": true, "Sleep": true}

// enclosingFuncs maps every node position to the name of the FuncDecl containing it.
func eachFunc(p *Pkg, f func(fd *ast.FuncDecl, name string)) {
	for _, file := range p.Files {
		for _, d := range file.Decls {
			if fd, ok := d.(*ast.FuncDecl); ok && fd.Body != nil {
				f(fd, funcName(fd))
			}
		}
	}
}

func c05bNondet(p *Pkg, rel string, out *[]c05bSite) {
	add := func(pos token.Pos, fn, kind, expr string) {
		file, line := c05bPos(p, pos, rel)
		*out = append(*out, c05bSite{file: file, line: line, fn: fn, kind: kind, expr: expr})
	}
	eachFunc(p, func(fd *ast.FuncDecl, name string) {
		ast.Inspect(fd.Body, func(n ast.Node) bool {
			switch x := n.(type) {
			case *ast.SelectStmt:
				add(x.Pos(), name, "select", "select")
			case *ast.GoStmt:
				add(x.Pos(), name, "go", types.ExprString(x.Call.Fun))
			case *ast.BasicLit:
				if x.Kind == token.STRING && strings.Contains(x.Value, "%p") {
					add(x.Pos(), name, "format-pointer", x.Value)
				}
			case *ast.SelectorExpr:
				if id, ok := x.X.(*ast.Ident); ok {
					if pn, ok := p.Info.Uses[id].(*types.PkgName); ok {
						path := pn.Imported().Path()
						switch {
						case path == "time" && timeSources[x.Sel.Name]:
							add(x.Pos(), name, "clock", "time."+x.Sel.Name)
						case path == "math/rand" || path == "math/rand/v2" || path == "crypto/rand":
							add(x.Pos(), name, "random", path+"."+x.Sel.Name)
						case path == "sync" && x.Sel.Name == "Map":
							add(x.Pos(), name, "sync.Map", "sync.Map")
						case path == "maps" && (x.Sel.Name == "Keys" || x.Sel.Name == "Values" || x.Sel.Name == "All"):
							add(x.Pos(), name, "map-iterator", "maps."+x.Sel.Name)
						case path == "unsafe":
							add(x.Pos(), name, "unsafe", "unsafe."+x.Sel.Name)
						case path == "os" && (x.Sel.Name == "Getenv" || x.Sel.Name == "Environ" || x.Sel.Name == "LookupEnv" || x.Sel.Name == "Hostname" || x.Sel.Name == "Getpid"):
							add(x.Pos(), name, "environment", "os."+x.Sel.Name)
						}
					}
				}
				if sel, ok := p.Info.Selections[x]; ok && sel.Kind() == types.MethodVal {
					if pkgPathOf(sel.Recv()) == "reflect" && (x.Sel.Name == "MapKeys" || x.Sel.Name == "MapRange") {
						add(x.Pos(), name, "reflect-map-iteration", "reflect.Value."+x.Sel.Name)
					}
				}
			}
			return true
		})
	})
}

// rootIdent returns the identifier an lvalue expression is rooted at.
func rootIdent(e ast.Expr) *ast.Ident {
	for {
		switch x := e.(type) {
		case *ast.Ident:
			return x
		case *ast.SelectorExpr:
			e = x.X
		case *ast.IndexExpr:
			e = x.X
		case *ast.StarExpr:
			e = x.X
		case *ast.ParenExpr:
			e = x.X
		case *ast.CallExpr:
			return nil
		default:
			return nil
		}
	}
}

// freshInFunc: the identifier is a local variable initialised in this function by make / a composite literal / new.
func freshInFunc(p *Pkg, fd *ast.FuncDecl, id *ast.Ident) bool {
	obj := p.Info.Uses[id]
	if obj == nil {
		obj = p.Info.Defs[id]
	}
	fresh := false
	ast.Inspect(fd.Body, func(n ast.Node) bool {
		check := func(lhs ast.Expr, rhs ast.Expr) {
			l, ok := lhs.(*ast.Ident)
			if !ok || (p.Info.Defs[l] != obj && p.Info.Uses[l] != obj) || obj == nil {
				return
			}
			switch r := rhs.(type) {
			case *ast.CompositeLit:
				fresh = true
			case *ast.UnaryExpr:
				if _, ok := r.X.(*ast.CompositeLit); ok {
					fresh = true
				}
			case *ast.CallExpr:
				if f := types.ExprString(r.Fun); f == "make" || f == "new" {
					fresh = true
				}
			}
		}
		switch x := n.(type) {
		case *ast.AssignStmt:
			if len(x.Lhs) == len(x.Rhs) {
				for i := range x.Lhs {
					check(x.Lhs[i], x.Rhs[i])
				}
			}
		case *ast.ValueSpec:
			if len(x.Names) == len(x.Values) {
				for i := range x.Names {
					check(x.Names[i], x.Values[i])
				}
			}
		}
		return true
	})
	return fresh
}

func c05bInputWrites(p *Pkg, rel string, out *[]c05bSite) {
	eachFunc(p, func(fd *ast.FuncDecl, name string) {
		add := func(pos token.Pos, kind, expr, cls string) {
			file, line := c05bPos(p, pos, rel)
			*out = append(*out, c05bSite{file: file, line: line, fn: name, kind: kind, expr: expr, cls: cls})
		}
		target := func(lhs ast.Expr, pos token.Pos) {
			var base ast.Expr
			switch x := lhs.(type) {
			case *ast.SelectorExpr:
				base = x.X
			case *ast.IndexExpr:
				base = x.X
			case *ast.StarExpr:
				base = x.X
			default:
				return
			}
			bt := p.Info.Types[base].Type
			if bt == nil {
				return
			}
			cls := func() string {
				id := rootIdent(lhs)
				switch {
				case id == nil:
					return "other"
				case freshInFunc(p, fd, id):
					return "fresh"
				}
				// a field of the method's own receiver: where the field's map comes from is listed in mapFieldFlows
				if fd.Recv != nil && len(fd.Recv.List) > 0 && len(fd.Recv.List[0].Names) > 0 && fd.Recv.List[0].Names[0].Name == id.Name {
					e := lhs
					var first string
					for {
						switch x := e.(type) {
						case *ast.SelectorExpr:
							if _, isRoot := x.X.(*ast.Ident); isRoot {
								first = x.Sel.Name
							}
							e = x.X
							continue
						case *ast.IndexExpr:
							e = x.X
							continue
						}
						break
					}
					if first != "" {
						return "field:" + recvName(fd) + "." + first
					}
				}
				return "other"
			}
			switch {
			case isCypherModel(bt):
				add(pos, "ast-write", types.ExprString(lhs), cls())
			case isStringAnyMap(bt):
				c := cls()
				if strings.HasSuffix(types.ExprString(base), ".Parameters") {
					c = "output" // Result.Parameters: created by NewTranslator, the translation's own result map
				}
				add(pos, "param-map-write", types.ExprString(lhs), c)
			}
		}
		ast.Inspect(fd.Body, func(n ast.Node) bool {
			switch x := n.(type) {
			case *ast.AssignStmt:
				if x.Tok == token.DEFINE {
					return true
				}
				for _, lhs := range x.Lhs {
					target(lhs, x.Pos())
				}
			case *ast.IncDecStmt:
				target(x.X, x.Pos())
			case *ast.CallExpr:
				switch fun := x.Fun.(type) {
				case *ast.Ident:
					if fun.Name == "delete" && len(x.Args) == 2 {
						if bt := p.Info.Types[x.Args[0]].Type; isStringAnyMap(bt) || isCypherModel(bt) {
							cls := "other"
							if id := rootIdent(x.Args[0]); id != nil && freshInFunc(p, fd, id) {
								cls = "fresh"
							}
							add(x.Pos(), "param-map-write", "delete("+types.ExprString(x.Args[0])+", …)", cls)
						}
					}
				case *ast.SelectorExpr:
					sel, ok := p.Info.Selections[fun]
					if !ok || sel.Kind() != types.MethodVal {
						return true
					}
					recv := sel.Recv()
					switch {
					case pkgPathOf(recv) == "reflect" && strings.HasPrefix(fun.Sel.Name, "Set"):
						add(x.Pos(), "reflect-set", "reflect.Value."+fun.Sel.Name, "other")
					case isCypherModel(recv):
						// a method of a model value with a pointer receiver whose name says it mutates
						if fn, ok := sel.Obj().(*types.Func); ok {
							if sig, ok := fn.Type().(*types.Signature); ok && sig.Recv() != nil {
								if _, ptr := sig.Recv().Type().(*types.Pointer); ptr {
									for _, pre := range []string{"Add", "Set", "Remove", "Replace", "Append", "Insert", "Delete", "Clear", "Push", "Pop"} {
										if strings.HasPrefix(fun.Sel.Name, pre) {
											cls := "other"
											if id := rootIdent(fun.X); id != nil && freshInFunc(p, fd, id) {
												cls = "fresh"
											}
											add(x.Pos(), "ast-mutator-call", types.ExprString(fun), cls)
										}
									}
								}
							}
						}
					case strings.HasSuffix(pkgPathOf(recv), "/dawgs/graph"):
						// a method of a library value (graph.Properties, Node, Relationship, Kinds, …): such values reach the
						// translator only as parameter VALUES, i.e. they belong to the caller. Whether the method writes
						// through its receiver is decided against the C12 API table (`mutates`).
						tn := strings.TrimPrefix(types.TypeString(recv, func(*types.Package) string { return "" }), "*")
						if !strings.HasPrefix(tn, "IndexedSlice[") { // the translator's own generic container, never a caller's value
							add(x.Pos(), "graph-method-call", tn+"."+fun.Sel.Name, "caller-value")
						}
					case strings.HasSuffix(types.TypeString(recv, nil), "pgsql.KindMapper") || strings.HasSuffix(types.TypeString(recv, nil), "contextAwareKindMapper"):
						cls := "read"
						if fun.Sel.Name == "AssertKinds" {
							cls = "register"
						}
						add(x.Pos(), "kind-mapper-call", fun.Sel.Name, cls)
					}
				}
			}
			return true
		})
	})
}

// c05bMapFieldFlows: every initialisation / assignment of a struct field of type map[string]any, with where the map
// comes from: fresh (make / literal / fresh local), output (…​.Parameters of the translation result), or, for a function
// parameter, the join over the arguments of every call of that function in the package.
func c05bMapFieldFlows(p *Pkg, rel string, out *[]c05bSite) {
	classifyExpr := func(fd *ast.FuncDecl, e ast.Expr) (string, *types.Var) {
		switch x := e.(type) {
		case *ast.CompositeLit:
			return "fresh", nil
		case *ast.CallExpr:
			if f := types.ExprString(x.Fun); f == "make" {
				return "fresh", nil
			}
		case *ast.Ident:
			if freshInFunc(p, fd, x) {
				return "fresh", nil
			}
			if v, ok := p.Info.Uses[x].(*types.Var); ok {
				// a parameter of the enclosing function?
				if fd.Type.Params != nil {
					for _, f := range fd.Type.Params.List {
						for _, n := range f.Names {
							if p.Info.Defs[n] == v {
								return "param", v
							}
						}
					}
				}
			}
		case *ast.SelectorExpr:
			if x.Sel.Name == "Parameters" {
				return "output", nil
			}
		}
		return "other:" + types.ExprString(e), nil
	}
	paramIndex := func(fd *ast.FuncDecl, v *types.Var) int {
		i := 0
		for _, f := range fd.Type.Params.List {
			for _, n := range f.Names {
				if p.Info.Defs[n] == v {
					return i
				}
				i++
			}
		}
		return -1
	}
	callArgs := func(callee string, idx int) string {
		joined := map[string]bool{}
		eachFunc(p, func(fd *ast.FuncDecl, _ string) {
			ast.Inspect(fd.Body, func(n ast.Node) bool {
				if call, ok := n.(*ast.CallExpr); ok && idx < len(call.Args) {
					name := ""
					switch f := call.Fun.(type) {
					case *ast.Ident:
						name = f.Name
					case *ast.SelectorExpr:
						name = f.Sel.Name
					}
					if name == callee {
						c, _ := classifyExpr(fd, call.Args[idx])
						if c == "param" {
							c = "other:param-of-" + funcName(fd)
						}
						joined[c] = true
					}
				}
				return true
			})
		})
		if len(joined) == 0 {
			return "no-caller"
		}
		return strings.Join(sortedKeys(joined), "|")
	}
	eachFunc(p, func(fd *ast.FuncDecl, name string) {
		record := func(pos token.Pos, owner, field string, rhs ast.Expr) {
			c, v := classifyExpr(fd, rhs)
			if c == "param" {
				c = callArgs(fd.Name.Name, paramIndex(fd, v))
			}
			file, line := c05bPos(p, pos, rel)
			*out = append(*out, c05bSite{file: file, line: line, fn: name, kind: owner + "." + field, expr: types.ExprString(rhs), cls: c})
		}
		ast.Inspect(fd.Body, func(n ast.Node) bool {
			switch x := n.(type) {
			case *ast.CompositeLit:
				t := p.Info.Types[x].Type
				if t == nil {
					return true
				}
				st, ok := t.Underlying().(*types.Struct)
				if !ok {
					return true
				}
				owner := types.TypeString(t, func(*types.Package) string { return "" })
				for _, el := range x.Elts {
					kv, ok := el.(*ast.KeyValueExpr)
					if !ok {
						continue
					}
					key, ok := kv.Key.(*ast.Ident)
					if !ok {
						continue
					}
					for i := 0; i < st.NumFields(); i++ {
						if st.Field(i).Name() == key.Name && isStringAnyMap(st.Field(i).Type()) {
							record(kv.Pos(), owner, key.Name, kv.Value)
						}
					}
				}
			case *ast.AssignStmt:
				if x.Tok != token.ASSIGN || len(x.Lhs) != len(x.Rhs) {
					return true
				}
				for i, lhs := range x.Lhs {
					sel, ok := lhs.(*ast.SelectorExpr)
					if !ok {
						continue
					}
					if s, ok := p.Info.Selections[sel]; ok && s.Kind() == types.FieldVal && isStringAnyMap(s.Type()) {
						owner := types.TypeString(s.Recv(), func(*types.Package) string { return "" })
						record(x.Pos(), strings.TrimPrefix(owner, "*"), sel.Sel.Name, x.Rhs[i])
					}
				}
			}
			return true
		})
	})
}

// ---------------------------------------------------------------- partial operations

func isSliceLike(t types.Type) bool {
	if t == nil {
		return false
	}
	switch u := t.Underlying().(type) {
	case *types.Slice, *types.Array:
		return true
	case *types.Basic:
		return u.Info()&types.IsString != 0
	case *types.Pointer:
		_, ok := u.Elem().Underlying().(*types.Array)
		return ok
	}
	return false
}

func c05bPartial(p *Pkg, rel string, out *[]c05bSite) {
	called := map[string]bool{}
	for _, f := range p.Files {
		ast.Inspect(f, func(n ast.Node) bool {
			switch x := n.(type) {
			case *ast.Ident:
				if _, isFunc := p.Info.Uses[x].(*types.Func); isFunc {
					called[x.Name] = true
				}
			}
			return true
		})
	}
	eachFunc(p, func(fd *ast.FuncDecl, name string) {
		dead := !called[fd.Name.Name] && !fd.Name.IsExported() && fd.Recv == nil
		// safe forms of type assertions: type switches and comma-ok
		safeAssert := map[*ast.TypeAssertExpr]bool{}
		// indexes protected structurally: `for i := range a` / `for i, _ := range a` body uses a[i]
		rangeIdx := map[string]map[string]bool{} // index var -> ranged expr texts
		sized := map[string]string{} // x := make(T, len(Y)) : x -> Y
		var lenMentions []struct {
			text string
			pos  token.Pos
		}
		ast.Inspect(fd.Body, func(n ast.Node) bool {
			switch x := n.(type) {
			case *ast.TypeSwitchStmt:
				ast.Inspect(x.Assign, func(m ast.Node) bool {
					if ta, ok := m.(*ast.TypeAssertExpr); ok && ta.Type == nil {
						safeAssert[ta] = true
					}
					return true
				})
			case *ast.AssignStmt:
				if len(x.Lhs) == 2 && len(x.Rhs) == 1 {
					if ta, ok := x.Rhs[0].(*ast.TypeAssertExpr); ok {
						safeAssert[ta] = true
					}
				}
				if len(x.Lhs) == len(x.Rhs) {
					for i, rhs := range x.Rhs {
						if call, ok := rhs.(*ast.CallExpr); ok && types.ExprString(call.Fun) == "make" && len(call.Args) >= 2 {
							if l, ok := call.Args[1].(*ast.CallExpr); ok && types.ExprString(l.Fun) == "len" && len(l.Args) == 1 {
								sized[types.ExprString(x.Lhs[i])] = types.ExprString(l.Args[0])
							}
						}
					}
				}
			case *ast.ValueSpec:
				if len(x.Names) == 2 && len(x.Values) == 1 {
					if ta, ok := x.Values[0].(*ast.TypeAssertExpr); ok {
						safeAssert[ta] = true
					}
				}
			case *ast.RangeStmt:
				if id, ok := x.Key.(*ast.Ident); ok && id.Name != "_" {
					if rangeIdx[id.Name] == nil {
						rangeIdx[id.Name] = map[string]bool{}
					}
					rangeIdx[id.Name][types.ExprString(x.X)] = true
				}
			case *ast.CallExpr:
				if id, ok := x.Fun.(*ast.Ident); ok && id.Name == "len" && len(x.Args) == 1 {
					lenMentions = append(lenMentions, struct {
						text string
						pos  token.Pos
					}{types.ExprString(x.Args[0]), x.Pos()})
				}
			}
			return true
		})
		// helper methods that are length tests of their receiver
		lenLike := func(base string, pos token.Pos) bool {
			for _, l := range lenMentions {
				if l.text == base {
					return true
				}
			}
			return false
		}
		// a VERIFIED guard for index 0 / slice [1:]: a top-level `if len(base) == 0 { …; return … }` before the use. A comparison
		// with nil (`if base == nil { return }`) is NOT one: an empty non-nil slice passes it.
		zeroGuard := func(base string, pos token.Pos) bool {
			for _, st := range fd.Body.List {
				ifs, ok := st.(*ast.IfStmt)
				if !ok || ifs.Pos() >= pos || ifs.Init != nil || len(ifs.Body.List) == 0 {
					continue
				}
				if _, ret := ifs.Body.List[len(ifs.Body.List)-1].(*ast.ReturnStmt); !ret {
					continue
				}
				if be, ok := ifs.Cond.(*ast.BinaryExpr); ok && be.Op == token.EQL && types.ExprString(be.Y) == "0" {
					if call, ok := be.X.(*ast.CallExpr); ok && types.ExprString(call.Fun) == "len" && len(call.Args) == 1 && types.ExprString(call.Args[0]) == base {
						return true
					}
				}
			}
			return false
		}
		add := func(pos token.Pos, kind, expr, cls string) {
			file, line := c05bPos(p, pos, rel)
			if dead && cls == "unguarded" {
				cls = "dead-code" // unexported function that nothing in the package refers to
			}
			*out = append(*out, c05bSite{file: file, line: line, fn: name, kind: kind, expr: expr, cls: cls})
		}
		ast.Inspect(fd.Body, func(n ast.Node) bool {
			switch x := n.(type) {
			case *ast.TypeAssertExpr:
				if x.Type != nil && !safeAssert[x] {
					add(x.Pos(), "assert", types.ExprString(x), "unguarded")
				}
			case *ast.IndexExpr:
				bt := p.Info.Types[x.X].Type
				if !isSliceLike(bt) {
					return true
				}
				base := types.ExprString(x.X)
				cls := "unguarded"
				if id, ok := x.Index.(*ast.Ident); ok && rangeIdx[id.Name][base] {
					cls = "range-index"
				} else if id, ok := x.Index.(*ast.Ident); ok && sized[base] != "" && rangeIdx[id.Name][sized[base]] {
					cls = "range-index" // base = make(T, len(Y)) and the index ranges over Y
				} else if zeroGuard(base, x.Pos()) && types.ExprString(x.Index) == "0" {
					cls = "len-zero-return-guard" // `if len(base) == 0 { …; return }` earlier at the top level of the function
				} else if lenLike(base, x.Pos()) {
					cls = "len-mentioned"
				} else if _, isArr := bt.Underlying().(*types.Array); isArr {
					if tv, ok := p.Info.Types[x.Index]; ok && tv.Value != nil {
						cls = "constant-in-array"
					}
				}
				add(x.Pos(), "index", types.ExprString(x), cls)
			case *ast.SliceExpr:
				bt := p.Info.Types[x.X].Type
				if !isSliceLike(bt) {
					return true
				}
				base := types.ExprString(x.X)
				cls := "unguarded"
				if zeroGuard(base, x.Pos()) && x.High == nil && x.Low != nil && types.ExprString(x.Low) == "1" {
					cls = "len-zero-return-guard"
				} else if lenLike(base, x.Pos()) {
					cls = "len-mentioned"
				} else if x.Low == nil && x.High == nil {
					cls = "full-slice"
				} else if x.Low == nil && types.ExprString(x.High) == "0" {
					cls = "full-slice" // a[:0] is valid for every slice, nil included
				}
				add(x.Pos(), "slice", types.ExprString(x), cls)
			}
			return true
		})
	})
}

func c05bWrite(w *strings.Builder, pkgs map[string]*Pkg) {
	var nondet, writes, partial []c05bSite
	for _, rel := range []string{"cypher/models/pgsql/translate", "cypher/models/pgsql/optimize", "cypher/models/pgsql/format", "cypher/models/pgsql", "cypher/models/cypher", "cypher/models/walk"} {
		c05bNondet(pkgs[rel], rel, &nondet)
	}
	for _, rel := range []string{"cypher/models/pgsql/translate", "cypher/models/pgsql/format", "cypher/models/pgsql"} {
		c05bInputWrites(pkgs[rel], rel, &writes)
	}
	var flows []c05bSite
	for _, rel := range []string{"cypher/models/pgsql/translate", "cypher/models/pgsql/format", "cypher/models/pgsql"} {
		c05bMapFieldFlows(pkgs[rel], rel, &flows)
	}
	c05bPartial(pkgs["cypher/models/pgsql/translate"], "cypher/models/pgsql/translate", &partial)
	// pgsql/: parameter VALUES are inspected here (ValueToDataType, anySliceType, NegotiateValue, …)
	c05bPartial(pkgs["cypher/models/pgsql"], "cypher/models/pgsql", &partial)
	emit := func(name, doc string, sites []c05bSite) {
		sort.SliceStable(sites, func(i, j int) bool {
			if sites[i].file != sites[j].file {
				return sites[i].file < sites[j].file
			}
			return sites[i].line < sites[j].line
		})
		fmt.Fprintf(w, "/-- %s: (file, line, function, kind, expression, classification) -/\ndef %s : List (String × Nat × String × String × String × String) := [\n", doc, name)
		for i, s := range sites {
			sep := ","
			if i == len(sites)-1 {
				sep = ""
			}
			fmt.Fprintf(w, "  (%s, %d, %s, %s, %s, %s)%s\n", leanStr(s.file), s.line, leanStr(s.fn), leanStr(s.kind), leanStr(s.expr), leanStr(s.cls), sep)
		}
		w.WriteString("]\n\n")
	}
	emit("nondetSources", "constructs other than map iteration that make a sequential Go program depend on more than its inputs", nondet)
	emit("inputWrites", "writes into cypher model values, into map[string]any values, reflective setters, and kind mapper calls in translate/, format/, pgsql/", writes)
	emit("mapFieldFlows", "where every struct field of type map[string]any gets its map from (kind = Type.field, classification = fresh / output / other)", flows)
	// the partial-operation table is large: keep the unguarded sites and the per-class counts in Lean, everything in the side file
	var unguarded []c05bSite
	counts := map[string]int{}
	for _, s := range partial {
		counts[s.kind+":"+s.cls]++
		if s.cls == "unguarded" {
			unguarded = append(unguarded, s)
		}
	}
	var pgsqlSites []c05bSite
	for _, s := range partial {
		if strings.HasPrefix(s.file, "pgsql/") {
			pgsqlSites = append(pgsqlSites, s)
		}
	}
	emit("pgsqlPartialSites", "every partial operation of package pgsql (where parameter VALUES are inspected) with its guard class", pgsqlSites)
	emit("unguardedPartialSites", "single-value type assertions, slice indexes and slice expressions in translate/ without a recognisable guard", unguarded)
	w.WriteString("/-- all partial operations of translate/ by kind and guard class -/\ndef partialSiteCounts : List (String × Nat) := [")
	for i, k := range sortedKeys(counts) {
		if i > 0 {
			w.WriteString(", ")
		}
		fmt.Fprintf(w, "(%s, %d)", leanStr(k), counts[k])
	}
	w.WriteString("]\n\n")
}
