package main

import (
	"fmt"
	"go/ast"
	"go/token"
	"go/types"
	"path/filepath"
	"sort"
	"strings"
)

// c05: facts behind "translation is deterministic and side-effect free":
//   - every `range` over a MAP (by type) in translate/, optimize/, format/, drivers/pg/pgutil (scope 0) and in the
//     supporting packages cypher/models/pgsql, cypher/models/cypher, cypher/models/walk (scope 1), classified by what
//     the loop body does with the elements;
//   - NewTranslator copies the caller's parameter map and nothing writes to the copy's source;
//   - Optimize touches its argument only through cypher.Copy, Translate only through Optimize;
//   - shape of walk.Generic (loop condition, error check after every callback, one push per NextBranch);
//   - lock table of pgutil.InMemoryKindMapper.
func init() { modes["c05"] = c05Facts }

var c05Classes = []string{"map-insert", "set-insert", "sorted-before-use", "lookup-only", "commutative-fold", "first-match", "insert-or-error", "callback-unused", "order-sensitive"}

const (
	clMapInsert = iota
	clSetInsert
	clSorted
	clLookup
	clFold
	clFirstMatch
	clInsertOrError
	clCallbackUnused
	clOrderSensitive
)

type rangeSite struct {
	file  string
	line  int
	fn    string
	expr  string
	cls   int
	scope int
	note  string
}

type effect struct {
	kind   string // insert-map insert-set append fold flag break const-return value-return err-return callback unknown
	target string
}

type c05Ctx struct {
	pkg     *Pkg
	decls   map[*types.Func]*ast.FuncDecl
	callers map[string]int // funcName -> number of call sites in the loaded packages
	depth   int
}

func (c *c05Ctx) typeOf(e ast.Expr) types.Type {
	if tv, ok := c.pkg.Info.Types[e]; ok {
		return tv.Type
	}
	return nil
}

func isMap(t types.Type) bool {
	if t == nil {
		return false
	}
	_, ok := t.Underlying().(*types.Map)
	return ok
}

func isEmptyStruct(t types.Type) bool {
	if t == nil {
		return false
	}
	s, ok := t.Underlying().(*types.Struct)
	return ok && s.NumFields() == 0
}

func isConstExpr(e ast.Expr) bool {
	switch x := e.(type) {
	case *ast.BasicLit:
		return true
	case *ast.Ident:
		return x.Name == "true" || x.Name == "false" || x.Name == "nil"
	case *ast.CompositeLit:
		return len(x.Elts) == 0
	}
	return false
}

func mentions(n ast.Node, name string) bool {
	found := false
	ast.Inspect(n, func(x ast.Node) bool {
		if id, ok := x.(*ast.Ident); ok && id.Name == name {
			found = true
		}
		return !found
	})
	return found
}

var setMethods = map[string]bool{"Add": true, "CheckedAdd": true, "Remove": true, "AddIdentifier": true, "AddCompoundIdentifier": true,
	"AddTable": true, "MergeSet": true, "RemoveSet": true, "Insert": true, "Delete": true}

func (c *c05Ctx) stmtEffects(stmts []ast.Stmt, loopVars map[string]bool, out *[]effect) {
	for _, st := range stmts {
		c.stmtEffect(st, loopVars, out)
	}
}

// callbackCalls reports calls of function VALUES (parameters, variables) inside an expression.
func (c *c05Ctx) callbackCalls(e ast.Node, out *[]effect) {
	if e == nil {
		return
	}
	ast.Inspect(e, func(n ast.Node) bool {
		if _, isLit := n.(*ast.FuncLit); isLit {
			return false
		}
		if call, ok := n.(*ast.CallExpr); ok {
			if id, ok := call.Fun.(*ast.Ident); ok {
				if _, isVar := c.pkg.Info.Uses[id].(*types.Var); isVar {
					*out = append(*out, effect{"callback", id.Name})
				}
			}
		}
		return true
	})
}

func (c *c05Ctx) stmtEffect(st ast.Stmt, loopVars map[string]bool, out *[]effect) {
	add := func(k, t string) { *out = append(*out, effect{k, t}) }
	switch s := st.(type) {
	case *ast.IfStmt:
		c.callbackCalls(s.Cond, out)
	case *ast.SwitchStmt:
		c.callbackCalls(s.Tag, out)
	case *ast.ReturnStmt:
		for _, r := range s.Results {
			c.callbackCalls(r, out)
		}
	case *ast.AssignStmt:
		for _, r := range s.Rhs {
			c.callbackCalls(r, out)
		}
	}
	switch s := st.(type) {
	case nil:
	case *ast.EmptyStmt, *ast.DeclStmt:
	case *ast.BlockStmt:
		c.stmtEffects(s.List, loopVars, out)
	case *ast.BranchStmt:
		if s.Tok == token.BREAK {
			add("break", "")
		} else if s.Tok != token.CONTINUE {
			add("unknown", "branch")
		}
	case *ast.IncDecStmt:
		add("fold", types.ExprString(s.X))
	case *ast.ReturnStmt:
		allConst, isErr := true, false
		for _, r := range s.Results {
			if !isConstExpr(r) {
				allConst = false
			}
			if call, ok := r.(*ast.CallExpr); ok {
				if n := types.ExprString(call.Fun); n == "fmt.Errorf" || n == "errors.New" {
					isErr = true
				}
			}
		}
		switch {
		case allConst:
			add("const-return", "")
		case isErr:
			add("err-return", "")
		default:
			add("value-return", "")
		}
	case *ast.IfStmt:
		// max/min fold: if e > acc { acc = e }
		if be, ok := s.Cond.(*ast.BinaryExpr); ok && s.Else == nil && len(s.Body.List) == 1 {
			if as, ok := s.Body.List[0].(*ast.AssignStmt); ok && as.Tok == token.ASSIGN && len(as.Lhs) == 1 {
				if id, ok := as.Lhs[0].(*ast.Ident); ok && (be.Op == token.GTR || be.Op == token.LSS || be.Op == token.GEQ || be.Op == token.LEQ) &&
					(types.ExprString(be.X) == id.Name || types.ExprString(be.Y) == id.Name) &&
					(types.ExprString(as.Rhs[0]) == types.ExprString(be.X) || types.ExprString(as.Rhs[0]) == types.ExprString(be.Y)) {
					if s.Init != nil {
						c.stmtEffect(s.Init, loopVars, out)
					}
					add("fold", id.Name)
					return
				}
			}
		}
		if s.Init != nil {
			c.stmtEffect(s.Init, loopVars, out)
		}
		c.stmtEffects(s.Body.List, loopVars, out)
		if s.Else != nil {
			c.stmtEffect(s.Else, loopVars, out)
		}
	case *ast.SwitchStmt:
		if s.Init != nil {
			c.stmtEffect(s.Init, loopVars, out)
		}
		for _, cc := range s.Body.List {
			c.stmtEffects(cc.(*ast.CaseClause).Body, loopVars, out)
		}
	case *ast.TypeSwitchStmt:
		for _, cc := range s.Body.List {
			c.stmtEffects(cc.(*ast.CaseClause).Body, loopVars, out)
		}
	case *ast.ForStmt:
		c.stmtEffects(s.Body.List, loopVars, out)
	case *ast.RangeStmt:
		inner := map[string]bool{}
		for k := range loopVars {
			inner[k] = true
		}
		c.stmtEffects(s.Body.List, inner, out)
	case *ast.AssignStmt:
		if s.Tok == token.DEFINE {
			return // loop-local definitions
		}
		if s.Tok == token.ADD_ASSIGN || s.Tok == token.SUB_ASSIGN || s.Tok == token.OR_ASSIGN || s.Tok == token.AND_ASSIGN {
			add("fold", types.ExprString(s.Lhs[0]))
			return
		}
		for i, lhs := range s.Lhs {
			var rhs ast.Expr
			if len(s.Rhs) == len(s.Lhs) {
				rhs = s.Rhs[i]
			} else if len(s.Rhs) == 1 {
				rhs = s.Rhs[0]
			}
			switch l := lhs.(type) {
			case *ast.IndexExpr:
				bt := c.typeOf(l.X)
				switch {
				case isMap(bt):
					if isEmptyStruct(bt.Underlying().(*types.Map).Elem()) {
						add("insert-set", types.ExprString(l.X))
					} else {
						add("insert-map", types.ExprString(l.X))
					}
				default:
					// element write into a slice that hangs off the loop's own entry touches only that entry
					own := false
					for v := range loopVars {
						if mentions(l.X, v) {
							own = true
						}
					}
					if own {
						add("insert-map", types.ExprString(l.X))
					} else {
						add("unknown", "index-assign:"+types.ExprString(l.X))
					}
				}
			case *ast.Ident:
				if l.Name == "_" {
					continue
				}
				if call, ok := rhs.(*ast.CallExpr); ok && types.ExprString(call.Fun) == "append" && len(call.Args) > 0 && types.ExprString(call.Args[0]) == l.Name {
					add("append", l.Name)
				} else if rhs != nil && isConstExpr(rhs) {
					add("flag", l.Name)
				} else {
					add("unknown", "assign:"+l.Name)
				}
			case *ast.SelectorExpr:
				name := types.ExprString(l)
				if call, ok := rhs.(*ast.CallExpr); ok && types.ExprString(call.Fun) == "append" && len(call.Args) > 0 && types.ExprString(call.Args[0]) == name {
					add("append", name)
				} else {
					own := false
					for v := range loopVars {
						if mentions(l.X, v) {
							own = true
						}
					}
					if own {
						add("insert-map", name)
					} else if rhs != nil && isConstExpr(rhs) {
						add("flag", name)
					} else {
						add("unknown", "assign:"+name)
					}
				}
			default:
				add("unknown", "assign")
			}
		}
	case *ast.ExprStmt:
		call, ok := s.X.(*ast.CallExpr)
		if !ok {
			add("unknown", "expr")
			return
		}
		switch fun := call.Fun.(type) {
		case *ast.Ident:
			if fun.Name == "delete" {
				add("insert-map", types.ExprString(call.Args[0]))
				return
			}
			switch obj := c.pkg.Info.Uses[fun].(type) {
			case *types.Func:
				if c.keyedUpdateHelper(obj) {
					add("insert-map", "via "+fun.Name)
				} else {
					add("unknown", "call:"+fun.Name)
				}
			case *types.Var:
				add("callback", fun.Name)
			default:
				add("unknown", "call:"+fun.Name)
			}
		case *ast.SelectorExpr:
			if sel, ok := c.pkg.Info.Selections[fun]; ok && sel.Kind() == types.MethodVal {
				if setMethods[fun.Sel.Name] {
					add("insert-set", types.ExprString(fun.X))
				} else {
					add("unknown", "method:"+fun.Sel.Name)
				}
			} else {
				add("unknown", "call:"+types.ExprString(fun))
			}
		default:
			add("unknown", "call")
		}
	default:
		add("unknown", fmt.Sprintf("%T", st))
	}
}

// keyedUpdateHelper: a package function whose whole body only inserts into / updates maps (its out-parameters).
func (c *c05Ctx) keyedUpdateHelper(fn *types.Func) bool {
	fd, ok := c.decls[fn]
	if !ok || fd.Body == nil || c.depth > 3 {
		return false
	}
	c.depth++
	defer func() { c.depth-- }()
	var effs []effect
	c.stmtEffects(fd.Body.List, map[string]bool{}, &effs)
	if len(effs) == 0 {
		return false
	}
	for _, e := range effs {
		if e.kind != "insert-map" && e.kind != "insert-set" {
			return false
		}
	}
	return true
}

// comparatorTotal: the less / compare function literal orders the ELEMENTS THEMSELVES: its last statement returns
// `xs[i] < xs[j]` (or `>`), `a < b`, `cmp.Compare(a, b)` or `strings.Compare(a, b)` on the two parameters directly —
// possibly after `if a.k != b.k { return a.k < b.k }` guards (lexicographic with a final tie-break on the element).
// Anything else (a key FUNCTION of the element such as strings.ToLower(x), a field) is not a total order on the
// elements: ties keep whatever order the slice had, which for a slice filled from a map range is random.
func comparatorTotal(sorted string, fn ast.Expr) (bool, string) {
	lit, ok := fn.(*ast.FuncLit)
	if !ok || len(lit.Body.List) == 0 || lit.Type.Params == nil {
		return false, types.ExprString(fn)
	}
	var params []string
	for _, f := range lit.Type.Params.List {
		for _, n := range f.Names {
			params = append(params, n.Name)
		}
	}
	ret, ok := lit.Body.List[len(lit.Body.List)-1].(*ast.ReturnStmt)
	if !ok || len(ret.Results) != 1 || len(params) != 2 {
		return false, "no final return"
	}
	text := types.ExprString(ret.Results[0])
	isElem := func(e ast.Expr, p string) bool {
		switch x := e.(type) {
		case *ast.Ident:
			return x.Name == p
		case *ast.IndexExpr:
			return types.ExprString(x.X) == sorted && types.ExprString(x.Index) == p
		}
		return false
	}
	switch r := ret.Results[0].(type) {
	case *ast.BinaryExpr:
		if r.Op == token.LSS || r.Op == token.GTR {
			if (isElem(r.X, params[0]) && isElem(r.Y, params[1])) || (isElem(r.X, params[1]) && isElem(r.Y, params[0])) {
				return true, text
			}
		}
	case *ast.CallExpr:
		if f := types.ExprString(r.Fun); (f == "cmp.Compare" || f == "strings.Compare") && len(r.Args) == 2 {
			if (isElem(r.Args[0], params[0]) && isElem(r.Args[1], params[1])) || (isElem(r.Args[0], params[1]) && isElem(r.Args[1], params[0])) {
				return true, text
			}
		}
	}
	return false, text
}

var naturalSorts = map[string]bool{"sort.Strings": true, "sort.Ints": true, "sort.Float64s": true, "slices.Sort": true}
var comparatorSorts = map[string]bool{"sort.Slice": true, "sort.SliceStable": true, "slices.SortFunc": true, "slices.SortStableFunc": true}

// isSortCall: the statement sorts `target` by a total order on its elements.
func isSortCall(st ast.Stmt, target string) bool {
	es, ok := st.(*ast.ExprStmt)
	if !ok {
		return false
	}
	call, ok := es.X.(*ast.CallExpr)
	if !ok || len(call.Args) == 0 || types.ExprString(call.Args[0]) != target {
		return false
	}
	name := types.ExprString(call.Fun)
	if naturalSorts[name] {
		return true
	}
	if comparatorSorts[name] && len(call.Args) == 2 {
		total, _ := comparatorTotal(target, call.Args[1])
		return total
	}
	return false
}

// c05Sorts lists every sort with a caller-supplied order in the package.
func c05Sorts(p *Pkg, rel string, out *[]rangeSite) {
	for _, f := range p.Files {
		fname := filepath.Base(p.Fset.Position(f.Pos()).Filename)
		for _, d := range f.Decls {
			fd, ok := d.(*ast.FuncDecl)
			if !ok || fd.Body == nil {
				continue
			}
			ast.Inspect(fd.Body, func(n ast.Node) bool {
				call, ok := n.(*ast.CallExpr)
				if !ok {
					return true
				}
				name := types.ExprString(call.Fun)
				switch {
				case comparatorSorts[name] && len(call.Args) == 2:
					total, text := comparatorTotal(types.ExprString(call.Args[0]), call.Args[1])
					cls := 1
					if total {
						cls = 0
					}
					*out = append(*out, rangeSite{file: rel[strings.LastIndex(rel, "/")+1:] + "/" + fname, line: p.Fset.Position(call.Pos()).Line,
						fn: funcName(fd), expr: name + "(" + types.ExprString(call.Args[0]) + ")", cls: cls, note: text})
				case name == "sort.Sort" || name == "sort.Stable":
					*out = append(*out, rangeSite{file: rel[strings.LastIndex(rel, "/")+1:] + "/" + fname, line: p.Fset.Position(call.Pos()).Line,
						fn: funcName(fd), expr: name + "(" + types.ExprString(call.Args[0]) + ")", cls: 1, note: "sort.Interface implementation"})
				}
				return true
			})
		}
	}
}

func (c *c05Ctx) classify(rs *ast.RangeStmt, after []ast.Stmt, fn string) (int, string) {
	loopVars := map[string]bool{}
	for _, e := range []ast.Expr{rs.Key, rs.Value} {
		if id, ok := e.(*ast.Ident); ok && id.Name != "_" {
			loopVars[id.Name] = true
		}
	}
	var effs []effect
	c.stmtEffects(rs.Body.List, loopVars, &effs)
	has := map[string][]string{}
	for _, e := range effs {
		has[e.kind] = append(has[e.kind], e.target)
	}
	if u := has["unknown"]; len(u) > 0 {
		return clOrderSensitive, "unclassified effect: " + strings.Join(u, ",")
	}
	if cb := has["callback"]; len(cb) > 0 {
		if c.callers[fn] == 0 {
			return clCallbackUnused, "callback " + cb[0] + " (function has no callers)"
		}
		return clOrderSensitive, "calls back " + cb[0] + " per element"
	}
	if ap := has["append"]; len(ap) > 0 {
		for _, t := range ap {
			sorted := false
			for _, st := range after {
				if isSortCall(st, t) {
					sorted = true
					break
				}
				if mentions(st, strings.Split(t, ".")[0]) {
					break
				}
			}
			if !sorted {
				return clOrderSensitive, "appends to " + t + " without sorting before use"
			}
		}
		if len(has["value-return"])+len(has["err-return"])+len(has["break"])+len(has["const-return"]) > 0 {
			return clOrderSensitive, "append with early exit"
		}
		return clSorted, "sorted: " + strings.Join(ap, ",")
	}
	inserts := len(has["insert-map"]) + len(has["insert-set"])
	if len(has["value-return"]) > 0 {
		return clFirstMatch, "returns an element-dependent value"
	}
	if len(has["err-return"]) > 0 {
		return clInsertOrError, "returns an error naming the first offending key"
	}
	if len(has["break"])+len(has["const-return"]) > 0 {
		if inserts > 0 {
			return clFirstMatch, "insert then break"
		}
		return clLookup, "existential/universal test"
	}
	if inserts > 0 {
		if len(has["insert-map"]) == 0 {
			return clSetInsert, ""
		}
		return clMapInsert, ""
	}
	if len(has["fold"]) > 0 {
		return clFold, strings.Join(has["fold"], ",")
	}
	return clLookup, "no effect"
}

// walkBlocks calls f for every statement list in a function body (blocks, case clauses).
func walkBlocks(n ast.Node, f func(list []ast.Stmt)) {
	ast.Inspect(n, func(x ast.Node) bool {
		switch b := x.(type) {
		case *ast.BlockStmt:
			f(b.List)
		case *ast.CaseClause:
			f(b.Body)
		case *ast.CommClause:
			f(b.Body)
		}
		return true
	})
}

func c05Facts(repo string, w *strings.Builder) error {
	l := newLoader(repo)
	type spec struct {
		rel   string
		scope int
	}
	specs := []spec{
		{"cypher/models/pgsql/translate", 0}, {"cypher/models/pgsql/optimize", 0}, {"cypher/models/pgsql/format", 0}, {"drivers/pg/pgutil", 0},
		{"cypher/models/pgsql", 1}, {"cypher/models/cypher", 1}, {"cypher/models/walk", 1},
	}
	pkgs := map[string]*Pkg{}
	callers := map[string]int{}
	for _, s := range specs {
		p, err := l.load(s.rel)
		if err != nil {
			return err
		}
		pkgs[s.rel] = p
		for _, f := range p.Files {
			ast.Inspect(f, func(n ast.Node) bool {
				if call, ok := n.(*ast.CallExpr); ok {
					switch fun := call.Fun.(type) {
					case *ast.Ident:
						callers[fun.Name]++
					case *ast.SelectorExpr:
						callers[fun.Sel.Name]++
					}
				}
				return true
			})
		}
	}
	var sites []rangeSite
	nRanges := 0
	for _, s := range specs {
		p := pkgs[s.rel]
		ctx := &c05Ctx{pkg: p, decls: map[*types.Func]*ast.FuncDecl{}, callers: map[string]int{}}
		for _, f := range p.Files {
			for _, d := range f.Decls {
				if fd, ok := d.(*ast.FuncDecl); ok {
					if obj, ok := p.Info.Defs[fd.Name].(*types.Func); ok {
						ctx.decls[obj] = fd
					}
				}
			}
		}
		for _, f := range p.Files {
			fname := filepath.Base(p.Fset.Position(f.Pos()).Filename)
			for _, d := range f.Decls {
				fd, ok := d.(*ast.FuncDecl)
				if !ok || fd.Body == nil {
					continue
				}
				name := funcName(fd)
				ctx.callers[name] = callers[fd.Name.Name]
				walkBlocks(fd.Body, func(list []ast.Stmt) {
					for i, st := range list {
						rs, ok := st.(*ast.RangeStmt)
						if !ok {
							continue
						}
						nRanges++
						if !isMap(ctx.typeOf(rs.X)) {
							continue
						}
						cls, note := ctx.classify(rs, list[i+1:], name)
						sites = append(sites, rangeSite{file: s.rel[strings.LastIndex(s.rel, "/")+1:] + "/" + fname, line: p.Fset.Position(rs.Pos()).Line,
							fn: name, expr: types.ExprString(rs.X), cls: cls, scope: s.scope, note: note})
					}
				})
			}
		}
	}
	sort.Slice(sites, func(i, j int) bool {
		if sites[i].scope != sites[j].scope {
			return sites[i].scope < sites[j].scope
		}
		if sites[i].file != sites[j].file {
			return sites[i].file < sites[j].file
		}
		return sites[i].line < sites[j].line
	})
	if nRanges < 100 || len(sites) < 10 {
		return fmt.Errorf("only %d range statements / %d map ranges found: extractor out of date", nRanges, len(sites))
	}
	w.WriteString("-- GENERATED by tools/extract/gotyped c05 (go/types) — do not edit\n")
	w.WriteString("namespace Dawgs.Generated.C05\n\n")
	w.WriteString("def classNames : List String := " + leanStrList(c05Classes) + "\n")
	fmt.Fprintf(w, "def rangeStatementsSeen : Nat := %d\n", nRanges)
	w.WriteString("structure RangeSite where\n  file : String\n  line : Nat\n  fn : String\n  expr : String\n  cls : Nat\n  scope : Nat\n  note : String\nderiving Repr, DecidableEq\n\n")
	w.WriteString("/-- every `range` over a map; scope 0 = translate, optimize, format, pgutil; 1 = supporting packages -/\n")
	w.WriteString("def ranges : List RangeSite := [\n")
	for i, s := range sites {
		sep := ","
		if i == len(sites)-1 {
			sep = ""
		}
		fmt.Fprintf(w, "  ⟨%s, %d, %s, %s, %d, %d, %s⟩%s\n", leanStr(s.file), s.line, leanStr(s.fn), leanStr(s.expr), s.cls, s.scope, leanStr(s.note), sep)
	}
	w.WriteString("]\n\n")
	var sorts []rangeSite
	for _, sp := range specs {
		c05Sorts(pkgs[sp.rel], sp.rel, &sorts)
	}
	w.WriteString("/-- every sort with a caller-supplied order (sort.Slice, sort.SliceStable, slices.SortFunc, slices.SortStableFunc, sort.Sort, sort.Stable):\n(file, line, function, call, final comparison, 0 = total order on the elements themselves / 1 = not recognised as one) -/\n")
	w.WriteString("def sortComparators : List (String × Nat × String × String × String × Nat) := [\n")
	for i, st := range sorts {
		sep := ","
		if i == len(sorts)-1 {
			sep = ""
		}
		fmt.Fprintf(w, "  (%s, %d, %s, %s, %s, %d)%s\n", leanStr(st.file), st.line, leanStr(st.fn), leanStr(st.expr), leanStr(st.note), st.cls, sep)
	}
	w.WriteString("]\n\n")
	if err := c05Translator(pkgs["cypher/models/pgsql/translate"], w); err != nil {
		return err
	}
	if err := c05Optimize(pkgs["cypher/models/pgsql/optimize"], w); err != nil {
		return err
	}
	if err := c05Walk(pkgs["cypher/models/walk"], w); err != nil {
		return err
	}
	if err := c05KindMapper(pkgs["drivers/pg/pgutil"], w); err != nil {
		return err
	}
	c05bWrite(w, pkgs)
	c05cWrite(w, pkgs)
	w.WriteString("\nend Dawgs.Generated.C05\n")
	return nil
}

func findFunc(p *Pkg, recv, name string) *ast.FuncDecl {
	for _, f := range p.Files {
		for _, d := range f.Decls {
			if fd, ok := d.(*ast.FuncDecl); ok && fd.Name.Name == name && recvName(fd) == recv && fd.Body != nil {
				return fd
			}
		}
	}
	return nil
}

// paramUses classifies every use of a function parameter inside its function.
func paramUses(p *Pkg, fd *ast.FuncDecl, param string) (obj types.Object, kinds []string) {
	for _, f := range fd.Type.Params.List {
		for _, n := range f.Names {
			if n.Name == param {
				obj = p.Info.Defs[n]
			}
		}
	}
	if obj == nil {
		return nil, nil
	}
	var stack []ast.Node
	ast.Inspect(fd.Body, func(n ast.Node) bool {
		if n == nil {
			stack = stack[:len(stack)-1]
			return true
		}
		stack = append(stack, n)
		id, ok := n.(*ast.Ident)
		if !ok || p.Info.Uses[id] != obj {
			return true
		}
		kind := "other"
		if len(stack) >= 2 {
			switch par := stack[len(stack)-2].(type) {
			case *ast.BinaryExpr:
				if (par.Op == token.EQL || par.Op == token.NEQ) && (isConstExpr(par.X) || isConstExpr(par.Y)) {
					kind = "nil-compare"
				}
			case *ast.AssignStmt:
				for i, lhs := range par.Lhs {
					if lhs == ast.Expr(id) && i < len(par.Rhs) {
						if cl, ok := par.Rhs[i].(*ast.CompositeLit); ok && len(cl.Elts) == 0 {
							kind = "reassign-empty"
						}
					}
				}
			case *ast.RangeStmt:
				if par.X == ast.Expr(id) {
					kind = "range"
				}
			case *ast.CallExpr:
				switch types.ExprString(par.Fun) {
				case "len":
					kind = "len"
				default:
					kind = "arg:" + types.ExprString(par.Fun)
				}
			}
		}
		kinds = append(kinds, kind)
		return true
	})
	return obj, kinds
}

func c05Translator(p *Pkg, w *strings.Builder) error {
	fd := findFunc(p, "", "NewTranslator")
	if fd == nil {
		return fmt.Errorf("translate.NewTranslator not found")
	}
	_, uses := paramUses(p, fd, "parameters")
	usesOK := len(uses) > 0
	for _, u := range uses {
		if u != "nil-compare" && u != "reassign-empty" && u != "range" && u != "len" {
			usesOK = false
		}
	}
	// the copy loop: for key, value := range parameters { inputParameters[key] = value }
	copyLoop, copyName := false, ""
	ast.Inspect(fd.Body, func(n ast.Node) bool {
		rs, ok := n.(*ast.RangeStmt)
		if !ok || types.ExprString(rs.X) != "parameters" || len(rs.Body.List) != 1 {
			return true
		}
		if as, ok := rs.Body.List[0].(*ast.AssignStmt); ok && len(as.Lhs) == 1 && len(as.Rhs) == 1 {
			if ix, ok := as.Lhs[0].(*ast.IndexExpr); ok && types.ExprString(ix.Index) == types.ExprString(rs.Key) && types.ExprString(as.Rhs[0]) == types.ExprString(rs.Value) {
				copyLoop, copyName = true, types.ExprString(ix.X)
			}
		}
		return true
	})
	stored := false
	ast.Inspect(fd.Body, func(n ast.Node) bool {
		if kv, ok := n.(*ast.KeyValueExpr); ok && types.ExprString(kv.Key) == "parameters" && types.ExprString(kv.Value) == copyName {
			stored = true
		}
		return true
	})
	// writes through Translator.parameters anywhere in the package
	var writes []string
	for _, f := range p.Files {
		ast.Inspect(f, func(n ast.Node) bool {
			check := func(e ast.Expr, pos token.Pos) {
				if ix, ok := e.(*ast.IndexExpr); ok {
					if sel, ok := ix.X.(*ast.SelectorExpr); ok && sel.Sel.Name == "parameters" {
						writes = append(writes, fmt.Sprintf("%s:%d", filepath.Base(p.Fset.Position(pos).Filename), p.Fset.Position(pos).Line))
					}
				}
			}
			switch x := n.(type) {
			case *ast.AssignStmt:
				for _, lhs := range x.Lhs {
					check(lhs, x.Pos())
				}
			case *ast.CallExpr:
				if types.ExprString(x.Fun) == "delete" && len(x.Args) > 0 {
					if sel, ok := x.Args[0].(*ast.SelectorExpr); ok && sel.Sel.Name == "parameters" {
						writes = append(writes, fmt.Sprintf("%s:%d", filepath.Base(p.Fset.Position(x.Pos()).Filename), p.Fset.Position(x.Pos()).Line))
					}
				}
			}
			return true
		})
	}
	fmt.Fprintf(w, "/-- NewTranslator: the caller's `parameters` is only nil-checked, measured and ranged over; the loop copies it entry by entry into a fresh map that is what the Translator keeps -/\n")
	fmt.Fprintf(w, "def newTranslatorParameterUses : List String := %s\n", leanStrList(uses))
	fmt.Fprintf(w, "def newTranslatorUsesParametersReadOnly : Bool := %v\n", usesOK)
	fmt.Fprintf(w, "def newTranslatorCopiesParameters : Bool := %v\n", copyLoop && stored)
	fmt.Fprintf(w, "/-- assignments / deletes through a field named `parameters` in package translate -/\n")
	fmt.Fprintf(w, "def translatorParameterWrites : List String := %s\n", leanStrList(writes))

	tr := findFunc(p, "", "Translate")
	if tr == nil {
		return fmt.Errorf("translate.Translate not found")
	}
	_, quses := paramUses(p, tr, "cypherQuery")
	fmt.Fprintf(w, "/-- Translate: every use of the caller's query -/\n")
	fmt.Fprintf(w, "def translateQueryUses : List String := %s\n\n", leanStrList(quses))
	return nil
}

func c05Optimize(p *Pkg, w *strings.Builder) error {
	fd := findFunc(p, "Optimizer", "Optimize")
	if fd == nil {
		return fmt.Errorf("optimize.Optimizer.Optimize not found")
	}
	_, uses := paramUses(p, fd, "query")
	fmt.Fprintf(w, "/-- Optimizer.Optimize: every use of the caller's query (must be the nil check and cypher.Copy only) -/\n")
	fmt.Fprintf(w, "def optimizeQueryUses : List String := %s\n\n", leanStrList(uses))
	return nil
}

func c05Walk(p *Pkg, w *strings.Builder) error {
	fd := findFunc(p, "", "Generic")
	if fd == nil {
		return fmt.Errorf("walk.Generic not found")
	}
	loopCond := ""
	callbacks, checked, pushes, pops, nextBranch := 0, 0, 0, 0, 0
	isErrCheck := func(st ast.Stmt) bool {
		is, ok := st.(*ast.IfStmt)
		if !ok || is.Init == nil || len(is.Body.List) != 1 {
			return false
		}
		as, ok := is.Init.(*ast.AssignStmt)
		if !ok || len(as.Rhs) != 1 || types.ExprString(as.Rhs[0]) != "visitor.Error()" {
			return false
		}
		rs, ok := is.Body.List[0].(*ast.ReturnStmt)
		return ok && len(rs.Results) == 1 && types.ExprString(rs.Results[0]) == "err"
	}
	ast.Inspect(fd.Body, func(n ast.Node) bool {
		if fs, ok := n.(*ast.ForStmt); ok && loopCond == "" && fs.Cond != nil {
			loopCond = types.ExprString(fs.Cond)
		}
		return true
	})
	walkBlocks(fd.Body, func(list []ast.Stmt) {
		for i, st := range list {
			if es, ok := st.(*ast.ExprStmt); ok {
				if call, ok := es.X.(*ast.CallExpr); ok {
					switch types.ExprString(call.Fun) {
					case "visitor.Enter", "visitor.Visit", "visitor.Exit":
						callbacks++
						if i+1 < len(list) && isErrCheck(list[i+1]) {
							checked++
						}
					}
				}
			}
			if as, ok := st.(*ast.AssignStmt); ok && len(as.Lhs) == 1 && types.ExprString(as.Lhs[0]) == "stack" {
				switch r := as.Rhs[0].(type) {
				case *ast.CallExpr:
					if types.ExprString(r.Fun) == "append" {
						pushes++
					}
				case *ast.SliceExpr:
					if types.ExprString(r.High) == "len(stack) - 1" {
						pops++
					}
				}
			}
		}
	})
	ast.Inspect(fd.Body, func(n ast.Node) bool {
		if call, ok := n.(*ast.CallExpr); ok && strings.HasSuffix(types.ExprString(call.Fun), ".NextBranch") {
			nextBranch++
		}
		return true
	})
	advances := false
	if nb := findFunc(p, "Cursor", "NextBranch"); nb != nil {
		ast.Inspect(nb.Body, func(n ast.Node) bool {
			if as, ok := n.(*ast.AssignStmt); ok && as.Tok == token.ADD_ASSIGN && types.ExprString(as.Lhs[0]) == "s.BranchIndex" && types.ExprString(as.Rhs[0]) == "1" {
				advances = true
			}
			return true
		})
	}
	setErrDone := false
	if se := findFunc(p, "cancelableVisitorHandler", "SetError"); se != nil {
		ast.Inspect(se.Body, func(n ast.Node) bool {
			if as, ok := n.(*ast.AssignStmt); ok && types.ExprString(as.Lhs[0]) == "s.done" && types.ExprString(as.Rhs[0]) == "true" {
				setErrDone = true
			}
			return true
		})
	}
	fmt.Fprintf(w, "/-- walk.Generic: loop condition, callbacks and how many of them are immediately followed by `if err := visitor.Error(); err != nil { return err }` -/\n")
	fmt.Fprintf(w, "def genericLoopCondition : String := %s\n", leanStr(loopCond))
	fmt.Fprintf(w, "def genericCallbacks : Nat := %d\ndef genericCallbacksErrorChecked : Nat := %d\n", callbacks, checked)
	fmt.Fprintf(w, "def genericPushes : Nat := %d\ndef genericNextBranchCalls : Nat := %d\ndef genericPops : Nat := %d\n", pushes, nextBranch, pops)
	fmt.Fprintf(w, "def nextBranchAdvancesIndex : Bool := %v\ndef setErrorSetsDone : Bool := %v\n\n", advances, setErrDone)
	return nil
}

func c05KindMapper(p *Pkg, w *strings.Builder) error {
	var st *types.Struct
	if obj := p.Types.Scope().Lookup("InMemoryKindMapper"); obj != nil {
		st, _ = obj.Type().Underlying().(*types.Struct)
	}
	if st == nil {
		return fmt.Errorf("pgutil.InMemoryKindMapper not found")
	}
	shared := map[string]bool{}
	mutexes := map[string]bool{}
	for i := 0; i < st.NumFields(); i++ {
		f := st.Field(i)
		ts := f.Type().String()
		switch {
		case strings.Contains(ts, "sync.Mutex") || strings.Contains(ts, "sync.RWMutex"):
			mutexes[f.Name()] = true
		default:
			shared[f.Name()] = true // maps and the id counter
		}
	}
	type meth struct {
		name                  string
		touches, writes, lock bool
		checks                bool     // an existence check of the kind (comma-ok read of a shared map) precedes the first write in the same body
		calls                 []string // methods of the mapper it calls
	}
	var ms []meth
	for _, f := range p.Files {
		for _, d := range f.Decls {
			fd, ok := d.(*ast.FuncDecl)
			if !ok || recvName(fd) != "InMemoryKindMapper" || fd.Body == nil {
				continue
			}
			recv := ""
			if len(fd.Recv.List[0].Names) > 0 {
				recv = fd.Recv.List[0].Names[0].Name
			}
			m := meth{name: fd.Name.Name}
			isShared := func(e ast.Expr) bool {
				sel, ok := e.(*ast.SelectorExpr)
				if !ok {
					return false
				}
				id, ok := sel.X.(*ast.Ident)
				return ok && id.Name == recv && shared[sel.Sel.Name]
			}
			firstWrite, firstCheck := token.NoPos, token.NoPos
			noteWrite := func(p token.Pos) {
				if firstWrite == token.NoPos || p < firstWrite {
					firstWrite = p
				}
			}
			ast.Inspect(fd.Body, func(n ast.Node) bool {
				switch x := n.(type) {
				case *ast.AssignStmt:
					// `_, ok := s.KindToID[kind]` / `if id, ok := s.KindToID[kind]; ok`
					if len(x.Lhs) == 2 && len(x.Rhs) == 1 {
						if ix, ok := x.Rhs[0].(*ast.IndexExpr); ok && isShared(ix.X) {
							if firstCheck == token.NoPos || x.Pos() < firstCheck {
								firstCheck = x.Pos()
							}
						}
					}
					for _, lhs := range x.Lhs {
						if ix, ok := lhs.(*ast.IndexExpr); ok && isShared(ix.X) {
							noteWrite(x.Pos())
						}
						if isShared(lhs) {
							noteWrite(x.Pos())
						}
					}
				case *ast.IncDecStmt:
					if isShared(x.X) {
						noteWrite(x.Pos())
					}
				case *ast.CallExpr:
					if sel, ok := x.Fun.(*ast.SelectorExpr); ok {
						if id, ok := sel.X.(*ast.Ident); ok && id.Name == recv {
							m.calls = append(m.calls, sel.Sel.Name)
						}
					}
				}
				return true
			})
			m.checks = firstCheck != token.NoPos && firstWrite != token.NoPos && firstCheck < firstWrite
			sort.Strings(m.calls)
			ast.Inspect(fd.Body, func(n ast.Node) bool {
				switch x := n.(type) {
				case *ast.SelectorExpr:
					if isShared(x) {
						m.touches = true
					}
				case *ast.AssignStmt:
					for _, lhs := range x.Lhs {
						if ix, ok := lhs.(*ast.IndexExpr); ok && isShared(ix.X) {
							m.writes = true
						}
						if isShared(lhs) {
							m.writes = true
						}
					}
				case *ast.IncDecStmt:
					if isShared(x.X) {
						m.writes = true
					}
				case *ast.CallExpr:
					if sel, ok := x.Fun.(*ast.SelectorExpr); ok && (sel.Sel.Name == "Lock" || sel.Sel.Name == "RLock") {
						if in, ok := sel.X.(*ast.SelectorExpr); ok {
							if id, ok := in.X.(*ast.Ident); ok && id.Name == recv && mutexes[in.Sel.Name] {
								m.lock = true
							}
						}
					}
				}
				return true
			})
			ms = append(ms, m)
		}
	}
	// AssertKinds returns the ids position-wise: `ids[idx] = s.Put(kind)` with idx, kind ranging over the kinds argument
	positionWise := false
	if fd := findFunc(p, "InMemoryKindMapper", "AssertKinds"); fd != nil {
		ast.Inspect(fd.Body, func(n ast.Node) bool {
			rs, ok := n.(*ast.RangeStmt)
			if !ok || types.ExprString(rs.X) != "kinds" || rs.Key == nil {
				return true
			}
			for _, st := range rs.Body.List {
				if as, ok := st.(*ast.AssignStmt); ok && len(as.Lhs) == 1 && len(as.Rhs) == 1 {
					if ix, ok := as.Lhs[0].(*ast.IndexExpr); ok && types.ExprString(ix.Index) == types.ExprString(rs.Key) {
						if call, ok := as.Rhs[0].(*ast.CallExpr); ok && strings.HasSuffix(types.ExprString(call.Fun), ".Put") {
							positionWise = true
						}
					}
				}
			}
			return true
		})
	}
	sort.Slice(ms, func(i, j int) bool { return ms[i].name < ms[j].name })
	fmt.Fprintf(w, "/-- pgutil.InMemoryKindMapper: per method, whether it touches / writes the shared fields (the two maps and the id counter) directly and whether it takes a lock of the struct -/\n")
	fmt.Fprintf(w, "structure KMMethod where\n  name : String\n  touches : Bool\n  writes : Bool\n  holdsLock : Bool\n  checksBeforeWrite : Bool\n  calls : List String\nderiving Repr, DecidableEq\n")
	fmt.Fprintf(w, "def kindMapperMutexFields : List String := %s\n", leanStrList(sortedKeys(mutexes)))
	fmt.Fprintf(w, "/-- AssertKinds fills its result position-wise (`ids[idx] = s.Put(kinds[idx])`), so the order of the ids is the order of the kinds -/\ndef assertKindsPositionWise : Bool := %v\n", positionWise)
	fmt.Fprintf(w, "def kindMapperSharedFields : List String := %s\n", leanStrList(sortedKeys(shared)))
	w.WriteString("def kindMapperMethods : List KMMethod := [\n")
	for i, m := range ms {
		sep := ","
		if i == len(ms)-1 {
			sep = ""
		}
		fmt.Fprintf(w, "  ⟨%s, %v, %v, %v, %v, %s⟩%s\n", leanStr(m.name), m.touches, m.writes, m.lock, m.checks, leanStrList(m.calls), sep)
	}
	w.WriteString("]\n")
	return nil
}
