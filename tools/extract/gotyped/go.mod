module gotyped

go 1.26.4
