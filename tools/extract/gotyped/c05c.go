package main

import (
	"fmt"
	"go/ast"
	"go/token"
	"go/types"
	"sort"
	"strings"
)

// c05 (third table): STATE SHARED BETWEEN CALLS. "Repeating the call or running many calls concurrently yields the same
// output" needs, besides the absence of schedule-dependent constructs (nondetSources), that no translation can see what
// an earlier or a concurrent translation did: all mutable state must hang off the per-call Translator. The only other
// place a Go program can keep state is a package-level variable. This table lists, for translate/, optimize/, format/,
// pgsql/, cypher/, walk/ (function bodies, function literals in variable initialisers included):
//
//	packageVars       every package-level `var` with the class of its type: scalar (basic, string-like, struct of those),
//	                  error (an errors.New sentinel), ref (contains a map / slice / pointer / chan / func / interface)
//	sharedStateSites  every use of a package-level variable of the module that is not a plain read:
//	                    reassign / element-write / delete / clear / incdec       (kind "write")
//	                    &v                                                        (kind "address-taken")
//	                    method with pointer receiver called on it                 (kind "pointer-method-call")
//	                    a ref-class variable passed to a call, returned, stored   (kind "escapes")
//	                  with the function it occurs in; writes inside `init` are marked (class "init").
const modulePrefix = "github.com/specterops/dawgs/"

func typeClass(t types.Type, depth int) string {
	if depth > 6 {
		return "ref"
	}
	switch u := t.Underlying().(type) {
	case *types.Basic:
		return "scalar"
	case *types.Struct:
		for i := 0; i < u.NumFields(); i++ {
			if typeClass(u.Field(i).Type(), depth+1) != "scalar" {
				return "ref"
			}
		}
		return "scalar"
	case *types.Array:
		return typeClass(u.Elem(), depth+1)
	case *types.Interface:
		if n, ok := t.(*types.Named); ok && n.Obj().Pkg() == nil && n.Obj().Name() == "error" {
			return "error"
		}
		return "ref"
	}
	return "ref"
}

// packageLevelVar: the object is a package-level variable of this module.
func packageLevelVar(p *Pkg, obj types.Object) *types.Var {
	v, ok := obj.(*types.Var)
	if !ok || v.Pkg() == nil || v.IsField() || v.Parent() != v.Pkg().Scope() {
		return nil
	}
	path := v.Pkg().Path()
	if v.Pkg() != p.Types && !strings.HasPrefix(path, modulePrefix) {
		return nil
	}
	return v
}

func varLabel(p *Pkg, v *types.Var) string {
	path := strings.TrimPrefix(v.Pkg().Path(), modulePrefix)
	return path[strings.LastIndex(path, "/")+1:] + "." + v.Name()
}

// globalRoot: the package-level variable an lvalue / operand expression is rooted at (own package: plain identifier;
// other package of the module: pkg.Name).
func globalRoot(p *Pkg, e ast.Expr) *types.Var {
	for {
		switch x := e.(type) {
		case *ast.Ident:
			if obj := p.Info.Uses[x]; obj != nil {
				return packageLevelVar(p, obj)
			}
			return nil
		case *ast.SelectorExpr:
			if id, ok := x.X.(*ast.Ident); ok {
				if _, isPkg := p.Info.Uses[id].(*types.PkgName); isPkg {
					if obj := p.Info.Uses[x.Sel]; obj != nil {
						return packageLevelVar(p, obj)
					}
					return nil
				}
			}
			e = x.X
		case *ast.IndexExpr:
			e = x.X
		case *ast.SliceExpr:
			e = x.X
		case *ast.StarExpr:
			e = x.X
		case *ast.ParenExpr:
			e = x.X
		default:
			return nil
		}
	}
}

func c05cShared(p *Pkg, rel string, vars *[]c05bSite, out *[]c05bSite) {
	for _, file := range p.Files {
		for _, d := range file.Decls {
			gd, ok := d.(*ast.GenDecl)
			if !ok || gd.Tok != token.VAR {
				continue
			}
			for _, sp := range gd.Specs {
				vs := sp.(*ast.ValueSpec)
				for _, n := range vs.Names {
					if n.Name == "_" {
						continue
					}
					if v, ok := p.Info.Defs[n].(*types.Var); ok {
						f, line := c05bPos(p, n.Pos(), rel)
						*vars = append(*vars, c05bSite{file: f, line: line, fn: "-", kind: "package-var", expr: varLabel(p, v) + " " + types.TypeString(v.Type(), func(q *types.Package) string { return q.Name() }), cls: typeClass(v.Type(), 0)})
					}
				}
			}
		}
	}
	scan := func(body ast.Node, fn string) {
		add := func(pos token.Pos, kind, expr, cls string) {
			f, line := c05bPos(p, pos, rel)
			*out = append(*out, c05bSite{file: f, line: line, fn: fn, kind: kind, expr: expr, cls: cls})
		}
		where := "body"
		if fn == "init" {
			where = "init"
		}
		var stack []ast.Node
		ast.Inspect(body, func(n ast.Node) bool {
			if n == nil {
				stack = stack[:len(stack)-1]
				return true
			}
			var parent ast.Node
			if len(stack) > 0 {
				parent = stack[len(stack)-1]
			}
			stack = append(stack, n)
			switch x := n.(type) {
			case *ast.AssignStmt:
				if x.Tok != token.DEFINE {
					for _, lhs := range x.Lhs {
						if v := globalRoot(p, lhs); v != nil {
							add(x.Pos(), "write", types.ExprString(lhs), where)
						}
					}
				}
			case *ast.IncDecStmt:
				if v := globalRoot(p, x.X); v != nil {
					add(x.Pos(), "write", types.ExprString(x.X), where)
				}
			case *ast.RangeStmt:
				// `for g[i] = range …` / `for g = range …`
				if x.Tok == token.ASSIGN {
					for _, lhs := range []ast.Expr{x.Key, x.Value} {
						if lhs != nil {
							if v := globalRoot(p, lhs); v != nil {
								add(x.Pos(), "write", types.ExprString(lhs), where)
							}
						}
					}
				}
			case *ast.UnaryExpr:
				if x.Op == token.AND {
					if v := globalRoot(p, x.X); v != nil {
						add(x.Pos(), "address-taken", types.ExprString(x.X), where)
					}
				}
			case *ast.CallExpr:
				if id, ok := x.Fun.(*ast.Ident); ok && (id.Name == "delete" || id.Name == "clear") && len(x.Args) >= 1 {
					if _, isBuiltin := p.Info.Uses[id].(*types.Builtin); isBuiltin {
						if v := globalRoot(p, x.Args[0]); v != nil {
							add(x.Pos(), "write", id.Name+"("+types.ExprString(x.Args[0])+")", where)
						}
					}
				}
				if sel, ok := x.Fun.(*ast.SelectorExpr); ok {
					if s, ok := p.Info.Selections[sel]; ok && s.Kind() == types.MethodVal {
						if v := globalRoot(p, sel.X); v != nil {
							if m, ok := s.Obj().(*types.Func); ok {
								if sig, ok := m.Type().(*types.Signature); ok && sig.Recv() != nil {
									if _, ptr := sig.Recv().Type().(*types.Pointer); ptr {
										rt := types.TypeString(sig.Recv().Type(), func(q *types.Package) string { return q.Name() })
										add(x.Pos(), "pointer-method-call", varLabel(p, v)+" "+rt+"."+m.Name(), where)
									}
								}
							}
						}
					}
				}
			case *ast.Ident, *ast.SelectorExpr:
				// value uses of ref-class package variables: does the variable itself leave through an alias?
				var v *types.Var
				switch y := x.(type) {
				case *ast.Ident:
					if obj := p.Info.Uses[y]; obj != nil {
						v = packageLevelVar(p, obj)
					}
					if sel, ok := parent.(*ast.SelectorExpr); ok && sel.Sel == y {
						v = nil // reported at the selector
					}
				case *ast.SelectorExpr:
					if id, ok := y.X.(*ast.Ident); ok {
						if _, isPkg := p.Info.Uses[id].(*types.PkgName); isPkg {
							if obj := p.Info.Uses[y.Sel]; obj != nil {
								v = packageLevelVar(p, obj)
							}
						}
					}
				}
				if v == nil || typeClass(v.Type(), 0) != "ref" {
					break
				}
				self := n.(ast.Expr)
				use := ""
				switch q := parent.(type) {
				case *ast.IndexExpr:
					if q.X != self {
						use = "index-operand"
					}
				case *ast.SliceExpr:
					if q.X == self {
						use = "resliced" // shares the backing array
					}
				case *ast.RangeStmt:
					if q.X != self {
						use = "range-target"
					}
				case *ast.SelectorExpr: // field read or method call (pointer receivers reported above)
				case *ast.BinaryExpr: // comparison
				case *ast.CallExpr:
					if id, ok := q.Fun.(*ast.Ident); ok {
						if _, isBuiltin := p.Info.Uses[id].(*types.Builtin); isBuiltin && (id.Name == "len" || id.Name == "cap") {
							break
						}
					}
					if q.Fun == self {
						break // calling a function-typed variable
					}
					use = "arg:" + types.ExprString(q.Fun)
					// a function of the same package that only ranges over / measures the parameter it receives it in
					if fid, ok := q.Fun.(*ast.Ident); ok {
						if _, isFunc := p.Info.Uses[fid].(*types.Func); isFunc {
							if callee := findFunc(p, "", fid.Name); callee != nil {
								argIdx := -1
								for i, a := range q.Args {
									if a == self {
										argIdx = i
									}
								}
								var names []string
								for _, f := range callee.Type.Params.List {
									for _, pn := range f.Names {
										names = append(names, pn.Name)
									}
								}
								_, variadic := callee.Type.Params.List[len(callee.Type.Params.List)-1].Type.(*ast.Ellipsis)
								if argIdx >= 0 && argIdx < len(names) && !variadic {
									if _, kinds := paramUses(p, callee, names[argIdx]); len(kinds) > 0 {
										readOnly := true
										for _, k := range kinds {
											if k != "range" && k != "len" && k != "nil-compare" {
												readOnly = false
											}
										}
										if readOnly {
											use = "arg-read-only:" + fid.Name
										}
									}
								}
							}
						}
					}
				case *ast.AssignStmt:
					isLHS := false
					for _, l := range q.Lhs {
						if l == self {
							isLHS = true
						}
					}
					if !isLHS {
						use = "assigned-to:" + types.ExprString(q.Lhs[0])
					}
				case *ast.ReturnStmt:
					use = "returned"
				case *ast.ValueSpec:
					use = "assigned-to:" + q.Names[0].Name
				case *ast.CompositeLit, *ast.KeyValueExpr:
					use = "stored-in-literal"
				case *ast.UnaryExpr: // & reported above
				case *ast.StarExpr, *ast.ParenExpr, *ast.TypeAssertExpr:
					use = "other:" + fmt.Sprintf("%T", parent)
				default:
					use = "other:" + fmt.Sprintf("%T", parent)
				}
				if use != "" {
					cat := use
					if i := strings.Index(use, ":"); i >= 0 {
						cat = use[:i]
					}
					add(n.Pos(), "escapes", varLabel(p, v)+" -> "+use, cat)
				}
			}
			return true
		})
	}
	for _, file := range p.Files {
		for _, d := range file.Decls {
			switch x := d.(type) {
			case *ast.FuncDecl:
				if x.Body != nil {
					scan(x.Body, funcName(x))
				}
			case *ast.GenDecl:
				if x.Tok == token.VAR {
					for _, sp := range x.Specs {
						for _, val := range sp.(*ast.ValueSpec).Values {
							ast.Inspect(val, func(n ast.Node) bool {
								if fl, ok := n.(*ast.FuncLit); ok {
									scan(fl.Body, "var-initialiser")
									return false
								}
								return true
							})
						}
					}
				}
			}
		}
	}
}

// c05cTypeSwitches: the cases of the type switches through which parameter values are classified.
func c05cTypeSwitches(p *Pkg, w *strings.Builder) {
	type row struct{ fn, typ, shape string }
	var rows []row
	eachFunc(p, func(fd *ast.FuncDecl, name string) {
		if name != "ValueToDataType" && name != "NegotiateValue" {
			return
		}
		ast.Inspect(fd.Body, func(n ast.Node) bool {
			ts, ok := n.(*ast.TypeSwitchStmt)
			if !ok {
				return true
			}
			for _, st := range ts.Body.List {
				for _, e := range st.(*ast.CaseClause).List {
					t := p.Info.Types[e].Type
					if t == nil {
						continue
					}
					shape := "scalar"
					switch t.Underlying().(type) {
					case *types.Slice:
						shape = "slice"
					case *types.Map:
						shape = "map"
					case *types.Pointer:
						shape = "pointer"
					case *types.Interface:
						shape = "interface"
					}
					rows = append(rows, row{name, types.TypeString(t, func(q *types.Package) string { return q.Name() }), shape})
				}
			}
			return false
		})
	})
	w.WriteString("/-- cases of the type switches of pgsql.ValueToDataType / pgsql.NegotiateValue: (function, dynamic type, shape) -/\ndef valueTypeSwitchCases : List (String × String × String) := [\n")
	for i, r := range rows {
		sep := ","
		if i == len(rows)-1 {
			sep = ""
		}
		fmt.Fprintf(w, "  (%s, %s, %s)%s\n", leanStr(r.fn), leanStr(r.typ), leanStr(r.shape), sep)
	}
	w.WriteString("]\n\n")
}

func c05cWrite(w *strings.Builder, pkgs map[string]*Pkg) {
	c05cTypeSwitches(pkgs["cypher/models/pgsql"], w)
	var vars, sites []c05bSite
	for _, rel := range []string{"cypher/models/pgsql/translate", "cypher/models/pgsql/optimize", "cypher/models/pgsql/format", "cypher/models/pgsql", "cypher/models/cypher", "cypher/models/walk"} {
		c05cShared(pkgs[rel], rel, &vars, &sites)
	}
	emit := func(name, doc string, ss []c05bSite) {
		sort.SliceStable(ss, func(i, j int) bool {
			if ss[i].file != ss[j].file {
				return ss[i].file < ss[j].file
			}
			return ss[i].line < ss[j].line
		})
		fmt.Fprintf(w, "/-- %s: (file, line, function, kind, expression, classification) -/\ndef %s : List (String × Nat × String × String × String × String) := [\n", doc, name)
		for i, s := range ss {
			sep := ","
			if i == len(ss)-1 {
				sep = ""
			}
			fmt.Fprintf(w, "  (%s, %d, %s, %s, %s, %s)%s\n", leanStr(s.file), s.line, leanStr(s.fn), leanStr(s.kind), leanStr(s.expr), leanStr(s.cls), sep)
		}
		w.WriteString("]\n\n")
	}
	emit("packageVars", "package-level variables of translate/, optimize/, format/, pgsql/, cypher/, walk/ with the class of their type (scalar / error / ref)", vars)
	emit("sharedStateSites", "uses of package-level variables of the module that are not plain reads: writes, address-of, pointer-receiver method calls, ref-class values leaving through an alias", sites)
}
