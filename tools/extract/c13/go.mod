module c13extract

go 1.26.4
