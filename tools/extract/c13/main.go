// Command c13extract regenerates lean/Dawgs/Generated/C13_locks.lean from the CURRENT source of
// <repo>/cardinality: the synchronisation skeleton of the thread-safe wrappers (lock.go) and the shape of the type
// switches of the binary operations (roaring32.go, roaring64.go). Purely syntactic (go/ast), stdlib only.
//
//	c13extract -repo /repo -out lean/Dawgs/Generated/C13_locks.lean
package main

import (
	"flag"
	"fmt"
	"go/ast"
	"go/parser"
	"go/printer"
	"go/token"
	"os"
	"path/filepath"
	"sort"
	"strings"
)

type method struct {
	recv, name    string
	lockFirst     string // "Lock", "RLock" or "" : first statement is s.lock.<that>()
	deferRel      string // "Unlock", "RUnlock" or "": second statement is defer s.lock.<that>()
	delegates     []string
	otherLock     int // further uses of s.lock in the body
	stmts         int
	operandParam  string // name of the parameter of type Provider[T] ("" if none)
	snapshotStmts int    // leading statements `<operand> = snapshotOperand(<operand>)`
	operandCalls  int    // methods called directly on the operand parameter
}

// one case of the type switch of snapshotOperand
type snapCase struct {
	types               []string
	lockFirst, deferRel string
	returns             []string // EVERY return expression of the case, in source order (nested blocks included)
	stmts               int      // statements of the case body
}

// every return expression below the statements (function literals excluded)
func returnsIn(fset *token.FileSet, body []ast.Stmt) []string {
	var out []string
	for _, st := range body {
		ast.Inspect(st, func(n ast.Node) bool {
			switch x := n.(type) {
			case *ast.FuncLit:
				return false
			case *ast.ReturnStmt:
				parts := make([]string, len(x.Results))
				for i, e := range x.Results {
					parts[i] = exprString(fset, e)
				}
				out = append(out, strings.Join(parts, ", "))
			}
			return true
		})
	}
	return out
}

type tswitch struct {
	file, recv, method string
	cases              []string
	hasDefault         bool
	count              int        // type switches in the method
	calls              [][]string // per case clause: the calls made, in source order
	selfMutInEach      []bool     // per case clause: a call s.Remove/s.Add/s.Clear lexically inside a func literal passed to s.Each
}

// calls made in a list of statements, in source order ("s.bitmap.And", "typedProvider.Each", "append", …)
func callsIn(fset *token.FileSet, body []ast.Stmt) []string {
	var out []string
	for _, st := range body {
		ast.Inspect(st, func(n ast.Node) bool {
			if c, ok := n.(*ast.CallExpr); ok {
				switch f := c.Fun.(type) {
				case *ast.SelectorExpr:
					out = append(out, exprString(fset, f))
				case *ast.Ident:
					out = append(out, f.Name)
				}
			}
			return true
		})
	}
	return out
}

// is the receiver mutated from inside a callback handed to the receiver's own Each? (iterate-while-mutate)
func selfMutationInsideEach(fset *token.FileSet, body []ast.Stmt, self string) bool {
	found := false
	for _, st := range body {
		ast.Inspect(st, func(n ast.Node) bool {
			c, ok := n.(*ast.CallExpr)
			if !ok {
				return true
			}
			sel, ok := c.Fun.(*ast.SelectorExpr)
			if !ok || sel.Sel.Name != "Each" {
				return true
			}
			if id, ok := sel.X.(*ast.Ident); !ok || id.Name != self {
				return true
			}
			for _, a := range c.Args {
				fl, ok := a.(*ast.FuncLit)
				if !ok {
					continue
				}
				ast.Inspect(fl.Body, func(m ast.Node) bool {
					if ic, ok := m.(*ast.CallExpr); ok {
						if isel, ok := ic.Fun.(*ast.SelectorExpr); ok {
							root := exprString(fset, isel.X)
							if (root == self || strings.HasPrefix(root, self+".")) &&
								(isel.Sel.Name == "Remove" || isel.Sel.Name == "Add" || isel.Sel.Name == "Clear" || isel.Sel.Name == "CheckedAdd" || isel.Sel.Name == "AddMany") {
								found = true
							}
						}
					}
					return true
				})
			}
			return true
		})
	}
	return found
}

func exprString(fset *token.FileSet, e ast.Expr) string {
	var b strings.Builder
	_ = printer.Fprint(&b, fset, e)
	return b.String()
}

func recvName(fset *token.FileSet, fd *ast.FuncDecl) (typ, ident string) {
	if fd.Recv == nil || len(fd.Recv.List) != 1 {
		return "", ""
	}
	f := fd.Recv.List[0]
	if len(f.Names) == 1 {
		ident = f.Names[0].Name
	}
	t := f.Type
	if st, ok := t.(*ast.StarExpr); ok {
		t = st.X
	}
	switch x := t.(type) {
	case *ast.Ident:
		typ = x.Name
	case *ast.IndexExpr:
		typ = exprString(fset, x.X)
	case *ast.IndexListExpr:
		typ = exprString(fset, x.X)
	}
	return
}

// s.lock.M() -> M
func lockCall(e ast.Expr, self string) string {
	c, ok := e.(*ast.CallExpr)
	if !ok || len(c.Args) != 0 {
		return ""
	}
	sel, ok := c.Fun.(*ast.SelectorExpr)
	if !ok {
		return ""
	}
	in, ok := sel.X.(*ast.SelectorExpr)
	if !ok || in.Sel.Name != "lock" {
		return ""
	}
	id, ok := in.X.(*ast.Ident)
	if !ok || id.Name != self {
		return ""
	}
	return sel.Sel.Name
}

func lean(s string) string { return fmt.Sprintf("%q", s) }
func leanList(xs []string) string {
	q := make([]string, len(xs))
	for i, x := range xs {
		q[i] = lean(x)
	}
	return "[" + strings.Join(q, ", ") + "]"
}
func leanBool(b bool) string {
	if b {
		return "true"
	}
	return "false"
}

func main() {
	repo := flag.String("repo", "/repo", "repository root")
	out := flag.String("out", "", "output .lean file")
	flag.Parse()
	fset := token.NewFileSet()
	dir := filepath.Join(*repo, "cardinality")

	var methods []method
	f, err := parser.ParseFile(fset, filepath.Join(dir, "lock.go"), nil, 0)
	if err != nil {
		fmt.Fprintln(os.Stderr, "c13extract:", err)
		os.Exit(1)
	}
	for _, d := range f.Decls {
		fd, ok := d.(*ast.FuncDecl)
		if !ok || fd.Body == nil {
			continue
		}
		typ, self := recvName(fset, fd)
		if typ != "threadSafeDuplex" && typ != "threadSafeSimplex" {
			continue
		}
		m := method{recv: typ, name: fd.Name.Name, stmts: len(fd.Body.List)}
		for _, prm := range fd.Type.Params.List {
			if strings.HasPrefix(exprString(fset, prm.Type), "Provider[") && len(prm.Names) == 1 {
				m.operandParam = prm.Names[0].Name
			}
		}
		// leading `<operand> = snapshotOperand(<operand>)`
		for m.operandParam != "" && m.snapshotStmts < len(fd.Body.List) {
			as, ok := fd.Body.List[m.snapshotStmts].(*ast.AssignStmt)
			if !ok || len(as.Lhs) != 1 || len(as.Rhs) != 1 || as.Tok != token.ASSIGN {
				break
			}
			lhs, ok1 := as.Lhs[0].(*ast.Ident)
			call, ok2 := as.Rhs[0].(*ast.CallExpr)
			if !ok1 || !ok2 || lhs.Name != m.operandParam || len(call.Args) != 1 {
				break
			}
			fn, ok3 := call.Fun.(*ast.Ident)
			arg, ok4 := call.Args[0].(*ast.Ident)
			if !ok3 || !ok4 || fn.Name != "snapshotOperand" || arg.Name != m.operandParam {
				break
			}
			m.snapshotStmts++
		}
		at := m.snapshotStmts
		if len(fd.Body.List) >= at+1 {
			if es, ok := fd.Body.List[at].(*ast.ExprStmt); ok {
				m.lockFirst = lockCall(es.X, self)
			}
		}
		if len(fd.Body.List) >= at+2 {
			if ds, ok := fd.Body.List[at+1].(*ast.DeferStmt); ok {
				m.deferRel = lockCall(ds.Call, self)
			}
		}
		lockUses := 0
		ast.Inspect(fd.Body, func(n ast.Node) bool {
			switch x := n.(type) {
			case *ast.CallExpr:
				if sel, ok := x.Fun.(*ast.SelectorExpr); ok {
					if id, ok := sel.X.(*ast.Ident); ok && m.operandParam != "" && id.Name == m.operandParam {
						m.operandCalls++
					}
				}
				// s.provider.M(...)
				if sel, ok := x.Fun.(*ast.SelectorExpr); ok {
					if in, ok := sel.X.(*ast.SelectorExpr); ok && in.Sel.Name == "provider" {
						if id, ok := in.X.(*ast.Ident); ok && id.Name == self {
							m.delegates = append(m.delegates, sel.Sel.Name)
						}
					}
				}
			case *ast.SelectorExpr:
				if x.Sel.Name == "lock" {
					if id, ok := x.X.(*ast.Ident); ok && id.Name == self {
						lockUses++
					}
				}
			}
			return true
		})
		expected := 0
		if m.lockFirst != "" {
			expected++
		}
		if m.deferRel != "" {
			expected++
		}
		m.otherLock = lockUses - expected
		methods = append(methods, m)
	}
	var snapCases []snapCase
	snapDefault := ""
	snapBodyStmts := 0
	for _, d := range f.Decls {
		fd, ok := d.(*ast.FuncDecl)
		if !ok || fd.Body == nil || fd.Recv != nil || fd.Name.Name != "snapshotOperand" {
			continue
		}
		snapBodyStmts = len(fd.Body.List)
		ast.Inspect(fd.Body, func(n ast.Node) bool {
			sw, ok := n.(*ast.TypeSwitchStmt)
			if !ok {
				return true
			}
			bound := ""
			if as, ok := sw.Assign.(*ast.AssignStmt); ok && len(as.Lhs) == 1 {
				bound = exprString(fset, as.Lhs[0])
			}
			for _, st := range sw.Body.List {
				cc := st.(*ast.CaseClause)
				rets := returnsIn(fset, cc.Body)
				if cc.List == nil {
					snapDefault = strings.Join(rets, " | ")
					continue
				}
				sc := snapCase{returns: rets, stmts: len(cc.Body)}
				for _, e := range cc.List {
					sc.types = append(sc.types, exprString(fset, e))
				}
				if len(cc.Body) >= 1 {
					if es, ok := cc.Body[0].(*ast.ExprStmt); ok {
						sc.lockFirst = lockCall(es.X, bound)
					}
				}
				if len(cc.Body) >= 2 {
					if ds, ok := cc.Body[1].(*ast.DeferStmt); ok {
						sc.deferRel = lockCall(ds.Call, bound)
					}
				}
				snapCases = append(snapCases, sc)
			}
			return false
		})
	}
	sort.Slice(methods, func(i, j int) bool {
		if methods[i].recv != methods[j].recv {
			return methods[i].recv < methods[j].recv
		}
		return methods[i].name < methods[j].name
	})

	var switches []tswitch
	for _, file := range []string{"roaring32.go", "roaring64.go"} {
		f, err := parser.ParseFile(fset, filepath.Join(dir, file), nil, 0)
		if err != nil {
			fmt.Fprintln(os.Stderr, "c13extract:", err)
			os.Exit(1)
		}
		for _, d := range f.Decls {
			fd, ok := d.(*ast.FuncDecl)
			if !ok || fd.Body == nil {
				continue
			}
			typ, self := recvName(fset, fd)
			if typ != "bitmap32" && typ != "bitmap64" {
				continue
			}
			switch fd.Name.Name {
			case "Or", "And", "AndNot", "Xor":
			default:
				continue
			}
			ts := tswitch{file: file, recv: typ, method: fd.Name.Name}
			ast.Inspect(fd.Body, func(n ast.Node) bool {
				sw, ok := n.(*ast.TypeSwitchStmt)
				if !ok {
					return true
				}
				ts.count++
				if ts.count > 1 {
					return true
				}
				for _, st := range sw.Body.List {
					cc := st.(*ast.CaseClause)
					if cc.List == nil {
						ts.hasDefault = true
						continue
					}
					for _, e := range cc.List {
						ts.cases = append(ts.cases, exprString(fset, e))
					}
					ts.calls = append(ts.calls, callsIn(fset, cc.Body))
					ts.selfMutInEach = append(ts.selfMutInEach, selfMutationInsideEach(fset, cc.Body, self))
				}
				return true
			})
			switches = append(switches, ts)
		}
	}
	sort.Slice(switches, func(i, j int) bool {
		if switches[i].recv != switches[j].recv {
			return switches[i].recv < switches[j].recv
		}
		return switches[i].method < switches[j].method
	})

	// API surface: the interfaces of cardinality.go and the method sets of every type of the package
	type iface struct {
		name     string
		embedded []string
		methods  []string
	}
	var ifaces []iface
	implMethods := map[string][]string{}
	entries, err := os.ReadDir(dir)
	if err != nil {
		fmt.Fprintln(os.Stderr, "c13extract:", err)
		os.Exit(1)
	}
	for _, ent := range entries {
		if ent.IsDir() || !strings.HasSuffix(ent.Name(), ".go") || strings.HasSuffix(ent.Name(), "_test.go") {
			continue
		}
		pf, err := parser.ParseFile(fset, filepath.Join(dir, ent.Name()), nil, 0)
		if err != nil {
			fmt.Fprintln(os.Stderr, "c13extract:", err)
			os.Exit(1)
		}
		for _, d := range pf.Decls {
			switch x := d.(type) {
			case *ast.GenDecl:
				for _, sp := range x.Specs {
					ts, ok := sp.(*ast.TypeSpec)
					if !ok {
						continue
					}
					it, ok := ts.Type.(*ast.InterfaceType)
					if !ok {
						continue
					}
					f := iface{name: ts.Name.Name}
					for _, m := range it.Methods.List {
						if len(m.Names) == 0 {
							e := m.Type
							if ix, ok := e.(*ast.IndexExpr); ok {
								e = ix.X
							}
							f.embedded = append(f.embedded, exprString(fset, e))
							continue
						}
						for _, n := range m.Names {
							f.methods = append(f.methods, n.Name)
						}
					}
					sort.Strings(f.methods)
					ifaces = append(ifaces, f)
				}
			case *ast.FuncDecl:
				if x.Recv == nil {
					continue
				}
				typ, _ := recvName(fset, x)
				implMethods[typ] = append(implMethods[typ], x.Name.Name)
			}
		}
	}
	sort.Slice(ifaces, func(i, j int) bool { return ifaces[i].name < ifaces[j].name })
	var implTypes []string
	for t := range implMethods {
		implTypes = append(implTypes, t)
		sort.Strings(implMethods[t])
	}
	sort.Strings(implTypes)

	var b strings.Builder
	b.WriteString("/- GENERATED by tools/extract/c13 from cardinality/lock.go, roaring32.go, roaring64.go — do not edit; regenerated on every run. -/\n")
	b.WriteString("import Dawgs.Model.C13Facts\nnamespace Dawgs.Generated.C13\nopen Dawgs.C13.Facts\n\n")
	b.WriteString("def wrapperMethods : List WrapperMethod := [\n")
	for i, m := range methods {
		sep := ","
		if i == len(methods)-1 {
			sep = ""
		}
		fmt.Fprintf(&b, "  { recv := %s, name := %s, lockFirst := %s, deferRelease := %s, delegates := %s, otherLockUses := %d, stmts := %d,\n    operandParam := %s, snapshotStmts := %d, operandCalls := %d }%s\n",
			lean(m.recv), lean(m.name), lean(m.lockFirst), lean(m.deferRel), leanList(m.delegates), m.otherLock, m.stmts,
			leanBool(m.operandParam != ""), m.snapshotStmts, m.operandCalls, sep)
	}
	b.WriteString("]\n\ndef snapshotCases : List SnapshotCase := [\n")
	for i, c := range snapCases {
		sep := ","
		if i == len(snapCases)-1 {
			sep = ""
		}
		fmt.Fprintf(&b, "  { types := %s, lockFirst := %s, deferRelease := %s, returns := %s, stmts := %d }%s\n", leanList(c.types), lean(c.lockFirst), lean(c.deferRel), leanList(c.returns), c.stmts, sep)
	}
	fmt.Fprintf(&b, "]\n\ndef snapshotDefault : String := %s\n\ndef snapshotBodyStmts : Nat := %d\n", lean(snapDefault), snapBodyStmts)
	b.WriteString("\ndef typeSwitches : List TypeSwitch := [\n")
	for i, s := range switches {
		sep := ","
		if i == len(switches)-1 {
			sep = ""
		}
		calls := make([]string, len(s.calls))
		for j, c := range s.calls {
			calls[j] = leanList(c)
		}
		muts := make([]string, len(s.selfMutInEach))
		for j, m := range s.selfMutInEach {
			muts[j] = leanBool(m)
		}
		fmt.Fprintf(&b, "  { file := %s, recv := %s, method := %s, cases := %s, hasDefault := %s, switches := %d,\n    calls := [%s], selfMutationInsideEach := [%s] }%s\n",
			lean(s.file), lean(s.recv), lean(s.method), leanList(s.cases), leanBool(s.hasDefault), s.count,
			strings.Join(calls, ", "), strings.Join(muts, ", "), sep)
	}
	b.WriteString("]\n\ndef interfaces : List ApiInterface := [\n")
	for i, f := range ifaces {
		sep := ","
		if i == len(ifaces)-1 {
			sep = ""
		}
		fmt.Fprintf(&b, "  { name := %s, embedded := %s, methods := %s }%s\n", lean(f.name), leanList(f.embedded), leanList(f.methods), sep)
	}
	b.WriteString("]\n\ndef implMethods : List (String × List String) := [\n")
	for i, t := range implTypes {
		sep := ","
		if i == len(implTypes)-1 {
			sep = ""
		}
		fmt.Fprintf(&b, "  (%s, %s)%s\n", lean(t), leanList(implMethods[t]), sep)
	}
	b.WriteString("]\n\nend Dawgs.Generated.C13\n")
	if *out == "" {
		fmt.Print(b.String())
		return
	}
	if err := os.WriteFile(*out, []byte(b.String()), 0o644); err != nil {
		fmt.Fprintln(os.Stderr, "c13extract:", err)
		os.Exit(1)
	}
}
