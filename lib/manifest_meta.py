CLAIMED = ["C01", "C02", "C03", "C04", "C05", "C06", "C07", "C08", "C09", "C10", "C11", "C12", "C13", "C14", "C15", "C16", "C17", "C18", "C19", "C20"]

SETUP = "./setup.sh"

HOOKS = {
    "guard": "verif",
    "enable": "go build -tags verif (the harness module /verif/harness replaces github.com/specterops/dawgs => /repo and is rebuilt by every check)",
    "baseline_off_cmd": "cd /repo && GOFLAGS=-mod=mod GOPROXY=off go test -vet=off -count=1 -timeout 25m ./...",
    "source_commits": ["22a8b05", "933ca3c", "ee166ed", "8068d0a", "a6b44aa", "4842a08"],
    "add_only": True,
}

ENGINES = [
    {"name": "lean4-model+go-harness", "path": "/verif/lean, /verif/harness, /verif/lib",
     "serves_properties": CLAIMED,
     "kind_free_text": "Lean 4 executable models + theorems (lake build, #print axioms audit), tied to /repo by a Go differential harness speaking a line protocol with the compiled Lean model driver, and by fact extractors regenerating Lean tables"},
]

_PENDING = "check not built yet in this round (design in DESIGN.md §4); will be claimed once its model, theorems and tie run clean on the unchanged tree"
NOT_APPLICABLE = {("C%02d" % i): _PENDING for i in range(1, 21)}

NOTES = "Single entry point ./check <id>. See DESIGN.md. known_findings.json lists genuine defects; replays/ holds violation replays (not committed)."
