#!/usr/bin/env python3
"""Re-runs our check against stored seeded changes (seeded/<id>/patch.diff) after the machinery was strengthened.
usage: seedretest.py <scratch-worktree-of-/repo> <seed-id> [<seed-id> ...]      (seed-id like C07-r2-1; `ID@Cxx` runs
check Cxx instead of the seed's own property). Updates check_* in seeded/<id>/meta.json (history kept under
"check_history"); evidence files are restored afterwards."""
import json, os, subprocess, sys

VERIF = os.path.dirname(os.path.dirname(os.path.abspath(__file__)))
ENV = dict(os.environ, GOFLAGS="-mod=mod", GOPROXY="off")


def sh(cmd, cwd, env=ENV, timeout=7200):
    p = subprocess.run(cmd, cwd=cwd, env=env, stdout=subprocess.PIPE, stderr=subprocess.STDOUT, text=True, timeout=timeout)
    return p.returncode, p.stdout


def main():
    wt = sys.argv[1]
    tier = os.environ.get("SEED_TIER", "quick")
    head = subprocess.check_output(["git", "-C", "/repo", "rev-parse", "HEAD"], text=True).strip()
    sh(["bash", "-c", "git checkout -- . && git clean -fdq"], wt)
    sh(["git", "checkout", "-q", "--detach", head], wt)
    for arg in sys.argv[2:]:
        sid, _, pid = arg.partition("@")
        pid = pid or sid.split("-")[0]
        d = os.path.join(VERIF, "seeded", sid)
        rc, o = sh(["git", "apply", os.path.join(d, "patch.diff")], wt)
        if rc != 0 and os.path.exists(os.path.join(d, "patch_rebased.diff")):
            # the seeded site was rewritten by a later fix: the same slip re-made against the current source
            rc, o = sh(["git", "apply", os.path.join(d, "patch_rebased.diff")], wt)
        if rc != 0:
            print(sid, "patch does not apply:", o[-300:])
            continue
        evf = os.path.join(VERIF, "evidence", pid + ".json")
        saved = open(evf).read() if os.path.exists(evf) else None
        rc, o = sh(["./check", pid, "--tier", tier], VERIF, env=dict(os.environ, VERIF_REPO=wt))
        if saved is not None:
            open(evf, "w").write(saved)
        sh(["bash", "-c", "git checkout -- . && git clean -fdq"], wt)
        lines = [l for l in o.split("\n") if l.startswith("VIOLATION") or l.startswith("KNOWN-FINDING") or "UNDISCHARGED" in l or l.startswith("suite ") or l.startswith("proof:")]
        detected = rc == 1 and any(l.startswith("VIOLATION") for l in lines)
        with_input = any(l.startswith("VIOLATION") and "no-failing-input-found" not in l for l in lines)
        mf = os.path.join(d, "meta.json")
        rec = json.load(open(mf))
        own = pid == sid.split("-")[0]
        hist = rec.setdefault("check_history", [])
        if own:
            hist.append({k: rec.get(k) for k in ("check_cmd", "check_rc", "check_detected", "check_with_failing_input")})
            rec.update(check_cmd="VERIF_REPO=<scratch worktree with patch> ./check %s --tier %s" % (pid, tier), check_rc=rc,
                       check_detected=detected, check_with_failing_input=with_input, check_output=[l[:400] for l in lines[:25]])
        else:
            rec.setdefault("other_checks", {})[pid] = {"check_rc": rc, "check_detected": detected, "check_with_failing_input": with_input,
                                                       "check_output": [l[:400] for l in lines if l.startswith("VIOLATION")][:5]}
        json.dump(rec, open(mf, "w"), indent=1)
        print("%s @%s detected=%s with_input=%s" % (sid, pid, detected, with_input))
        for l in lines:
            if l.startswith("VIOLATION"):
                print("   ", l[:300])
    sh(["python3", os.path.join(VERIF, "lib", "build_harness.py")], VERIF)


if __name__ == "__main__":
    main()
