#!/usr/bin/env python3
"""Confirms a seeded breaking change produced by an independent agent and runs our check against it.
usage: seedtest.py <PID> <agent-outdir> <scratch-worktree-of-/repo> [N ...]
For each N: apply patchN.diff in the scratch worktree; go build ./...; run the existing tests of the touched
packages; run the demonstration (must FAIL with the change, PASS without); run `VERIF_REPO=<worktree> ./check PID`;
store everything under /verif/seeded/<PID>-<N>/ (patch.diff, demo, meta.json). The worktree is left clean."""
import glob, json, os, re, shutil, subprocess, sys

VERIF = os.path.dirname(os.path.dirname(os.path.abspath(__file__)))
ENV = dict(os.environ, GOFLAGS="-mod=mod", GOPROXY="off")


def sh(cmd, cwd, env=ENV, timeout=3600):
    if isinstance(cmd, str):
        cmd = ["bash", "-o", "pipefail", "-c", cmd]
    p = subprocess.run(cmd, cwd=cwd, env=env, stdout=subprocess.PIPE, stderr=subprocess.STDOUT, text=True, timeout=timeout)
    return p.returncode, p.stdout


def reset(wt):
    sh("git checkout -- . && git clean -fdq", wt)


def main():
    pid, out, wt = sys.argv[1], sys.argv[2], sys.argv[3]
    ns = sys.argv[4:] or sorted({re.search(r"patch(\d+)\.diff", f).group(1) for f in glob.glob(os.path.join(out, "patch*.diff"))})
    tier = os.environ.get("SEED_TIER", "quick")
    # the scratch worktree must sit on /repo's current HEAD (hooks and fixes included), else the harness cannot build
    head = subprocess.check_output(["git", "-C", "/repo", "rev-parse", "HEAD"], text=True).strip()
    reset(wt)
    sh(["git", "checkout", "-q", "--detach", head], wt)
    for n in ns:
        patch = os.path.join(out, "patch%s.diff" % n)
        meta = json.load(open(os.path.join(out, "meta%s.json" % n))) if os.path.exists(os.path.join(out, "meta%s.json" % n)) else {}
        rec = {"property": pid, "source": "independent sub-agent given only the property text", "agent_meta": meta}
        reset(wt)
        rc, o = sh(["git", "apply", patch], wt)
        rec["applies"] = rc == 0
        touched = sorted({os.path.dirname(l[6:].strip()) for l in open(patch) if l.startswith("+++ b/")})
        rec["files_touched"] = sorted({l[6:].strip() for l in open(patch) if l.startswith("+++ b/")})
        rc, o = sh("go build ./... 2>&1 | tail -5", wt)
        rec["builds"] = (rc == 0 and "error" not in o.lower())
        pk = " ".join("./%s/..." % d for d in touched)
        rc, o = sh("go test -count=1 %s 2>&1 | tail -15" % pk, wt)
        rec["existing_tests_cmd"] = "go test -count=1 " + pk
        rec["existing_tests_pass"] = ("FAIL" not in o) and rc == 0
        rec["existing_tests_tail"] = o[-600:]
        # demonstration
        demo = next(iter(glob.glob(os.path.join(out, "demo%s_test.go" % n))), None)
        demo_dir = os.path.join(out, "demo%s" % n)
        def run_demo():
            if demo:
                place = re.search(r"place in:\s*(\S+)", open(demo).read())
                d = place.group(1).strip("`'\"") if place else touched[0]
                dst = os.path.join(wt, d, "zz_seed_demo%s_test.go" % n)
                shutil.copy(demo, dst)
                names = re.findall(r"^func (Test\w+)\(", open(demo).read(), re.M)
                rc, o = sh("go test -count=1 -run '^(%s)$' ./%s/ 2>&1 | tail -25" % ("|".join(names) or "Demo", d), wt, timeout=900)
                os.remove(dst)
                return rc, o
            if os.path.isdir(demo_dir):
                dst = os.path.join(wt, "zz_seed_demo%s" % n)
                shutil.copytree(demo_dir, dst)
                rc, o = sh("go run ./zz_seed_demo%s 2>&1 | tail -25" % n, wt, timeout=900)
                shutil.rmtree(dst)
                return rc, o
            return None, "no demonstration found"
        rc1, o1 = run_demo()
        rec["demo_fails_with_change"] = rc1 not in (0, None)
        rec["demo_with_change_tail"] = o1[-500:]
        reset(wt)
        rc0, o0 = run_demo()
        rec["demo_passes_without_change"] = rc0 == 0
        rec["demo_without_change_tail"] = o0[-300:]
        reset(wt)
        confirmed = all(rec.get(k) for k in ("applies", "builds", "existing_tests_pass", "demo_fails_with_change", "demo_passes_without_change"))
        rec["confirmed"] = confirmed
        # our check
        sh(["git", "apply", patch], wt)
        evf = os.path.join(VERIF, "evidence", pid + ".json")   # evidence of a run against a mutated tree must not stay
        saved = open(evf).read() if os.path.exists(evf) else None
        rc, o = sh(["./check", pid, "--tier", tier], VERIF, env=dict(os.environ, VERIF_REPO=wt), timeout=3600)
        if saved is not None:
            open(evf, "w").write(saved)
        lines = [l for l in o.split("\n") if l.startswith("VIOLATION") or l.startswith("KNOWN-FINDING") or "UNDISCHARGED" in l or l.startswith("suite ") or l.startswith("proof:")]
        rec["check_cmd"] = "VERIF_REPO=<scratch worktree with patch> ./check %s --tier %s" % (pid, tier)
        rec["check_rc"] = rc
        rec["check_detected"] = rc == 1 and any(l.startswith("VIOLATION") for l in lines)
        rec["check_with_failing_input"] = any(l.startswith("VIOLATION") and "no-failing-input-found" not in l for l in lines)
        rec["check_output"] = lines[:25]
        reset(wt)
        rnd = os.environ.get("SEED_ROUND", "")
        dst = os.path.join(VERIF, "seeded", "%s-%s%s" % (pid, (rnd + "-") if rnd else "", n))
        os.makedirs(dst, exist_ok=True)
        shutil.copy(patch, os.path.join(dst, "patch.diff"))
        if demo:
            shutil.copy(demo, os.path.join(dst, "demo_test.go"))
        elif os.path.isdir(demo_dir):
            shutil.copytree(demo_dir, os.path.join(dst, "demo"), dirs_exist_ok=True)
        json.dump(rec, open(os.path.join(dst, "meta.json"), "w"), indent=1)
        print("%s-%s%s confirmed=%s detected=%s with_input=%s :: %s" % (pid, (os.environ.get("SEED_ROUND", "") + "-") if os.environ.get("SEED_ROUND") else "", n, confirmed, rec["check_detected"], rec["check_with_failing_input"], meta.get("summary", "")[:110]))
        if not confirmed:
            print("   not confirmed:", {k: rec.get(k) for k in ("applies", "builds", "existing_tests_pass", "demo_fails_with_change", "demo_passes_without_change")})
    # restore harness go.mod to /repo
    sh(["python3", os.path.join(VERIF, "lib", "build_harness.py")], VERIF)


if __name__ == "__main__":
    main()
