#!/usr/bin/env python3
"""Regenerates /verif/MANIFEST.json from the per-property specs (lib/props/*.py) and lib/manifest_meta.py."""
import importlib, json, os, sys
sys.path.insert(0, os.path.dirname(os.path.abspath(__file__)))
import manifest_meta as M

checks = []
for pid in M.CLAIMED:
    mod = importlib.import_module("props." + pid.lower())
    meta = mod.MANIFEST
    checks.append({
        "property_id": pid,
        "quick_cmd": "./check %s --tier quick" % pid,
        "thorough_cmd": "./check %s --tier thorough" % pid,
        "evidence_file": "/verif/evidence/%s.json" % pid,
        "replay_cmd_template": "./check %s --replay {path}" % pid,
        "engine": "lean4-model+go-harness",
        "level_claimed": {"category": meta["category"], "text": meta["text"], "design_ref": meta.get("design_ref", "DESIGN.md §4 " + pid)},
        "level_note": meta["note"],
        "technique": meta["technique"],
    })
manifest = {
    "version": 1,
    "setup_cmd": M.SETUP,
    "hooks": M.HOOKS,
    "engines": M.ENGINES,
    "checks": checks,
    "not_applicable": [{"property_id": p, "reason": r} for p, r in M.NOT_APPLICABLE.items() if p not in M.CLAIMED],
    "notes": M.NOTES,
}
json.dump(manifest, open(os.path.join(os.path.dirname(os.path.dirname(os.path.abspath(__file__))), "MANIFEST.json"), "w"), indent=1)
print("MANIFEST.json written:", len(checks), "checks,", len(manifest["not_applicable"]), "not applicable")
