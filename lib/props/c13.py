import os, subprocess
import verif

THEOREMS = {
    "Dawgs.Props.C13": [
        "Dawgs.C13.Props.native_ops_set",
        "Dawgs.C13.Props.or_fallback_correct",
        "Dawgs.C13.Props.xor_fallback_correct",
        "Dawgs.C13.Props.and_fallback_correct_refuted",
        "Dawgs.C13.Props.andnot_fallback_correct_refuted",
        "Dawgs.C13.Props.and_fallback_correct_fixed",
        "Dawgs.C13.Props.andnot_fallback_correct_fixed",
        "Dawgs.C13.Props.and_fallback_correct_partial",
        "Dawgs.C13.Props.andnot_fallback_correct_partial",
        "Dawgs.C13.Props.clone_independent",
        "Dawgs.C13.Props.wrapper_same_answers",
        "Dawgs.C13.Props.wrapper_same_answers_old",
        "Dawgs.C13.Props.type_switch_as_modelled",
        "Dawgs.C13.Props.wrapper_linearizable",
        "Dawgs.C13.Props.wrapper_deadlock_free",
        "Dawgs.C13.Props.wrapper_deadlock_free_any",
        "Dawgs.C13.Props.wrapper_deadlock_free_live",
        "Dawgs.C13.Props.wrapper_deadlock_free_old_refuted_self",
        "Dawgs.C13.Props.wrapper_deadlock_free_old_refuted_abba",
        "Dawgs.C13.Props.wrapper_deadlock_free_old_partial",
        "Dawgs.C13.Props.c13_seq_fixed",
        "Dawgs.C13.Props.c13_seq_current_refuted",
        "Dawgs.C13.Props.c13_full",
        "Dawgs.C13.Props.c13_full_old_refuted",
        "Dawgs.C13.Props.model_refines_spec",
        "Dawgs.C13.Props.api_complete",
        "Dawgs.C13.Props.snapshot_returns_private_copy",
        "Dawgs.C13.Props.commutative_contains",
    ],
    "Dawgs.Props.C13Conc": [
        "Dawgs.C13.ConcProps.wrapper_linearizable_sets",
        "Dawgs.C13.ConcProps.checkedAdd_atomic",
        "Dawgs.C13.ConcProps.operand_snapshot_semantics",
        "Dawgs.C13.ConcProps.or_not_jointly_atomic",
        "Dawgs.C13.ConcProps.wrapper_mutex_reduction",
        "Dawgs.C13.ConcProps.simplex_mutex_reduction",
        "Dawgs.C13.ConcProps.each_delegate_other_wrapper",
        "Dawgs.C13.ConcProps.each_self_deadlocks",
        "Dawgs.C13.ConcProps.clone_fresh_lock",
    ],
    "Dawgs.Props.C13Roaring": [
        "Dawgs.C13.RoaringProps.roaring64_xor_self_panics_refuted",
        "Dawgs.C13.RoaringProps.roaring64_xor_shares_containers_refuted",
        "Dawgs.C13.RoaringProps.roaring32_xor_mutates_operand_refuted",
    ],
}



# statement (properties.jsonl C13) split into clauses -> what carries each of them. "all" = all sets / histories / schedules.
CLAUSES = {
    "add / remove / contains / cardinality / iteration (Slice, Each with early stop) / clear / CheckedAdd on one provider = the set operation "
    "(bitmap32, bitmap64, either wrapper)":
        "model_refines_spec (every history of interface calls on one provider of the model returns the spec's answer and leaves the spec's set; "
        "hypotheses: canonical initial content, the wrapper's mutex free) + native_ops_set (the functions standing for roaring's Add/Remove are "
        "insert/erase on canonical sets) + wrapper_same_answers (wrapper = wrapped bitmap). On plain bitmaps these calls ARE roaring calls: "
        "their exactness is the named assumption below, checked by the tie, not proved",
    "clone is an independent copy":
        "clone_independent (same content and kind, its own free mutex), clone_fresh_lock (a delegate of Each on the clone may call the original and "
        "vice versa); providers are values in the model, so that the implementation's clone shares nothing is tie only (clone-then-mutate cases, "
        "eachcall across clone and original)",
    "in-place or / and / and-not / xor with ANY other duplex operand (same type, other type, wrapped, the receiver itself for a wrapper) = the set "
    "operation":
        "model_refines_spec (binary calls included, all pairings) resting on or_fallback_correct, xor_fallback_correct, and_fallback_correct_fixed, "
        "andnot_fallback_correct_fixed, c13_seq_fixed (fallback loops = set algebra for all canonical sets), native_ops_set (native path, assumed "
        "exact) and type_switch_as_modelled (the switch shapes and per-case call lists of roaring32/64.go equal the modelled ones: decide on "
        "regenerated facts). Refuted for the code before the first repair: and_fallback_correct_refuted, andnot_fallback_correct_refuted, "
        "c13_seq_current_refuted (with and_/andnot_fallback_correct_partial for what held)",
    "… including a plain bitmap as its OWN operand and the operand object's purity (refuted instances: the three known roaring Xor findings)":
        "roaring64_xor_self_panics_refuted (C13:bitmap64.Xor:self-operand-panic), roaring32_xor_mutates_operand_refuted "
        "(C13:bitmap32.Xor:native-mutates-operand), roaring64_xor_shares_containers_refuted (C13:bitmap64.Xor:native-shares-containers) on the "
        "container-identity model, which suite heap13 ties to the real library; a wrapper receiver is not affected (it works on a snapshot)",
    "thread-safe wrappers give the same answers under concurrent use (linearizable)":
        "wrapper_linearizable_sets (any threads / wrappers / interleavings, operands plain, wrapper or self: each wrapper's history is a run of the "
        "set spec with the callers' answers), wrapper_linearizable, checkedAdd_atomic (at most one true per value when no call removes; exactly "
        "one for a new value under CheckedAdd/read-only histories), operand_snapshot_semantics + or_not_jointly_atomic (a.Op(b) = atomic read of "
        "b at a prefix of b's history, then atomic update of a; not atomic on the pair), wrapper_mutex_reduction / simplex_mutex_reduction "
        "(generic one-lock reduction, both wrappers). Hypotheses: every method is lock;delegate;unlock and a wrapper operand is snapshotted "
        "under its own lock before the receiver's is taken — wrapper_same_answers / snapshot_returns_private_copy (decide on the regenerated "
        "lock skeleton and return paths); plain (unwrapped) operands are not written concurrently",
    "… with no deadlock (needed for 'gives answers')":
        "wrapper_deadlock_free, wrapper_deadlock_free_any, wrapper_deadlock_free_live (all reachable states, arbitrary operands incl. x.Op(x) and "
        "a.Op(b)||b.Op(a)); each_delegate_other_wrapper (delegates of Each calling another wrapper: one thread, or one lock order) with "
        "each_self_deadlocks as the stated guard; refuted for the code before the second repair: wrapper_deadlock_free_old_refuted_self / _abba",
    "… with no data race":
        "theorem level: in every reachable state of the lock LTS a wrapper's data is used by at most one thread (bodies and snapshot reads exclude "
        "each other: wrapper_linearizable, 4th and 5th conjunct), given the extracted skeleton. Go-memory-model races on anything outside that "
        "skeleton: searched only (-race run of suite conc13 in the thorough tier; paired-Add, fillrace and toidsrace probes in both tiers)",
    "every method of the interfaces x every implementation is covered":
        "api_complete (decide on regenerated interface / method tables: a new method or type breaks it); commutative_contains for the combinators "
        "of commutative.go",
    "searched only (tie)":
        "that the Lean transcription is what the Go code does: line diff model = implementation on all 8 ordered pairings, exhaustively on a small "
        "boundary universe and on random histories with the boundary alphabet (0, 2^16±1, 2^32±1, 2^63, max-1, max) in every suite; the set "
        "monitor on every implementation answer; run containers (a completely full 2^16 chunk) are monitor only (suite x13); consumers in "
        "graph/types.go (DuplexToGraphIDs also under a concurrent writer, KindBitmaps/ThreadSafeKindBitmap.Or) are tie + oracle only; "
        "the operand object a wrapper hands to its inner provider (opprivate, fillrace) and clone independence of the implementation are tie only",
    "named assumptions":
        "RoaringBitmap v2.19.0 native operations other than the in-place Xor are exact sets and do not retain their operand (trusted base); "
        "canonical container layout (array container iff <= 4096 values per chunk) for the pre-repair cursor model only; sync.Mutex is a "
        "non-reentrant lock with the usual semantics; a delegate is one read and one write of the wrapped data under the lock; plain operands "
        "are not written concurrently; ids are uint64/uint32 in the tie and Nat in Lean; the go/ast extractor reports the source faithfully",
}


def regen(ctx=None):
    """T-tie: regenerate lean/Dawgs/Generated/C13_locks.lean from the current cardinality/*.go (deleted first)."""
    out = os.path.join(verif.LEAN, "Dawgs", "Generated", "C13_locks.lean")
    try:
        os.remove(out)
    except FileNotFoundError:
        pass
    tool = os.path.join(verif.VERIF, "tools", "extract", "c13")
    rc, log = verif.sh(["go", "run", ".", "-repo", verif.REPO, "-out", out], cwd=tool, env=verif.GOENV, timeout=600)
    if rc != 0 or not os.path.exists(out):
        raise RuntimeError("c13extract failed: " + log[-1500:])


def _binops(ops, impl):
    for o, r in zip(ops, impl):
        t = o.split()
        if len(t) == 3 and t[0] in ("or", "and", "andnot", "xor"):
            yield t, r


def nontrivial(ops, impl):
    # a binary operation returned with a non-empty receiver or operand afterwards, or a concurrent run completed,
    # or a deadlock/panic was observed
    for t, r in _binops(ops, impl):
        f = r.split()
        if f[:1] == ["ok"] and "|" in f:
            i = f.index("|")
            if f[1] != "0" or f[i + 1] not in ("0", "deadlock"):
                return True
        if f[:1] in (["deadlock"], ["panic"]):
            return True
    return any(o.startswith(("conc ", "abba ")) for o in ops)


def finding_key(suite, ops, line, msg):
    f = msg.split()
    return "C13:%s" % (f[1] if len(f) > 1 else "reject")


def race_stress(ctx, stats):
    """thorough tier: the concurrent suite once more with a -race build of the harness."""
    if ctx.tier != "thorough":
        return {"race_run": "not in quick tier", "clause_map": CLAUSES}
    ok, out = verif.build_harness(ctx, race=True)
    if not ok:
        return {"race_run": "go build -race not available here: " + out[-300:].replace("\n", " "), "clause_map": CLAUSES}
    ops = ctx.path("conc13.ops")
    if not os.path.exists(ops):
        return {"race_run": "no conc13 ops", "clause_map": CLAUSES}
    rc, out = verif.harness(ctx, "conc13", "run", ["-ops", ops, "-out", ctx.path("conc13.race.impl")], race=True, timeout=1500)
    races = out.count("WARNING: DATA RACE")
    same = os.path.exists(ctx.path("conc13.impl")) and verif.read_lines(ctx.path("conc13.impl")) == verif.read_lines(ctx.path("conc13.race.impl"))
    if rc != 0 or races or not same:
        verif.report_finding(ctx, "C13:threadSafeDuplex:data-race",
                             "race detector run of the concurrent suite: rc=%d races=%d same-answers=%s" % (rc, races, same),
                             {"kind": "input", "suite": "conc13", "ops": verif.read_lines(ops)[:200], "log": out[-3000:]})
    return {"race_run": {"rc": rc, "data_races": races, "same_answers_as_plain_build": same}, "clause_map": CLAUSES}


SPEC = {
    "id": "C13",
    "title": "ID-set providers implement exact set algebra across all implementation pairings",
    "level": "proof",
    "regen": regen,
    "lean_modules": ["Dawgs.Props.C13", "Dawgs.Props.C13Conc", "Dawgs.Props.C13Roaring"],
    "theorems_by_module": THEOREMS,
    "gate_modules": ["Dawgs.Model.C13", "Dawgs.Model.C13Lts", "Dawgs.Model.C13Facts", "Dawgs.Spec.C13", "Dawgs.Proofs.C13",
                     "Dawgs.Proofs.C13Lts", "Dawgs.Props.C13", "Dawgs.Props.C13Conc", "Dawgs.Props.C13Roaring", "Dawgs.Model.C13Roaring",
                     "Dawgs.Generated.C13_locks"],
    "suites": [
        {"name": "c13", "model_suite": "c13", "monitor_suite": "c13mon", "keep_prefix": 2, "shrink_budget": 40, "thorough_seeds": 2},
        {"name": "x13", "monitor_suite": "c13mon", "keep_prefix": 2, "shrink_budget": 25, "thorough_seeds": 1},
        {"name": "heap13", "model_suite": "c13heap", "monitor_suite": "c13mon", "keep_prefix": 2, "shrink_budget": 25, "thorough_seeds": 1},
        {"name": "conc13", "model_suite": "c13", "monitor_suite": "c13mon", "keep_prefix": 2, "shrink_budget": 25, "thorough_seeds": 2},
    ],
    "nontrivial": nontrivial,
    "finding_key": finding_key,
    "panic_is_violation": False,   # every `panic …` answer is rejected by the monitor under a call-site specific key
    "extra_coverage": race_stress,
    "rule": "cases = (a) all 8 ordered receiver/operand pairings of {b32,b64,ts32,ts64} x 4 ops on fixed boundary sets, self operands, non-duplex "
            "operands; (b) exhaustive: every receiver/operand subset pair of a 5 (quick) / 7 (thorough) value universe spanning 3 containers and the "
            "2^32 boundary x {And,AndNot} fallback; (c) random histories (6-20 ops, 3-5 named providers, values a*2^16+b / a*2^32+b plus, in EVERY suite and for receiver and operand "
            "alike, the boundary alphabet 0, 2^16-1, 2^16, 2^16+1, 2^31 or 2^32-1/2^32/2^32+1, 2^63-1/2^63, max-1, max of the width; dense runs "
            "4095..5000 around the array/bitmap container threshold) from splitmix64(VERIF_SEED); (d) x13: full 2^16 chunks (run containers) and the "
            "aftermath of the native Xor, monitor only; (e) conc13: 2-8 goroutines on one wrapper, order-independent mixes. A case is non-trivial when "
            "a binary operation returned with a non-empty receiver or operand, or a deadlock/panic/concurrent run was observed; distinct = distinct "
            "op-line sequences (sha1)",
    "expected_branches": ["path.native", "path.fallback", "path.non-duplex-operand", "operand.self.b32", "operand.self.b64",
                          "abba.returned", "pairs.runs", "op.comm", "gen.heap_cases", "op.toids", "op.kindor", "op.opprivate", "fillrace.runs.or", "fillrace.runs.xor", "toidsrace.runs", "caddrace.runs", "op.eachcall.ts32/ts32", "op.eachcall.ts64/ts64", "operand.self.ts32", "operand.self.ts64", "gen.dense_run", "gen.exhaustive_cases", "gen.run_cases", "gen.alias64_cases",
                          "conc.runs", "pair.and.b32/ts32", "pair.and.ts32/ts32", "pair.and.b64/ts64", "pair.and.ts64/ts64",
                          "pair.xor.ts64/b64", "pair.or.ts32/b32"],
    "trusted_base": ["RoaringBitmap v2.19.0 native operations assumed to be exact sets (Add, Remove, Contains, Or, And, AndNot, Clone, Clear, "
                     "ToArray, iterator without concurrent modification); the in-place Xor is NOT assumed: its container sharing / operand "
                     "update / self-alias panic are modelled (Model/C13Roaring), refuted in Lean and tied by suite heap13",
                     "roaring container layout assumed canonical (array container iff <= 4096 values per 2^16 chunk); run containers are outside the "
                     "exact model and are judged by the monitor only (suite x13)",
                     "sync.Mutex semantics (non-reentrant, modelled as an owner map); go/ast extractor tools/extract/c13"],
    "assumptions": ["native roaring operations are exact sets except for the three recorded Xor defects",
                    "wrappers are created over fresh bitmaps (no aliasing between a wrapper and a directly used inner bitmap)",
                    "LTS: one data cell per wrapper, the delegate is one read step and one write step under the lock; Go memory-model races "
                    "outside the extracted lock skeleton are covered only by the -race run of suite conc13 (thorough)"],
    "explanation": "Lean: fallbacks Or/Xor proved equal to set union / symmetric difference for all operand sets; And/AndNot fallbacks (iterate the "
                   "receiver while removing from it) refuted by witness on an exact cursor model of the roaring iterator, proved correct for the "
                   "collect-then-remove repair; lock LTS with the snapshot-then-lock protocol of lock.go: linearizability and deadlock-freedom for arbitrary "
                   "(also wrapper, also self) operands proved; the protocol before hooks/C13-fix2.patch refuted (self operand, ABBA). Set-spec level: linearizability, CheckedAdd atomicity, snapshot semantics of a wrapper operand, the generic one-lock reduction "
                   "(Proofs/RWLock) instantiated for both wrappers. Roaring's in-place Xor: container-identity model, three refutations, tied by heap13. "
                   "T-tie: lock skeleton, type-switch shapes and API surface regenerated from the source and closed by decide.",
}

MANIFEST = {
    "category": "proof",
    "technique": "Lean 4 proofs about a transcription of DAWGS' type switches, fallback loops and mutex wrappers (exact cursor model of roaring's "
                 "iterator under removal; lock-level LTS with snapshot-then-lock; the generic one-lock reduction shared with C16; a "
                 "container-identity model of roaring's in-place Xor) + differential correspondence with the Go code + go/ast fact extraction "
                 "(lock skeleton, type-switch shapes, API surface) closed by decide",
    "text": "Clause by clause (coverage.clause_map in the evidence). One provider, any history, any operand pairing: every call of the Duplex "
            "interface on the model of a bitmap or wrapper returns the set spec's answer and leaves the spec's set (model_refines_spec; hypotheses: "
            "canonical content, the wrapper's mutex free, operands are values) — built on: the Or and Xor fallbacks equal union / symmetric "
            "difference and the And / AndNot fallbacks, refuted as first written, are exact for the collect-then-remove repair in /repo, for all "
            "sets; the native path is roaring's and is assumed exact except for the in-place Xor; clones are independent; a wrapper answers as "
            "the wrapped bitmap. Concurrency as theorems on a lock-level LTS whose skeleton (lock; delegate; unlock, a wrapper operand "
            "snapshotted under ITS lock first, every return path of the snapshot a clone) is re-extracted from lock.go every run: for any threads, "
            "wrappers and interleavings each wrapper's history is a run of the set spec with the callers' answers (also via the generic mutex "
            "reduction shared with C16), CheckedAdd is atomic, no reachable state is deadlocked for any receiver/operand pairing including "
            "x.Op(x) and a.Op(b) || b.Op(a), a.Op(b) has snapshot semantics (b read atomically at a prefix of its history, a updated atomically, "
            "the pair provably not jointly atomic), and a delegate of Each may call another wrapper when one thread does so or one lock order is "
            "followed (a delegate calling the wrapper it iterates is the stated self-deadlock). A wrapper's data is used by at most one thread at "
            "a time; races outside the extracted skeleton are searched only. Type-switch shapes and the API surface (every interface method x "
            "every implementation, commutative.go) are regenerated and closed by decide. The three defects of RoaringBitmap's in-place Xor are "
            "the refuted instances, on a container-identity model compared with the real library every run. Model and real code are compared on "
            "every ordered pairing of {bitmap32, bitmap64, threadSafe(bitmap32), threadSafe(bitmap64)}, exhaustively on a small boundary "
            "universe and on random histories with the boundary alphabet, every run.",
    "note": "Trusted: Lean kernel; RoaringBitmap's native operations as exact sets EXCEPT the in-place Xor, whose three defects (known findings) are "
            "modelled with container identity and tied by suite heap13; canonical container layout (array iff <= 4096 per chunk); run containers "
            "(a completely full chunk) are judged by the monitor only (suite x13); sync.Mutex semantics; the go/ast extractor. The LTS treats a "
            "delegate as read+write of the wrapped data under the lock; plain (unwrapped) operands are assumed not to be written concurrently. "
            "Consumers in graph/types.go that take a caller-provided provider (DuplexToGraphIDs, KindBitmaps.AddDuplexToKind, "
            "ThreadSafeKindBitmap.Or) are tied sequentially and, for DuplexToGraphIDs, probed under a concurrent writer with the oracle "
            "'no panic, ascending, every ID was a member at some point of the run'; ops/ helpers need a database and use one Slice() call. "
            "Go-memory-model races outside the extracted lock skeleton: -race run of the concurrent suite in the thorough tier and the "
            "paired-Add torn-read cases in both tiers.",
}
