import json, re
import regen

THEOREMS = {
    "Dawgs.Props.C06": [
        "Dawgs.C06.Props.fresh_ids",
        "Dawgs.C06.Props.generated_names_never_user_keyed",
        "Dawgs.C06.Props.alias_values_injective",
        "Dawgs.C06.Props.alias_only_lookup",
        "Dawgs.C06.Props.scope_renaming_fixed",
        "Dawgs.C06.Props.c06_full",
        "Dawgs.C06.Props.shared_eq_live_of_disjoint_old",
        "Dawgs.C06.Props.scope_renaming_partial_old",
        "Dawgs.C06.Props.f10_results_old",
        "Dawgs.C06.Props.c06_full_refuted_old",
        "Dawgs.C06.Props.fallback_lookup_captures",
        "Dawgs.C06.Props.prune_alias_choice_unique",
    ],
    "Dawgs.Props.C06Sites": [
        "Dawgs.C06.Sites.table_nonempty",
        "Dawgs.C06.Sites.generator_matches_model",
        "Dawgs.C06.Sites.user_ids_only_via_aliased_lookup",
        "Dawgs.C06.Sites.alias_after_fresh_define",
        "Dawgs.C06.Sites.parameter_path_separate",
        "Dawgs.C06.Sites.no_user_generated_comparison",
        "Dawgs.C06.Sites.define_only_constants",
        "Dawgs.C06.Sites.alias_key_fallback_sites_known",
        "Dawgs.C06.Sites.alias_key_nonuser_are_fallbacks",
        "Dawgs.C06.Sites.fallback_sites_bounded",
        "Dawgs.C06.Sites.alias_keys_user_only",
    ],
}

KEYS = {
    "ns-collision": "C06:Scope.aliases:parameter-variable-namespace-collision",
    "gen-id-captured-by-path-variable": "C06:pathCompositeBinding:pruned-generated-id-captured-by-path-variable",
    "user-name-in-inner-sql:AggregateTraversalCount": "C06:aggregateTraversalCount:user-alias-as-inner-column",
}


REMAINING_KNOWN = "C06:aggregateTraversalCount:user-alias-as-inner-column"

# clause of the statement (properties.jsonl, C06) -> what proves it FOR ALL inputs, with the hypotheses carried | what is only searched
CLAUSES = {
    "scope: user spellings never become translator names (generated identifiers are fresh; no user spelling is a key of definitions; "
    "alias targets pairwise distinct)":
        "fresh_ids, generated_names_never_user_keyed, alias_values_injective — every program of scope operations (= every reachable Scope), any key "
        "type incl. Go strings; no hypothesis. Generator tie: Sites.generator_matches_model (prefix/counter switch of NewIdentifier = model, kernel-checked "
        "on the regenerated table)",
    "scope: renaming to ANY legal names — incl. names the translator generates (n0 e0 s0 i0 pi0 path depth …) — changes no result":
        "alias_only_lookup (hypothesis: the re-keying is injective ON THE SYMBOLS THE PROGRAM MENTIONS) => scope_renaming_fixed = c06_full "
        "(def C06_full; hypotheses: the variable renaming and the parameter renaming are each injective — exactly the quantifier's 'injective "
        "renamings'; names are arbitrary strings, so generated identifiers and keywords are included; no freshness or disjointness hypothesis)",
    "scope: … incl. names equal to each other ACROSS the variable / parameter namespaces":
        "c06_full for the LIVE scope (keys tagged by namespace: parameters have their own alias table since /repo 10646d6) + "
        "Sites.parameter_path_separate (the translator's parameter case uses only the parameter table). For the OLD shared table the clause is "
        "REFUTED: c06_full_refuted_old, f10_results_old (witness MATCH (n) WHERE n.name = $n RETURN n); only scope_renaming_partial_old held "
        "(extra hypotheses NsDisjoint before and after the renaming); shared_eq_live_of_disjoint_old relates the two. F10 is fixed; corpus cases guard it",
    "scope: never turns a successful lookup / definition into an error":
        "c06_full: `results` lists every outcome incl. failed lookups, nil parameters and errors, and the whole list is invariant",
    "tie (kernel-checked table, regenerated every run): the translator reaches the Scope only in the modelled ways":
        "Sites.user_ids_only_via_aliased_lookup, alias_after_fresh_define, define_only_constants, no_user_generated_comparison (no comparison of a "
        "user-derived string with a generated identifier anywhere in translate/), alias_keys_user_only (NEW: def C06_sites_full is now a THEOREM — no "
        "AliasedLookup / aliases[] key that is not purely user-derived; the seven historical Lookup-then-AliasedLookup fallbacks are gone), "
        "alias_key_fallback_sites_known, alias_key_nonuser_are_fallbacks, fallback_sites_bounded (older, weaker guards), table_nonempty. "
        "Trusted step: the go/ast provenance classification of tools/extract/goext c06",
    "whole translator, AST level: only output column aliases and parameter-map keys change":
        "SEARCHED ONLY: metamorphic renaming on the real translate.Translate, 9 renaming kinds (fresh, translator, cross, keywords, case, swap, "
        "probe, sys = every symbol onto the generated identifiers the translation actually used / uses next, escaped) x corpus + generated "
        "queries; SQL compared with outermost projection aliases masked, result parameters compared modulo the key renaming",
    "whole translator, TOKEN level: the rest of the statement is untouched":
        "SEARCHED ONLY: both unmasked statements lexed by harness/pglex.go (PostgreSQL token classes); same token sequence, identifier tokens "
        "may differ only as (value of x, value of renamed x); escaped names with quotes, backslashes, control characters, U+200B, non-BMP, "
        "63/64-byte names, keywords and back-ticked generated identifiers",
    "whole translator: never turns a translatable query into an error or a crash":
        "SEARCHED ONLY: both translations under recover; status must agree (class ok / err alike), a panic of either side is a violation",
    "refuted instance (the property is FALSE on the current tree here)":
        REMAINING_KNOWN + " (known_findings.json status known; replay corpus/C06/c06_aggregate_traversal_count_alias.ops): "
        "`… WITH n, count(c) AS adminCount RETURN n ORDER BY adminCount` — the AggregateTraversalCount lowering writes the user's alias verbatim "
        "as an INNER CTE column, so the statement changes with the spelling and spellings like root_id / select give invalid SQL. Outside the "
        "Scope (the alias is copied out of BoundIdentifier.Alias), hence no contradiction with c06_full; found by the search, suppressed by exact "
        "key only. hooks/C06-fix2.patch repairs it but edits golden SQL / test expectations, so it is a PROPOSAL, not landed",
    "searched only (tie)":
        "that Model/C06.lean is what translate/tracking.go does: scope trace hook (every traced translation's operations replayed through the "
        "Lean Scope in Driver/C06, state digests compared op by op) — present only when hooks/C06.patch is in the tree (it is: /repo ee166ed); "
        "that the seven binding patterns are ALL the ways the 22k-line translator composes scope operations; everything the translator does "
        "with names outside the Scope (column lists, CTE names, BoundIdentifier.Alias copies, format/ quoting) rests on the metamorphic search",
    "named assumptions":
        "renamings are applied to the parsed model (cypher.Variable / Parameter symbols incl. projection aliases), the parser's treatment of "
        "spellings is C07/C08; 'legal name' = any Go string at the scope level, the escaped alphabet + 8 other kinds in the search; "
        "PostgreSQL's lexer is modelled by harness/pglex.go (unverified Go, same token classes as C04's Lean lexer); identifier truncation "
        "at 63 bytes by the server is not modelled (64-byte names are compared as written)",
}


def do_regen(ctx):
    regen.c06_sites()


def _field(line, name):
    m = re.search(r"(?:^| )%s=(\S*)" % name, line)
    return m.group(1) if m else None


def judge(op, impl, model):
    if impl.startswith("panic"):
        return "reject harness-panic " + impl[:120]
    if impl in ("skipped", "bad-op"):
        return "reject " + impl
    cls = _field(impl, "cls")
    if cls in ("ok", "untranslatable", "parse"):
        return "ok"
    m = re.search(r" min=(\"(?:[^\"\\]|\\.)*\")", impl)
    d = re.search(r" detail=(\"(?:[^\"\\]|\\.)*\")", impl)
    return "reject %s ren=%s min=%s %s" % (cls, _field(impl, "ren"), m.group(1) if m else "-", (d.group(1) if d else "")[:400])


def nontrivial(ops, impl):
    # a translatable pair in which at least two distinct user symbols were renamed
    for r in impl:
        if r.startswith("cls=") and _field(r, "st") == "ok" and _field(r, "st2") in ("ok", "err", "panic"):
            try:
                if int(_field(r, "nv")) + int(_field(r, "np")) >= 2:
                    return True
            except Exception:
                pass
    return False


def finding_key(suite, ops, line, msg):
    cls = msg.split()[1] if len(msg.split()) > 1 else "reject"
    return KEYS.get(cls, "C06:translate:" + cls)


def model_input(op, impl):
    m = re.search(r" trace=(.*)$", impl)
    return "trace " + (m.group(1) if m else "-")


def impl_view(impl):
    if not impl.startswith("cls="):
        return "ops=0 mismatches=0"
    return "ops=%s mismatches=0" % (_field(impl, "tops") or "0")


def model_view(model):
    return model.split(" | ")[0]


def extra_coverage(ctx, stats):
    traced = stats.get("traced_translations", 0)
    return {
        "clause_map": CLAUSES,
        "full_statement": "def Dawgs.C06.Props.C06_full (proved: c06_full); def Dawgs.C06.Sites.C06_sites_full (proved: alias_keys_user_only); "
                          "def C06_full_old (refuted: c06_full_refuted_old)",
        "stated_goals_not_proved": [],
        "refuted_instances_on_the_live_tree": [REMAINING_KNOWN],
        "traces_validated_against_impl": traced,
        "scope_trace_hook": "present" if traced else "absent (hooks/C06.patch not applied to the tree under test): the Lean scope model is tied by the "
                            "regenerated access-site table (Props/C06Sites) and the metamorphic runs only",
    }


SPEC = {
    "id": "C06",
    "title": "translation is hygienic: user-chosen names never capture translator names",
    "level": "proof",
    "regen": do_regen,
    "lean_modules": ["Dawgs.Props.C06", "Dawgs.Props.C06Sites"],
    "theorems_by_module": THEOREMS,
    "gate_modules": ["Dawgs.Model.C06", "Dawgs.Proofs.C06", "Dawgs.Props.C06", "Dawgs.Props.C06Sites", "Driver.C06"],
    "suites": [{"name": "c06", "model_suite": "c06", "model_input": model_input, "impl_view": impl_view, "model_view": model_view,
                "judge": judge, "keep_prefix": 1, "thorough_seeds": 2}],
    "nontrivial": nontrivial,
    "finding_key": finding_key,
    "panic_is_violation": True,
    "rule": "cases = (query, renaming): every Cypher text of the repository corpora (translation_cases/*.sql with their cypher_params, cypher/test/cases/*.json) and "
            "generated queries (structured generator over MATCH/OPTIONAL MATCH/UNWIND/WITH/RETURN/ORDER BY/SKIP/LIMIT/quantifiers/paths/updates, 400 quick, 2x4500 thorough) "
            "x 9 renaming kinds of ALL user variables+aliases and parameters applied to the parsed model: fresh names; translator names (n0 e0 s0 i0 pi0 ep0 path depth "
            "root_id next_id satisfied is_cycle _kind_idx, column names, ...); cross-namespace collisions (a parameter spelled like a variable and vice versa); SQL keywords; "
            "spellings differing only in case; permutation of the query's own names; probe (one variable takes the spelling of a generated identifier that occurs in the "
            "original translation); sys (once per query, plus 12 re-aliasing shapes): the query is translated first, the generated identifier every user variable / alias / "
            "parameter actually received is read off the scope trace (verif hook; fallback: identifiers in the SQL), and then each symbol alone AND all symbols at once are "
            "renamed to (i) their OWN generated identifier(s), (ii) the generated identifier of every other user binding (thorough: every identifier defined in the translation), "
            "(iii) the next counter value(s) of all eight prefix classes, i.e. identifiers the translation generates later — about 30 renamings per query quick. escaped (variables / aliases take back-tick escaped names: double quotes and backslashes in every combination, control characters, U+200B, non-BMP runes, "
            "63- and 64-byte names, SQL keywords and generated identifiers WITH back-ticks, comment / dollar-quote openers). TOKEN-LEVEL ORACLE on every pair that passes the "
            "masked comparison: the two UNMASKED statements are lexed with a PostgreSQL lexer (harness/pglex.go: comments, '' strings, \"\" identifiers, $tag$, parameters, "
            "operators) and must have the same token sequence, identifier tokens differing only as (value of x, value of the renamed x). Both models are translated by the real translate.Translate; SQL (outermost projection aliases and ORDER BY references to them masked) and "
            "result parameters must be equal and both must fail or succeed alike. Non-trivial = the original translates and at least two distinct user symbols were renamed; "
            "distinct = distinct (query, kind, seed) op lines (sha1)",
    "expected_branches": ["class.ok", "kind.cross", "kind.translator", "kind.probe", "kind.sys", "kind.escaped", "sys_renamings", "translated_pairs_ge2_frames"],
    "trusted_base": ["tools/extract/goext c06 (syntactic provenance of Scope access arguments; go/ast only)",
                     "the metamorphic oracle in harness/c06.go (renaming by reflection over the cypher model, alias masking on the pgsql AST)",
                     "harness/pglex.go, a Go PostgreSQL lexer with the token classes of the Lean lexer of C04 (token-level half of the oracle)",
                     "the transcription Model/C06.lean of translate/tracking.go (tied op-by-op to the real Scope only when hooks/C06.patch is applied)"],
    "assumptions": ["Lean theorems are about the Scope and the seven patterns in which the translator uses it; the rest of the translator (22k lines) is covered by the metamorphic search only (clause_map)",
                    "renamings are applied to the parsed model (cypher.Variable / cypher.Parameter symbols incl. projection aliases); the parser's handling of unusual spellings is C07/C08"],
    "extra_coverage": extra_coverage,
    "explanation": "Proved in Lean for every program of scope operations and every pair of injective renamings (no other hypothesis): renaming invariance of the "
                   "identifier Scope incl. generated names and cross-namespace collisions (c06_full); kernel-checked on the regenerated access-site table: the translator "
                   "reaches the Scope only in the modelled ways and no alias key is anything but user-derived (alias_keys_user_only = C06_sites_full, newly a theorem). "
                   "Searched only: the statement for the whole translator, at AST and token level, and error/crash parity. One refuted instance remains "
                   "(aggregate traversal count alias, known finding). See coverage.clause_map.",
}

MANIFEST = {
    "category": "proof",
    "technique": "Lean 4 proof of renaming invariance of the identifier scope (all operation sequences; re-keying commutation + generated-name invariant) "
                 "with the old shared-table defect refuted by witness, kernel-checked side conditions on a regenerated table of scope accesses, scope trace replay, "
                 "and a metamorphic renaming search (AST and token level) on the real translator",
    "text": "PROVED (Lean, all inputs): for every sequence of scope operations the translator can issue (DefineNew, Alias / AliasParameter after DefineNew, AliasedLookup, "
            "ParameterLookup, Lookup, frames, PruneDefinitions and the seven binding patterns of pattern.go / translator.go / unwind.go / projection.go / with.go / "
            "quantifiers.go) generated identifiers are fresh, no user spelling is ever a key of definitions, alias targets are pairwise distinct, and every result — "
            "identifiers, lookups, errors — is invariant under any re-keying that is injective on the symbols in play (alias_only_lookup). Hence, with the ONLY hypotheses "
            "that the variable renaming and the parameter renaming are each injective, full renaming invariance of the live scope, names equal to generated identifiers "
            "and cross-namespace collisions included (c06_full; parameters have their own alias table). For the old shared table the statement is refuted "
            "(c06_full_refuted_old = F10, fixed) and holds only under a disjointness hypothesis (scope_renaming_partial_old). KERNEL-CHECKED on the access-site table "
            "regenerated every run: user-derived identifiers reach definitions only through AliasedLookup / ParameterLookup, the parameter case uses only the parameter "
            "table, no user string is compared with a generated identifier, and — new — NO alias key is anything but user-derived (alias_keys_user_only: the "
            "Lookup-then-AliasedLookup fallbacks are gone, C06_sites_full is a theorem). SEARCHED ONLY: the statement for the whole translator — every corpus and "
            "generated query x 9 adversarial renaming kinds (incl. each symbol onto the generated identifiers its own translation uses, and back-tick escaped names) "
            "must give the same SQL up to output aliases at AST level AND the same PostgreSQL token sequence up to renamed identifier tokens, the same parameters up to "
            "keys, and the same ok/error status; panics are violations. ONE REFUTED INSTANCE remains on the tree: the aggregate traversal count lowering emits the "
            "user's WITH alias as an inner CTE column (known finding, replay in corpus/C06).",
    "note": "Proof level applies to the Scope and to the table-checked ways the translator reaches it; the rest of the translator is search only (coverage.clause_map says "
            "which clause rests on what). Findings of this check: F10 shared alias table (fixed, 10646d6), path "
            "variable capturing a pruned generated identifier through the lookup fallback (fixed, e63912b); still known: "
            "C06:aggregateTraversalCount:user-alias-as-inner-column (a repair exists as hooks/C06-fix2.patch but needs golden-file edits, so it is only proposed). "
            "Trusted: Lean kernel, the go/ast site extractor, the harness oracle incl. its Go PostgreSQL lexer, the transcription of tracking.go (tied by trace replay).",
}
