import json, re
import regen

THEOREMS = {
    "Dawgs.Props.C06": [
        "Dawgs.C06.Props.fresh_ids",
        "Dawgs.C06.Props.generated_names_never_user_keyed",
        "Dawgs.C06.Props.alias_values_injective",
        "Dawgs.C06.Props.alias_only_lookup",
        "Dawgs.C06.Props.scope_renaming_fixed",
        "Dawgs.C06.Props.c06_full",
        "Dawgs.C06.Props.shared_eq_live_of_disjoint_old",
        "Dawgs.C06.Props.scope_renaming_partial_old",
        "Dawgs.C06.Props.f10_results_old",
        "Dawgs.C06.Props.c06_full_refuted_old",
        "Dawgs.C06.Props.fallback_lookup_captures",
        "Dawgs.C06.Props.prune_alias_choice_unique",
    ],
    "Dawgs.Props.C06Sites": [
        "Dawgs.C06.Sites.table_nonempty",
        "Dawgs.C06.Sites.generator_matches_model",
        "Dawgs.C06.Sites.user_ids_only_via_aliased_lookup",
        "Dawgs.C06.Sites.alias_after_fresh_define",
        "Dawgs.C06.Sites.parameter_path_separate",
        "Dawgs.C06.Sites.no_user_generated_comparison",
        "Dawgs.C06.Sites.define_only_constants",
        "Dawgs.C06.Sites.alias_key_fallback_sites_known",
        "Dawgs.C06.Sites.alias_key_nonuser_are_fallbacks",
        "Dawgs.C06.Sites.fallback_sites_bounded",
    ],
}

KEYS = {
    "ns-collision": "C06:Scope.aliases:parameter-variable-namespace-collision",
    "gen-id-captured-by-path-variable": "C06:pathCompositeBinding:pruned-generated-id-captured-by-path-variable",
    "user-name-in-inner-sql:AggregateTraversalCount": "C06:aggregateTraversalCount:user-alias-as-inner-column",
}


def do_regen(ctx):
    regen.c06_sites()


def _field(line, name):
    m = re.search(r"(?:^| )%s=(\S*)" % name, line)
    return m.group(1) if m else None


def judge(op, impl, model):
    if impl.startswith("panic"):
        return "reject harness-panic " + impl[:120]
    if impl in ("skipped", "bad-op"):
        return "reject " + impl
    cls = _field(impl, "cls")
    if cls in ("ok", "untranslatable", "parse"):
        return "ok"
    m = re.search(r" min=(\"(?:[^\"\\]|\\.)*\")", impl)
    d = re.search(r" detail=(\"(?:[^\"\\]|\\.)*\")", impl)
    return "reject %s ren=%s min=%s %s" % (cls, _field(impl, "ren"), m.group(1) if m else "-", (d.group(1) if d else "")[:400])


def nontrivial(ops, impl):
    # a translatable pair in which at least two distinct user symbols were renamed
    for r in impl:
        if r.startswith("cls=") and _field(r, "st") == "ok" and _field(r, "st2") in ("ok", "err", "panic"):
            try:
                if int(_field(r, "nv")) + int(_field(r, "np")) >= 2:
                    return True
            except Exception:
                pass
    return False


def finding_key(suite, ops, line, msg):
    cls = msg.split()[1] if len(msg.split()) > 1 else "reject"
    return KEYS.get(cls, "C06:translate:" + cls)


def model_input(op, impl):
    m = re.search(r" trace=(.*)$", impl)
    return "trace " + (m.group(1) if m else "-")


def impl_view(impl):
    if not impl.startswith("cls="):
        return "ops=0 mismatches=0"
    return "ops=%s mismatches=0" % (_field(impl, "tops") or "0")


def model_view(model):
    return model.split(" | ")[0]


def extra_coverage(ctx, stats):
    traced = stats.get("traced_translations", 0)
    return {
        "traces_validated_against_impl": traced,
        "scope_trace_hook": "present" if traced else "absent (hooks/C06.patch not applied to the tree under test): the Lean scope model is tied by the "
                            "regenerated access-site table (Props/C06Sites) and the metamorphic runs only",
    }


SPEC = {
    "id": "C06",
    "title": "translation is hygienic: user-chosen names never capture translator names",
    "level": "proof",
    "regen": do_regen,
    "lean_modules": ["Dawgs.Props.C06", "Dawgs.Props.C06Sites"],
    "theorems_by_module": THEOREMS,
    "gate_modules": ["Dawgs.Model.C06", "Dawgs.Proofs.C06", "Dawgs.Props.C06", "Dawgs.Props.C06Sites", "Driver.C06"],
    "suites": [{"name": "c06", "model_suite": "c06", "model_input": model_input, "impl_view": impl_view, "model_view": model_view,
                "judge": judge, "keep_prefix": 1, "thorough_seeds": 2}],
    "nontrivial": nontrivial,
    "finding_key": finding_key,
    "panic_is_violation": True,
    "rule": "cases = (query, renaming): every Cypher text of the repository corpora (translation_cases/*.sql with their cypher_params, cypher/test/cases/*.json) and "
            "generated queries (structured generator over MATCH/OPTIONAL MATCH/UNWIND/WITH/RETURN/ORDER BY/SKIP/LIMIT/quantifiers/paths/updates, 400 quick, 2x4500 thorough) "
            "x 7 renaming kinds of ALL user variables+aliases and parameters applied to the parsed model: fresh names; translator names (n0 e0 s0 i0 pi0 ep0 path depth "
            "root_id next_id satisfied is_cycle _kind_idx, column names, ...); cross-namespace collisions (a parameter spelled like a variable and vice versa); SQL keywords; "
            "spellings differing only in case; permutation of the query's own names; probe (one variable takes the spelling of a generated identifier that occurs in the "
            "original translation); sys (once per query, plus 12 re-aliasing shapes): the query is translated first, the generated identifier every user variable / alias / "
            "parameter actually received is read off the scope trace (verif hook; fallback: identifiers in the SQL), and then each symbol alone AND all symbols at once are "
            "renamed to (i) their OWN generated identifier(s), (ii) the generated identifier of every other user binding (thorough: every identifier defined in the translation), "
            "(iii) the next counter value(s) of all eight prefix classes, i.e. identifiers the translation generates later — about 30 renamings per query quick. escaped (variables / aliases take back-tick escaped names: double quotes and backslashes in every combination, control characters, U+200B, non-BMP runes, "
            "63- and 64-byte names, SQL keywords and generated identifiers WITH back-ticks, comment / dollar-quote openers). TOKEN-LEVEL ORACLE on every pair that passes the "
            "masked comparison: the two UNMASKED statements are lexed with a PostgreSQL lexer (harness/pglex.go: comments, '' strings, \"\" identifiers, $tag$, parameters, "
            "operators) and must have the same token sequence, identifier tokens differing only as (value of x, value of the renamed x). Both models are translated by the real translate.Translate; SQL (outermost projection aliases and ORDER BY references to them masked) and "
            "result parameters must be equal and both must fail or succeed alike. Non-trivial = the original translates and at least two distinct user symbols were renamed; "
            "distinct = distinct (query, kind, seed) op lines (sha1)",
    "expected_branches": ["class.ok", "kind.cross", "kind.translator", "kind.probe", "kind.sys", "kind.escaped", "sys_renamings", "translated_pairs_ge2_frames"],
    "trusted_base": ["tools/extract/goext c06 (syntactic provenance of Scope access arguments; go/ast only)",
                     "the metamorphic oracle in harness/c06.go (renaming by reflection over the cypher model, alias masking on the pgsql AST)",
                     "harness/pglex.go, a Go PostgreSQL lexer with the token classes of the Lean lexer of C04 (token-level half of the oracle)",
                     "the transcription Model/C06.lean of translate/tracking.go (tied op-by-op to the real Scope only when hooks/C06.patch is applied)"],
    "assumptions": ["Lean theorems are about the Scope and the seven patterns in which the translator uses it; the rest of the translator (22k lines) is covered by the metamorphic search only",
                    "renamings are applied to the parsed model (cypher.Variable / cypher.Parameter symbols incl. projection aliases); the parser's handling of unusual spellings is C07/C08"],
    "extra_coverage": extra_coverage,
    "explanation": "proof on the scope model + metamorphic search on the real translator",
}

MANIFEST = {
    "category": "proof",
    "technique": "Lean 4 proof of renaming invariance of the identifier scope (all operation sequences; re-keying commutation + generated-name invariant) "
                 "with the shared-table defect refuted by witness, kernel-checked side conditions on a regenerated table of scope accesses, "
                 "and a metamorphic renaming search on the real translator",
    "text": "Lean: for every sequence of scope operations the translator can issue (DefineNew, Alias / AliasParameter after DefineNew, AliasedLookup, ParameterLookup, Lookup, "
            "frames, PruneDefinitions and the seven binding patterns of pattern.go/translator.go/unwind.go/projection.go/with.go/quantifiers.go) generated identifiers are fresh, "
            "no user spelling is ever a key of definitions, alias targets are pairwise distinct, and every result is invariant under any re-keying of user symbols that is "
            "injective on the symbols in play (alias_only_lookup). Hence FULL renaming invariance holds for the live scope, whose parameters have their own alias table "
            "(scope_renaming_fixed / c06_full); for the old shared table only the partial statement holds and the full one is refuted (…_old theorems = F10). The regenerated "
            "access-site table proves that user-derived identifiers reach definitions only through AliasedLookup / ParameterLookup, that the parameter case of the translator uses "
            "only the parameter table (parameter_path_separate) and pins the seven Lookup-then-AliasedLookup fallbacks. The rest of the translator is searched: every corpus and "
            "generated query x 7 adversarial renaming kinds must give the same SQL up to output aliases.",
    "note": "Proof level applies to the scope model; translator code outside the scope is covered by search only (partial). F10 (parameter/variable shared alias table) is fixed "
            "(entry status fixed); two renaming sensitivities remain known with specific keys (user alias emitted as an inner CTE column by the aggregate traversal "
            "count lowering; path variable spelled like a pruned generated identifier captured by pathCompositeBinding). Trusted: Lean kernel, extractor, harness oracle.",
}
