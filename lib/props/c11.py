import re
import regen

P = "Dawgs.C11.Props."
THEOREMS = {
    "Dawgs.Props.C11": [P + n for n in (
        # generic, proved once for every schema / table / tree / visitor
        "copy_equal_and_fresh", "generic_terminates", "monitor_accepts_generic", "enter_exit_nested",
        "consume_next_is_exit", "consume_prunes_exactly_subtree", "tree_monitor_accepts_generic", "consume_schedule_complete", "handler_calls_exact", "setError_nil_never_cancels", "walk_leaves_handler_clean", "reused_visitor_walk", "reused_done_visitor_walks_nothing", "done_stops_immediately", "error_stops_immediately",
        "nil_branch_is_error", "plain_walk", "structural_visits_all", "semantic_subset_structural",
        # instance side conditions on the regenerated tables (decide +kernel)
        "extractor_recognised_everything", "generic_shape_inst", "handler_shape_inst", "semanticSubset_inst", "branchesComplete_inst", "copyTotal_inst", "helpers_allocate_inst",
        "schemaCopyOK_inst",
        # current code: the full statement, both halves
        "c11_copy", "c11_walk",
        # the old copy table (errors copied by assignment), as a named constant: refutation, partial, repaired
        "schemaCopyOK_old_fails", "c11_copy_full_refuted_old", "schemaCopyOK_partial_old", "c11_copy_partial_old",
        "schemaCopyOK_fixed_old", "c11_copy_fixed_old",
    )],
}


def do_regen(ctx):
    regen.c11()


def _field(line, name):
    m = re.search(r"(?:^| )%s=(\S*)" % name, line)
    return m.group(1) if m else None


def model_input(op, impl):
    """The model sees the scripts of the op line and the value the implementation actually built/parsed."""
    if op.split()[:1] == ["types"]:
        return "types"
    if impl == "parse-error":
        return "parse-error"
    if not impl.startswith("ok ") or " | sexp=" not in impl:
        return "bad " + impl[:60].replace("\n", " ")
    toks = op.split()
    if len(toks) < 2:
        return "bad-op"
    return "case %s nilish=%s %s" % (toks[1], _field(impl, "nilish") or "0", impl.split(" | sexp=", 1)[1])


def pg_model_input(op, impl):
    if not impl.startswith("ok ") or " | tree=" not in impl:
        return impl.split()[0] if impl.split() else "bad"
    return "tree %s %s" % (op.split()[1], impl.split(" | tree=", 1)[1])


def pg_impl_view(impl):
    return impl.split(" | tree=", 1)[0]


def impl_view(impl):
    """Compared with the model: copy equality + aliased fields, and every walk's returned value and event log."""
    if not impl.startswith("ok "):
        return impl
    parts = impl.split(" | sexp=", 1)[0].split(" | ")
    return " | ".join([" ".join(parts[0].split()[:3])] + parts[1:])


def _walks(impl):
    out = {}
    for sec in impl.split(" | sexp=", 1)[0].split(" | ")[1:]:
        t = sec.split()
        if len(t) == 4 and t[0] == "W":
            out[t[1]] = (t[2], t[3])
    return out


def nontrivial(ops, impl):
    # a value with >= 3 nodes on which at least one scripted action changed the traversal (log differs from the
    # never-acting walk of the same walker), or a nil branch was reported
    for r in impl:
        if not r.startswith("ok "):
            continue
        try:
            if int(_field(r, "nodes") or "0") < 3:
                continue
        except ValueError:
            continue
        w = _walks(r)
        for k, (res, log) in w.items():
            base = w.get(k[:2] + ":0:n")
            if res == "cerr" or (not k.endswith(":n") and base and (res, log) != base):
                return True
    return False


def finding_key(suite, ops, line, msg):
    t = msg.split()
    cls = t[1] if len(t) > 1 else "reject"
    det = t[2] if len(t) > 2 else ""
    if cls.startswith("copy-"):
        return "C11:cypher.Copy:%s:%s" % (cls[5:], re.sub(r"^[abe]:", "", det))
    if cls.startswith("walk-"):
        return "C11:walk.Generic:%s:%s" % (cls[5:], det.split(":")[0])
    if cls == "structural-misses-node":
        return "C11:newCypherStructuralWalkCursor:misses:%s" % det
    return "C11:%s" % cls


SPEC = {
    "id": "C11",
    "title": "query-model utilities are structure-preserving: deep copy and complete traversal",
    "level": "proof",
    "regen": do_regen,
    "lean_modules": ["Dawgs.Props.C11"],
    "theorems_by_module": THEOREMS,
    "gate_modules": ["Dawgs.Model.C11", "Dawgs.Spec.C11", "Dawgs.Proofs.C11", "Dawgs.Proofs.C11Data", "Dawgs.Proofs.C11Nodup", "Dawgs.Proofs.C11Tree", "Dawgs.Props.C11",
                     "Dawgs.Generated.C11"],
    "suites": [{"name": "c11", "model_suite": "c11", "monitor_suite": "c11mon", "model_input": model_input,
                "impl_view": impl_view, "keep_prefix": 1, "thorough_seeds": 2},
               {"name": "c11pg", "model_suite": "c11pg", "monitor_suite": "c11mon", "model_input": pg_model_input,
                "impl_view": pg_impl_view, "keep_prefix": 1, "thorough_seeds": 1}],
    "nontrivial": nontrivial,
    "finding_key": finding_key,
    "rule": "cases = the type registry check + random query-model values of EVERY node type built by reflection over the struct definitions "
            "(4 seeds x depths 1-4 per type quick, 40 thorough; optionals set/unset, nil/empty/EMPTY-BUT-ALLOCATED (len 0, cap 1-2, or drained through the model's own Add+Remove)/non-empty slices and maps, 0-4 AddError calls, opaque "
            "any payloads incl. slices/maps; every 4th value 'nilish': nil slice elements / typed-nil pointers in interfaces) + the model parsed from every "
            "Cypher text of the repository corpora (every third one, thorough: every one, a second time with all expression lists drained through their own Remove: op qd); per case the real Copy (DeepEqual + rendering equality, aliased fields by address incl. the backing array of every slice with cap > 0 even when empty, 3-phase mutate-and-recompare where both sides append DIFFERENT elements) and both "
            "real walkers with the never-acting visitor plus 4 (thorough 16; all (k,act) when <= 24 callbacks) scripted visitors consume/done/error at the k-th callback, plus CONSUME SCHEDULES per walker: "
            "SEQUENCES of two walks with ONE visitor object (A>B: A = bare leaf root consumed in Enter / Exit / both, the value with Consume in every Exit incl. the root's, in its last callback, cancelled, failed; "
            "B = the value with a never-acting or scripted visitor; oracle: B like a fresh visitor unless A was cancelled, then no callback), handler-call sequences (SetError(nil) in every callback, nil error + Consume, SetError twice, SetError after SetDone, SetDone then nil error, at label-determined and random positions), Consume in every Exit (*X), every Visit (*V), in Enter+Exit / Enter+Visit+Exit of label-determined node sets (#m.r), and in Enter(X)+Exit(X) of positions k+(k+1) (3 random; all when <= 16, thorough <= 40 callbacks), "
            "k uniform over the walk's length (splitmix64(VERIF_SEED)); the Lean model gets the real value as an S-expression and must predict copy equality, the aliased "
            "fields and every event log; suite c11pg: walk.PgSQL with the same scripts over the PostgreSQL AST the real translator emits for every corpus query, branch tree "
            "decoded from the never-acting walk, model must reproduce every log incl. Visit placement; non-trivial = value has >= 3 nodes and a scripted action changed the traversal or a nil branch was reported; distinct = distinct op lines",
    "expected_branches": ["walk.consume_fired", "walk.done_fired", "walk.error_fired", "walk.nil_error_fired", "walk.cerr", "walk.verr", "values.nilish",
                          "values.with_errors", "copy.shared_nonempty", "copy.indep_broken", "copy.opaque_ref_payload", "parse.error",
                          "pg.statements", "pg.walk.ok", "pg.walk.verr"],
    "trusted_base": [
        "tools/extract/goext mode c11 (go/ast, syntactic): schema, copy table, branch tables; cross-checked on every case by the harness (type names, field names and order from "
        "reflection must equal the extracted schema; aliased-field report and both walkers' event logs must equal what the model derives from the extracted tables)",
        "graph.Kind values are immutable; builtin copy() of []string; Go slice/append semantics; the helper facts (every return of Copy, each copy(), copySlice, graph.Kinds.Copy "
        "yields a fresh object or nil, never the argument) are read syntactically by tools/extract/goext/c11helpers.go and are a side condition of schemaCopyOK",
        "opaque any payloads (Literal.Value, Parameter.Value) are immutable scalars (the harness reports slice/map/pointer dynamic types it meets: counter copy.opaque_ref_payload; none in parsed corpus models)",
    ],
    "assumptions": [
        "copy_equal_and_fresh assumes Copy does not panic on the value (copyPanics = false); copyTotal_inst shows every node type and every deep field's static type has a case, "
        "and the harness observed no panic on any clean value; typed-nil pointers / nil slice elements are outside the property's quantifier (8 copy() methods dereference a nil receiver)",
        "values are trees: a pointer shared inside one model is copied twice by Copy (harness counter values.dag = 0 on all parsed corpus models)",
        "walk.PgSQL: only the walk.Generic protocol is claimed (no completeness statement exists for the pgsql cursor constructor; statements containing node types it has no case for "
        "— *pgsql.RecordShape, pgsql.Wildcard, Insert/Update/Delete — make it return an error, counted as pg.unhandled.* in branch_hist)",
    ],
}

MANIFEST = {
    "category": "proof",
    "technique": "Lean 4 generic theorems over schema/copy-table/branch-table + exact transcription of walk.Generic for all trees and visitors; instantiated by kernel-checked "
                 "decide on tables regenerated from model.go/copy.go/walk_cypher.go; differential tie on reflection-built and parsed models, both real walkers, scripted visitors",
    "text": "Proved for every finite tree and every visitor (function of the event history): walk.Generic terminates; its event log is always well nested and a full Dyck word when the "
            "visitor never cancels; after Consume the next event is the node's Exit and exactly the consumed subtrees are skipped; nothing follows SetDone/SetError and the right value is "
            "returned; a nil branch yields the constructor error instead of being skipped. Proved for every schema and table: if the copy table is deep-or-harmlessly-shallow, Copy's result is equal "
            "up to addresses and shares no mutable address with the original; if the structural branch table covers the schema, the structural walk enters every node the schema defines, and a "
            "superset of the semantic walk. The side conditions are decided by the kernel on tables extracted from the current sources on every run, so a new field that copy() or a cursor "
            "constructor forgets breaks the build. Current code: all side conditions hold, so both halves are theorems at full strength (c11_copy, c11_walk). The former defect — "
            "errorContext.errors copied by assignment, append aliasing between a model and its copy, fixed by Copy(s.errors) + case []error — is kept as theorems over the named old table "
            "(refutation by witness, partial, repaired) and as regression cases in corpus/C11.",
    "note": "Trusted: Lean kernel, the syntactic extractor (cross-checked per case against reflection and the real walkers' logs), Go slice semantics, immutability of graph.Kind and opaque payloads.",
}
