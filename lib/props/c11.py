import re
import regen

P = "Dawgs.C11.Props."
THEOREMS = {
    "Dawgs.Props.C11": [P + n for n in (
        # generic, proved once for every schema / table / tree / visitor
        "copy_equal_and_fresh", "generic_terminates", "monitor_accepts_generic", "enter_exit_nested",
        "consume_next_is_exit", "consume_prunes_exactly_subtree", "tree_monitor_accepts_generic", "consume_schedule_complete", "handler_calls_exact", "setError_nil_never_cancels", "walk_leaves_handler_clean", "reused_visitor_walk", "reused_done_visitor_walks_nothing", "done_stops_immediately", "error_stops_immediately",
        "nil_branch_is_error", "plain_walk", "structural_visits_all", "semantic_subset_structural",
        # instance side conditions on the regenerated tables (decide +kernel)
        "extractor_recognised_everything", "generic_shape_inst", "handler_shape_inst", "semanticSubset_inst", "branchesComplete_inst", "copyTotal_inst", "helpers_allocate_inst",
        "schemaCopyOK_inst",
        # current code: the full statement, both halves
        "c11_copy", "c11_copy_total", "copy_total", "typesHandled_inst", "schema_typed_allHandled", "c11_copy_welltyped", "c11_walk", "c11",
        # the old copy table (errors copied by assignment), as a named constant: refutation, partial, repaired
        "schemaCopyOK_old_fails", "c11_copy_full_refuted_old", "schemaCopyOK_partial_old", "c11_copy_partial_old",
        "schemaCopyOK_fixed_old", "c11_copy_fixed_old",
    )],
}

# property clause -> theorem(s) that prove it for ALL values / trees / visitors / schedules, with their hypotheses | what is only tied or searched
CLAUSES = {
    "copy is structurally equal to the original":
        "c11_copy / c11_copy_total (= copy_equal_and_fresh + schemaCopyOK_inst by decide +kernel on the regenerated copy table): erase(copy v) = erase v for every value v. "
        "Hypothesis of c11_copy_welltyped: wellTyped tables v - the value is well-typed against the extracted schema (each position holds nil, a scalar, a node of exactly the static type, or in "
        "interface positions a node of any schema node type; element types of slices/maps included) and contains no typed-nil pointer. schema_typed_allHandled + typesHandled_inst (decide) reduce "
        "this to allHandled (every node has a Copy case), copy_never_panics to 'Copy does not panic'. The harness checks welltyped=1 by reflection on every real model and the model must compute the same.",
    "copy shares no mutable part (later changes to either side invisible in the other)":
        "same theorems, second half: no address in mutAddrs(copy v) occurs in v. Every slice / map / struct pointer carries an address, also EMPTY slices (backing arrays at len 0). "
        "'Mutable' excludes only value fields, opaque any payloads and frozen scalar slices (none is frozen in the current tables). Hypotheses: allHandled v; the allocator hands out "
        "addresses not used by v. The side condition includes helpers_allocate_inst (decide): every function on a copy path - the Copy dispatcher, all copy() methods, copySlice and the "
        "library collaborator graph.Kinds.Copy - returns a fresh object or nil on every return path and never its argument (facts read by c11helpers.go from every return statement).",
    "structural walk visits every modelled child exactly once":
        "c11_walk / structural_visits_all + branchesComplete_inst (decide): for every value whose structural branch tree has no nil branch the never-acting structural walk returns nil, its "
        "enter list has no duplicate (nodes identified by access path: treeOf_nodup) and contains every node the SCHEMA says the value has (treeOf_sub). For arbitrary Consume schedules: "
        "consume_schedule_complete / tree_monitor_accepts_generic (every node not below a consumed node entered and exited once, in branch order).",
    "properly nested enter/exit notifications":
        "enter_exit_nested (every tree, EVERY visitor: the log is a prefix of a Dyck word; complete Dyck word when no callback cancels and nil is returned) and monitor_accepts_generic.",
    "visits a superset of the semantic walk":
        "c11_walk / semantic_subset_structural + semanticSubset_inst (decide). Hypothesis: neither branch tree contains a nil branch; never-acting visitors.",
    "stops immediately when the visitor asks to stop (Done / error)":
        "done_stops_immediately, error_stops_immediately (every tree, every visitor: no event after the callback, nil resp. the visitor's error returned); "
        "generic_shape_inst (decide): in walk.go the error check follows every callback and the done check every Enter / Visit.",
    "reports (rather than skips) nil branches":
        "nil_branch_is_error, plain_walk (a nil branch outside consumed subtrees makes the walk return the constructor's error; without one it returns nil). Which values have nil branches "
        "is decided by the extracted branch tables (nil slice elements; typed-nil pointers where the constructor has no isNilNode guard).",
    "consume schedules (added): Consume in Enter / Visit / Exit, in several callbacks of one node":
        "consume_next_is_exit, consume_prunes_exactly_subtree, consume_schedule_complete, tree_monitor_accepts_generic - all for every tree; the last three for EVERY visitor (function of the history).",
    "handler methods (added): Consume / SetDone / SetError(nil and non-nil) / WasConsumed":
        "handler_calls_exact (any call sequence = its net action, exact), setError_nil_never_cancels; handler_shape_inst (decide on facts read from the handler's method bodies).",
    "reused visitors (added): sequences of walks with one visitor object":
        "walk_leaves_handler_clean (no cancelling callback => handler back in its initial state, any Consume schedule), reused_visitor_walk (the next walk equals a fresh visitor's), "
        "reused_done_visitor_walks_nothing (a cancelled / failed visitor gets no callback; done and err persist by design).",
    "termination": "generic_terminates (every finite tree, every visitor; fuel 2*size+2).",
    "full statement": "def C11_full = C11_copy_full /\\ C11_walk_full, theorem c11 : C11_full (current code). Old copy table: c11_copy_full_refuted_old etc. over the named constant tablesOld.",
    "searched only (tie)":
        "that the Lean objects are what the Go code does: (1) the transcription of walk.Generic and of the handler (event-by-event equality of every scripted walk incl. handler-call sequences, "
        "consume schedules and two-walk sequences, for walk.Cypher, walk.CypherStructural and walk.PgSQL); (2) that treeOf on the extracted branch tables is what newCypherWalkCursor / "
        "newCypherStructuralWalkCursor yield (same comparison) and that the extracted schema is the real one (type and field names from reflection); (3) that the extracted copy table and helper "
        "facts describe cypher.Copy (aliased-field report incl. backing arrays of empty slices, 3-phase mutate-and-recompare with different appends on both sides, drained lists); "
        "(4) the pgsql cursor constructor is not tabulated at all: its branch tree is decoded from the real never-acting log, only the Generic protocol is checked on it; "
        "(5) graph.Kinds.Copy copies its elements with the builtin copy (only its return paths are read); Go slice / append / map semantics.",
    "named assumptions":
        "values are trees (a pointer shared inside one model is duplicated by Copy; none in parsed corpus models); opaque any payloads (Literal.Value, Parameter.Value) and graph.Kind / error "
        "values are immutable scalars; typed-nil pointers and nil slice elements are outside the property's quantifier for Copy (8 copy() methods dereference a nil receiver) - for the walkers "
        "they are covered (nil_branch_is_error); visitors are functions of the event history of the current walk (no hidden state other than the handler); the extractors are syntactic.",
}


def extra_coverage(ctx, stats):
    return {"clause_map": CLAUSES,
            "proved_for_the_live_code": ["C11_full (c11)", "c11_copy_total (no panic hypothesis)"],
            "refuted_for_the_old_copy_table": ["C11_copy_full_old (c11_copy_full_refuted_old; fixed in a4462d5)"]}



def do_regen(ctx):
    regen.c11()


def _field(line, name):
    m = re.search(r"(?:^| )%s=(\S*)" % name, line)
    return m.group(1) if m else None


def model_input(op, impl):
    """The model sees the scripts of the op line and the value the implementation actually built/parsed."""
    if op.split()[:1] == ["types"]:
        return "types"
    if impl == "parse-error":
        return "parse-error"
    if not impl.startswith("ok ") or " | sexp=" not in impl:
        return "bad " + impl[:60].replace("\n", " ")
    toks = op.split()
    if len(toks) < 2:
        return "bad-op"
    return "case %s nilish=%s %s" % (toks[1], _field(impl, "nilish") or "0", impl.split(" | sexp=", 1)[1])


def pg_model_input(op, impl):
    if not impl.startswith("ok ") or " | tree=" not in impl:
        return impl.split()[0] if impl.split() else "bad"
    return "tree %s %s" % (op.split()[1], impl.split(" | tree=", 1)[1])


def pg_impl_view(impl):
    return impl.split(" | tree=", 1)[0]


def impl_view(impl):
    """Compared with the model: copy equality + aliased fields, and every walk's returned value and event log."""
    if not impl.startswith("ok "):
        return impl
    parts = impl.split(" | sexp=", 1)[0].split(" | ")
    return " | ".join([" ".join(parts[0].split()[:3] + ["welltyped=%s" % (_field(parts[0], "welltyped") or "?")])] + parts[1:])


def _walks(impl):
    out = {}
    for sec in impl.split(" | sexp=", 1)[0].split(" | ")[1:]:
        t = sec.split()
        if len(t) == 4 and t[0] == "W":
            out[t[1]] = (t[2], t[3])
    return out


def nontrivial(ops, impl):
    # a value with >= 3 nodes on which at least one scripted action changed the traversal (log differs from the
    # never-acting walk of the same walker), or a nil branch was reported
    for r in impl:
        if not r.startswith("ok "):
            continue
        try:
            if int(_field(r, "nodes") or "0") < 3:
                continue
        except ValueError:
            continue
        w = _walks(r)
        for k, (res, log) in w.items():
            base = w.get(k[:2] + ":0:n")
            if res == "cerr" or (not k.endswith(":n") and base and (res, log) != base):
                return True
    return False


def finding_key(suite, ops, line, msg):
    t = msg.split()
    cls = t[1] if len(t) > 1 else "reject"
    det = t[2] if len(t) > 2 else ""
    if cls.startswith("copy-"):
        return "C11:cypher.Copy:%s:%s" % (cls[5:], re.sub(r"^[abe]:", "", det))
    if cls.startswith("walk-"):
        return "C11:walk.Generic:%s:%s" % (cls[5:], det.split(":")[0])
    if cls == "structural-misses-node":
        return "C11:newCypherStructuralWalkCursor:misses:%s" % det
    return "C11:%s" % cls


SPEC = {
    "id": "C11",
    "title": "query-model utilities are structure-preserving: deep copy and complete traversal",
    "level": "proof",
    "regen": do_regen,
    "lean_modules": ["Dawgs.Props.C11"],
    "theorems_by_module": THEOREMS,
    "gate_modules": ["Dawgs.Model.C11", "Dawgs.Spec.C11", "Dawgs.Proofs.C11", "Dawgs.Proofs.C11Data", "Dawgs.Proofs.C11Nodup", "Dawgs.Proofs.C11Tree", "Dawgs.Props.C11",
                     "Dawgs.Generated.C11"],
    "suites": [{"name": "c11", "model_suite": "c11", "monitor_suite": "c11mon", "model_input": model_input,
                "impl_view": impl_view, "keep_prefix": 1, "thorough_seeds": 2},
               {"name": "c11pg", "model_suite": "c11pg", "monitor_suite": "c11mon", "model_input": pg_model_input,
                "impl_view": pg_impl_view, "keep_prefix": 1, "thorough_seeds": 1}],
    "nontrivial": nontrivial,
    "finding_key": finding_key,
    "extra_coverage": extra_coverage,
    "rule": "cases = the type registry check + random query-model values of EVERY node type built by reflection over the struct definitions "
            "(4 seeds x depths 1-4 per type quick, 40 thorough; optionals set/unset, nil/empty/EMPTY-BUT-ALLOCATED (len 0, cap 1-2, or drained through the model's own Add+Remove)/non-empty slices and maps, 0-4 AddError calls, opaque "
            "any payloads incl. slices/maps; every 4th value 'nilish': nil slice elements / typed-nil pointers in interfaces) + the model parsed from every "
            "Cypher text of the repository corpora (every third one, thorough: every one, a second time with all expression lists drained through their own Remove: op qd); per case the real Copy (DeepEqual + rendering equality, aliased fields by address incl. the backing array of every slice with cap > 0 even when empty, 3-phase mutate-and-recompare where both sides append DIFFERENT elements) and both "
            "real walkers with the never-acting visitor plus 4 (thorough 16; all (k,act) when <= 24 callbacks) scripted visitors consume/done/error at the k-th callback, plus CONSUME SCHEDULES per walker: "
            "SEQUENCES of two walks with ONE visitor object (A>B: A = bare leaf root consumed in Enter / Exit / both, the value with Consume in every Exit incl. the root's, in its last callback, cancelled, failed; "
            "B = the value with a never-acting or scripted visitor; oracle: B like a fresh visitor unless A was cancelled, then no callback), handler-call sequences (SetError(nil) in every callback, nil error + Consume, SetError twice, SetError after SetDone, SetDone then nil error, at label-determined and random positions), Consume in every Exit (*X), every Visit (*V), in Enter+Exit / Enter+Visit+Exit of label-determined node sets (#m.r), and in Enter(X)+Exit(X) of positions k+(k+1) (3 random; all when <= 16, thorough <= 40 callbacks), "
            "k uniform over the walk's length (splitmix64(VERIF_SEED)); the Lean model gets the real value as an S-expression and must predict copy equality, the aliased "
            "fields and every event log; suite c11pg: walk.PgSQL with the same scripts over the PostgreSQL AST the real translator emits for every corpus query, branch tree "
            "decoded from the never-acting walk, model must reproduce every log incl. Visit placement; non-trivial = value has >= 3 nodes and a scripted action changed the traversal or a nil branch was reported; distinct = distinct op lines",
    "expected_branches": ["walk.consume_fired", "walk.done_fired", "walk.error_fired", "walk.nil_error_fired", "walk.cerr", "walk.verr", "values.nilish",
                          "values.with_errors", "copy.shared_nonempty", "copy.indep_broken", "copy.opaque_ref_payload", "parse.error",
                          "pg.statements", "pg.walk.ok", "pg.walk.verr"],
    "trusted_base": [
        "tools/extract/goext mode c11 (go/ast, syntactic): schema, copy table, branch tables; cross-checked on every case by the harness (type names, field names and order from "
        "reflection must equal the extracted schema; aliased-field report and both walkers' event logs must equal what the model derives from the extracted tables)",
        "graph.Kind values are immutable; builtin copy() of []string; Go slice/append semantics; the helper facts (every return of Copy, each copy(), copySlice, graph.Kinds.Copy "
        "yields a fresh object or nil, never the argument) are read syntactically by tools/extract/goext/c11helpers.go and are a side condition of schemaCopyOK",
        "opaque any payloads (Literal.Value, Parameter.Value) are immutable scalars (the harness reports slice/map/pointer dynamic types it meets: counter copy.opaque_ref_payload; none in parsed corpus models)",
    ],
    "assumptions": [
        "c11_copy_total needs allHandled v: every node of the value has a type Copy has a case for and there is no typed-nil pointer (copyTotal_inst: that is every schema node type and every "
        "deep field's static type); typed-nil pointers / nil slice elements are outside the property's quantifier for Copy (8 copy() methods dereference a nil receiver); the harness observed no panic on any clean value",
        "values are trees: a pointer shared inside one model is copied twice by Copy (harness counter values.dag = 0 on all parsed corpus models)",
        "walk.PgSQL: only the walk.Generic protocol is claimed (no completeness statement exists for the pgsql cursor constructor; statements containing node types it has no case for "
        "— *pgsql.RecordShape, pgsql.Wildcard, Insert/Update/Delete — make it return an error, counted as pg.unhandled.* in branch_hist)",
    ],
}

MANIFEST = {
    "category": "proof",
    "technique": "Lean 4 generic theorems over schema/copy-table/branch-table + exact transcription of walk.Generic for all trees and visitors; instantiated by kernel-checked "
                 "decide on tables regenerated from model.go/copy.go/walk_cypher.go; differential tie on reflection-built and parsed models, both real walkers, scripted visitors",
    "text": "Proved for every finite tree and EVERY visitor (a function of the event history, i.e. any schedule of Consume / SetDone / SetError(nil or non-nil) calls): walk.Generic terminates; "
            "its log is a prefix of a Dyck word, a complete one when no callback cancels and nil is returned; after Consume in Enter/Visit the next event is the node's Exit; replayed against the branch "
            "tree every node not below a consumed node is entered and exited exactly once in branch order, a Consume in Exit prunes nothing; nothing follows SetDone / SetError(non-nil) and nil resp. the "
            "error is returned; SetError(nil) never cancels; a nil branch yields the constructor's error; an uncancelled walk leaves the handler in its initial state, so walks with a reused visitor "
            "equal fresh ones, and a cancelled visitor gets no further callback. Proved for every schema and table and instantiated by kernel-checked decide on tables regenerated from the current "
            "sources (theorem c11 : C11_full): Copy's result equals the original up to addresses and shares no address through which a mutation is possible (empty slices included; helper functions "
            "incl. graph.Kinds.Copy never return their argument), for every value built from types Copy has a case for and without typed-nil pointers; on every value without nil branches the structural "
            "walk returns nil, enters no node twice, enters every node the schema defines, and a superset of the semantic walk. That the tables and the transcription are what the Go code does rests "
            "on the differential tie (see coverage.clause_map in the evidence); the pgsql cursor constructor is only tied, not tabulated. The defect found earlier (errors slice shared between a model and "
            "its copy, fixed in a4462d5) is kept as theorems over the named old table and as corpus regression cases.",
    "note": "Trusted: Lean kernel, the syntactic extractors (cross-checked per case against reflection, the aliasing report and the real walkers' logs), Go slice/append/map semantics, immutability of "
            "graph.Kind, error values and opaque any payloads. Hypotheses carried by the instance theorems: values are trees built from handled types without typed-nil pointers (copy); no nil branch in the "
            "branch tree and never-acting visitors (visits-all, superset).",
}
