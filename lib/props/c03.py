import json, os, re
import regen

THEOREMS = {
    "Dawgs.Props.C03": [
        "Dawgs.C03.Props.schema_tables_tie", "Dawgs.C03.Props.schema_composites_tie", "Dawgs.C03.Props.schema_functions_tie",
        "Dawgs.C03.Props.wellScoped_sound", "Dawgs.C03.Props.wellScoped_no_error", "Dawgs.C03.Props.wellScoped_no_unbound",
        "Dawgs.C03.Props.applyShape_match", "Dawgs.C03.Props.cte_columns_match",
        "Dawgs.C03.Props.params_closed", "Dawgs.C03.Props.missing_param_rejected", "Dawgs.C03.Props.c03_partial",
        "Dawgs.C03.Props.c03_partial_S2", "Dawgs.C03.Props.tr_wellScoped", "Dawgs.C03.Props.c03_partial_S3", "Dawgs.C03.Props.c03_partial_S4", "Dawgs.C03.Props.c03_partial_S5", "Dawgs.C03.Props.c03_partial_S6", "Dawgs.C03.Props.c03_partial_S7", "Dawgs.C03.Props.c03_partial_S8", "Dawgs.C03.Props.c03_partial_S9", "Dawgs.C03.Props.c03_partial_S10",
    ],
}


def do_regen(ctx):
    regen.schema()


def _sql(impl):
    m = re.search(r' sql=("(?:[^"\\]|\\.)*")', impl)
    try:
        return json.loads(m.group(1)) if m else ""
    except Exception:
        return ""


def model_input(op, impl):
    m = re.match(r"ok upd=(\d) params=(\(list[^)]*\)) sql=.*? stmt=(.*)$", impl)
    if not m:
        return "skip"
    return "stmt upd=%s %s %s" % (m.group(1), m.group(2), m.group(3))


def _cte_body(sql, name):
    """text of the definition of CTE `name` (between its parentheses), or None"""
    m = re.search(r"\b%s(?:\([^)]*\))? as (?:not materialized |materialized )?\(" % re.escape(name), sql)
    if not m:
        return None
    depth, i = 0, m.end() - 1
    for j in range(i, len(sql)):
        if sql[j] == "(":
            depth += 1
        elif sql[j] == ")":
            depth -= 1
            if depth == 0:
                return sql[i + 1:j]
    return None


# ---------------------------------------------------------------------------------------------------------------------------------------
# FINDING KEYS.  key = C03:<symptom>:<sql site>:<query shape>
#   symptom    what the verified binder / resolution semantics reports (unbound frame sN, unbound table alias nK / eK, missing column, …)
#   sql site   WHERE in the emitted statement the dangling reference sits, read off the SQL text: for an unbound frame sN — inside sN's own
#              definition (and how sN appears in that FROM clause: `from sN join edge`, `, unnest(`, `left outer join`, lateral, seed, comma)
#              or only in its select list (`select-list-only`), or in a later select that lacks sN in FROM (`referenced-outside-definition`),
#              or never defined; for an unbound alias — forward reference in a JOIN … ON, a binding that exists only as a select-list alias
#              (`binding-referenced-without-frame`), or an alias that is defined nowhere (`alias-undefined`).
#   shape      the ENABLING feature of the Cypher query: lib/cyshape.py computes a fixed vocabulary of structural features of the query text
#              (clause sequence, which pattern / WHERE / inline property map / WITH item reads a binding of an earlier clause, variable-length
#              steps, repeated node variables, alias rebinding …); SHAPES lists, per symptom:site, the feature sets that the registered
#              findings are CAUSED by (first match wins). A query that shows the symptom at that site WITHOUT any listed enabling feature set
#              gets the shape `unrecognised-query-shape` — that key is never registered, so it is a VIOLATION. Query-builder ASTs (`b` ops)
#              have the shape `query-builder-ast`.
# The focused generator families (harness/focused.go) emit minimal queries per shape, so a regression on one of them carries few features
# and cannot borrow the enabling features of a registered finding.
import cyshape

SHAPES = {
    "frame-cte-referenced-in-own-definition:bound-node-traversal": [
        ("undirected-step-between-carried-nodes-in-part-followed-by-with", {"undirected-step-in-pattern-that-uses-earlier-binding", "rel-pattern-in-part-followed-by-with"}),
        ("traversal-in-part-followed-by-with", {"rel-pattern-in-part-followed-by-with"})],
    "frame-cte-referenced-in-own-definition:optional-match-left-join": [("optional-match-after-earlier-clause", {"optional-match-after-earlier-clause", "with"})],
    "frame-cte-referenced-in-own-definition:unwind-source": [("unwind-first-in-part-followed-by-with", {"unwind-first-in-part-followed-by-with"})],
    "frame-cte-referenced-in-own-definition:bound-node-expansion-seed": [("expansion-from-carried-node", {"varlen-uses-earlier-binding", "rel-pattern-in-part-followed-by-with"})],
    "frame-cte-referenced-in-own-definition:comma-joined-pattern": [("expansion-after-earlier-clause-in-part-followed-by-with", {"varlen-after-earlier-clause", "rel-pattern-in-part-followed-by-with"})],
    "join-on-forward-reference:node-alias": [("same-node-variable-twice-in-pattern", {"same-node-var-twice-in-pattern"})],
    "frame-cte-undefined:never-defined": [("self-loop-pattern-after-leading-unwind", {"leading-unwind", "same-node-var-twice-after-earlier-clause"})],
    "frame-column-missing:sN.iN": [("unwind-then-optional-match", {"unwind", "optional-match-after-earlier-clause", "with"})],
    "unsatisfied-future:pattern-predicate-placeholder": [("pattern-predicate-in-with-where", {"pattern-predicate-in-with-where"})],
    "binding-referenced-without-frame:edge": [
        ("labels-predicate-in-part-followed-by-with", {"labels-fn-in-where", "rel-pattern-in-part-followed-by-with"}),
        ("expansion-next-to-fixed-pattern", {"varlen", "rel-pattern"})],
    "frame-cte-missing-from-from-clause:referenced-outside-definition": [
        ("pattern-predicate-in-optional-match-with-comma-patterns", {"pattern-predicate-in-optional-match-with-comma-patterns"}),
        ("expansion-after-earlier-clause", {"varlen-after-earlier-clause"}),
        ("pattern-predicate", {"pattern-predicate"})],
    "frame-cte-referenced-in-own-definition:select-list-only": [
        ("variable-carried-then-renamed-in-one-with", {"with-variable-carried-then-renamed"}),
        ("expression-alias-onto-existing-name", {"with-expression-alias-onto-existing-name"}),
        ("path-variable-carried-through-with", {"path-variable-carried-through-with"}),
        ("expansion-pattern-closing-on-carried-node-in-part-followed-by-with", {"varlen-uses-earlier-binding", "rel-pattern-in-part-followed-by-with"}),
        ("pattern-predicate", {"pattern-predicate"})],
    "frame-column-missing:sN.nN": [("pattern-predicate-after-expansion", {"pattern-predicate", "varlen"})],
    "binding-referenced-without-frame:node": [
        ("expansion", {"varlen"}),
        ("pattern-predicate-after-earlier-clause", {"pattern-predicate", "match-after-earlier-clause"}),
        ("predicate-on-binding-carried-through-with", {"with"})],
}


def _symptom_site(verdict, sql):
    parts = verdict.split()
    kind, name = parts[0], (parts[1] if len(parts) > 1 else "")
    if kind == "unbound" and re.fullmatch(r"s\d+", name):
        body = _cte_body(sql, name)
        if body is None:
            return "frame-cte-undefined:never-defined"
        m = re.search(r"\bfrom %s\b(.{0,24})" % name, body)
        if m:
            after = m.group(1)
            shape = ("unwind-source" if after.startswith(", unnest(") else
                     "bound-node-traversal" if after.startswith(" join edge") else
                     "bound-node-expansion" if " join lateral" in after or after.startswith(", lateral") else
                     "optional-match-left-join" if after.startswith(" left outer join") else
                     "bound-node-expansion-seed" if (after.startswith(")") or after.startswith(" where")) else
                     "comma-joined-pattern" if after.startswith(", ") else "other-from-item")
            return "frame-cte-referenced-in-own-definition:" + shape
        if re.search(r"\b%s\." % name, body):
            # the frame is read in its own definition although it is no FROM item there at all
            return "frame-cte-referenced-in-own-definition:select-list-only"
        return "frame-cte-missing-from-from-clause:referenced-outside-definition"
    if kind == "unbound" and re.fullmatch(r"[ne]\d+", name):
        what = "node" if name.startswith("n") else "edge"
        for m in re.finditer(r"\bjoin (?:node|edge) %s on\b|\blateral \([^;]*?\) %s on\b" % (name, name), sql):
            seg = sql[sql.rfind(" from ", 0, m.start()):m.start()]
            if re.search(r"\b%s\." % name, seg):
                return "join-on-forward-reference:%s-alias" % what
        if re.search(r" as %s\b" % name, sql):
            return "binding-referenced-without-frame:" + what + ("-in-shortest-path-harness-filter" if "_harness(" in sql else "")
        return "alias-undefined:" + what
    m = re.fullmatch(r"(\w+)\[\]\.(\w+)", name)
    if kind == "unbound" and m:
        return "field-selection-on-array:" + m.group(1) + "[]"
    if kind == "unbound" and re.fullmatch(r"s\d+\.\w+", name):
        return "frame-column-missing:" + re.sub(r"\d+", "N", name)
    if kind == "dangling-future":
        return "unsatisfied-future:pattern-predicate-placeholder"
    if kind == "checker-disagrees":
        return "binder-vs-semantics:" + name
    return kind + ":" + re.sub(r"\d+", "N", name)[:40]


def _query_of(op):
    m = re.match(r'q ("(?:[^"\\]|\\.)*")', op)
    if not m:
        return None
    try:
        return json.loads(m.group(1))
    except ValueError:
        return None


def classify(verdict, sql, op=""):
    """finding class of a non-ok binder verdict: <symptom>:<sql site>:<query shape> (see the comment above SHAPES)"""
    ss = _symptom_site(verdict, sql)
    if op.startswith("b "):
        return ss + ":query-builder-ast"
    q = _query_of(op)
    if q is None:
        return ss + ":unrecognised-query-shape"
    feats = cyshape.features(q)
    for shape, need in SHAPES.get(ss, []):
        # the registered pattern-predicate classes are about a predicate that reads a binding of an EARLIER clause; a MATCH that binds a
        # path and holds a pattern predicate over its OWN bindings is a shape of its own (the path binding depends on the frame that the
        # predicate's snapshot scope replaces) — it is deliberately not registered, so any non-ok outcome on it is a VIOLATION
        # (single-MATCH queries without WITH / UNWIND only: with further clauses the unchanged translator already fails in ways that fall
        # under the registered classes — path variable carried through WITH, predicate reading an earlier binding)
        if need <= feats and not (need == {"pattern-predicate"} and "named-path-with-own-pattern-predicate" in feats and
                                  not (feats & {"with", "unwind", "match-after-earlier-clause"})):
            return ss + ":" + shape
    return ss + ":unrecognised-query-shape"


def impl_view(impl):
    return "-"


def model_view(model):
    return "-"


def judge(op, impl, model):
    if impl.startswith("panic"):
        return "reject harness-panic " + impl[:80]
    if impl.startswith("ident-differs"):
        # harness/identtie.go: the quoted identifiers of the SQL text are not the back-ticked identifiers of the statement tree
        return "reject text-identifiers-differ-from-statement:quoted-identifier " + impl[:300].replace(" ", "_")
    if not impl.startswith("ok "):
        return "ok"                                   # rejected / untranslatable input: nothing was emitted
    v = model.strip()
    if v == "ok" or v.startswith("unmodelled "):
        return "ok"
    if v in ("skip", "bad-op", ""):
        return "reject driver-could-not-read " + v
    return "reject %s %s" % (classify(v, _sql(impl), op), v.replace(" ", "_"))


def nontrivial(ops, impl):
    # the statement crosses at least two frames (CTEs) — bindings are handed from one scope to another
    return any(r.startswith("ok ") and r.count("(pgsql.CommonTableExpression ") >= 2 for r in impl)


def finding_key(suite, ops, line, msg):
    parts = msg.split()
    return "C03:" + (parts[1] if len(parts) > 1 else "reject")


def extra_coverage(ctx, stats):
    hist, unmodelled = {}, {}
    try:
        for l in open(ctx.path("c03_all.model")):
            l = l.strip()
            if not l or l == "#":
                continue
            k = l.split()[0]
            hist[k] = hist.get(k, 0) + 1
            if k == "unmodelled":
                t = l.split()[1] if len(l.split()) > 1 else "?"
                unmodelled[t] = unmodelled.get(t, 0) + 1
    except OSError:
        pass
    checked = sum(v for k, v in hist.items() if k not in ("skip", "bad-op"))
    return {"binder_outcomes": dict(sorted(hist.items())), "unmodelled_by_tag": dict(sorted(unmodelled.items())),
            "statements_checked_by_verified_binder": checked,
            "statements_validated_ok": hist.get("ok", 0)}


SPEC = {
    "id": "C03",
    "title": "emitted SQL is closed: every name, column and parameter it uses is defined",
    "level": "translation_validation",
    "fallback_level": "other",
    "regen": do_regen,
    "lean_modules": ["Dawgs.Props.C03"],
    "theorems_by_module": THEOREMS,
    "gate_modules": ["Dawgs.Model.Sql", "Dawgs.Model.C01", "Dawgs.Model.C01S2", "Dawgs.Model.C01Chain", "Dawgs.Model.C01Count", "Dawgs.Model.C01Limit", "Dawgs.Model.C01With", "Dawgs.Model.C01Order", "Dawgs.Model.C01Distinct", "Dawgs.Model.C01Cross", "Dawgs.Model.C03", "Dawgs.Model.C03Bind", "Dawgs.Model.SqlSchema", "Dawgs.Proofs.C03", "Dawgs.Proofs.C03Frag", "Dawgs.Props.C03"],
    "suites": [{"name": "c03", "model_suite": "c03", "model_input": model_input, "impl_view": impl_view, "model_view": model_view,
                "judge": judge, "keep_prefix": 1, "thorough_seeds": 1}],
    "nontrivial": nontrivial,
    "finding_key": finding_key,
    "extra_coverage": extra_coverage,
    "panic_is_violation": False,
    "rule": "cases = every Cypher text of the repository corpora (373 golden translation cases + cypher/test/cases/*.json, with their parameter maps) "
            "+ structured random queries (levels 1-5: single pattern … OPTIONAL MATCH / quantifiers / pattern predicates / expansions / multi-part; 120 per level quick, "
            "4000 thorough; splitmix64(VERIF_SEED)) + query-builder ASTs from /repo/query and /repo/query/v2 (150 quick / 3000 thorough); each is translated by the REAL "
            "translator and the verified binder runs on the reflection S-expression of Result.Statement with Result.Parameters' keys and the source's updating flag; "
            "plus FOCUSED FAMILIES (harness/focused.go): minimal queries built systematically, one scoping shape each — a binding read only from the inline property map / WHERE / "
            "pattern predicate / endpoint of a later MATCH; renamings inside one WITH (fresh, identity, shadowing, swaps, rotations); variable-length step + fixed hops with every subset of "
            "the suffix nodes already bound; aggregate-only projections with LIMIT; a NAMED PATH bound by a MATCH whose own WHERE holds a pattern predicate (incl. the patterns the "
            "optimiser reverses), the path / nodes(p) / relationships(p) / length(p) projected afterwards, also through WITH; ORDER BY on a RETURN / WITH alias declared before and AFTER un-aliased non-variable items (property, id(), aggregate) — the sort item must be an output column or a FROM column wherever the alias stands in the list (family order-alias); `x IN nodes(p)` / `r IN relationships(p)` on a bound path (fixed hop, chain, expansion) in a WHERE (staged into a lateral sub-select) and as a projection item (not staged), directly and through WITH (family path-membership); exact-length expansions `*n` / `*n..n` / `*n..m` alone, with bound endpoints and with fixed hops after them (family exact-range). FINDING KEY = C03:<symptom>:<sql site>:<query shape>: symptom from the binder verdict, sql site from the "
            "position of the dangling reference in the SQL text, query shape = the first ENABLING feature set (lib/cyshape.py, table SHAPES in lib/props/c03.py) the Cypher text satisfies for "
            "that symptom:site; a query that shows the symptom at that site without any registered enabling shape is keyed `unrecognised-query-shape`, which is never registered: VIOLATION. The registered pattern-predicate shapes are about a predicate reading a binding of an EARLIER clause: a "
            "single-MATCH query (no WITH / UNWIND / earlier clause) that binds a path variable and holds a pattern predicate over its own bindings (feature "
            "`named-path-with-own-pattern-predicate`) is excluded from them, so a non-ok verdict there is `unrecognised-query-shape`. "
            "non-trivial = the statement has >= 2 CTE frames; distinct = distinct op lines",
    "expected_branches": ["translated", "source_updating", "gen.feat.with", "gen.feat.optional-match", "gen.feat.pattern-predicate", "gen.feat.quantifier",
                          "gen.feat.expansion", "gen.feat.path-binding", "gen.feat.multi-match", "gen.feat.unwind", "builder.v1-node", "builder.v2-rel"],
    "trusted_base": ["PostgreSQL's name-resolution rules for the emitted constructs are a Lean definition (`resolve`, Model/C03.lean) transcribed from the PostgreSQL 16 "
                     "documentation (7.2 FROM/LATERAL/JOIN visibility, 7.8 WITH, 4.2 field selection, SELECT ORDER BY/GROUP BY name rules, FigureColname result names); no server exists in the sandbox",
                     "the list of PostgreSQL built-in functions/types the translator may use (Model/SqlSchema.lean builtinFunctions/builtinTypes; intarray uniq/sort)",
                     "tools/extract/schema.py (schema_up.sql -> tables, composite types, functions; compared with the hand transcription by decide +kernel)",
                     "harness/sexp.go reflection rendering of the pgsql AST and Driver/SqlSexp.lean reader (unknown node -> unmodelled, never guessed)",
                     "SQL passed as TEXT to the *_harness functions (shortest paths) is not bound: those statements are counted as unmodelled dynamic-sql"],
    "assumptions": ["per-output validation: the universally quantified claim is wellScoped_sound (binder ⇒ resolution succeeds); that every emitted statement passes the binder is "
                    "checked case by case, and PROVED only for the model translator of C01 (c03_partial : C03_for C01.tr, c03_partial_S2 : forall flipOf prune, C03_for (C01.tr2F flipOf prune) — every stage-S1 and every stage-S2b (one directed hop with WHERE, either join order) "
                    "statement resolves under the schema with no parameters, tied to the real translator by C01's suite c01tie); C03_full (a total translator) stays a visible undischarged Prop"],
}

MANIFEST = {
    "category": "translation_validation",
    "technique": "verified checker (Lean binder proved sound w.r.t. a name-resolution semantics of PostgreSQL) run on the reflection image of every real emitted statement; T-tie of the catalogue to schema_up.sql",
    "text": "Theorem wellScoped_sound (all environments, all statements of the modelled SQL AST incl. recursive/materialized CTEs, LATERAL, joins, correlated subqueries, composite field "
            "selection, DML): binder accepts ⇒ the resolution semantics returns no unbound / ambiguous / arity / missing-parameter / DML-without-update error. The binder is run on every "
            "statement the REAL translator emits for the repository corpora, structured random queries and query-builder ASTs; non-ok outcomes are findings (several genuine ones on the "
            "unchanged tree, see known_findings.json), unknown AST nodes and dynamic SQL are counted as unmodelled. "
            "params_closed / missing_param_rejected: acceptance under the parameter names ps excludes the missing-parameter error, and a statement using a parameter outside ps is rejected. "
            "c03_partial : C03_for C01.tr — PROVED for the model translator of C01 (stage S1, all queries, all kind maps): its statements pass the binder, hence resolve, under the schema with "
            "no parameters. c03_partial_S2 : forall flipOf prune, C03_for (C01.tr2F flipOf prune) and tr_wellScoped — the same for S1 plus stage S2b (MATCH (a)-[r]->(b) [WHERE single-variable conjuncts] RETURN items "
            "over a, r, b; both join orders, the frame pruned to the read bindings or complete, every combination of kind constraints, every list of conjuncts: Proofs/C03Frag.lean bPredAt — a lowered S1 predicate binds wherever its alias "
            "shows id / properties / kind column); c03_partial_S3 : forall flipOf flipCh prune, C03_for (C01.tr3F flipOf flipCh prune) adds stage S2c, chains of two or three hops with an optional WHERE of single-variable conjuncts (frames s0, s1[, s2] "
            "with the carried columns, the lowered conjuncts over the new relationship / node (ChainB.bStep1 / bStep2: they bind because the frame's FROM shows the columns of e_i and n_(i+1)) and the `!=` guards, final projection over the last frame: ChainB.tr_wellScopedCh); c03_partial_S4 : forall flipOf flipCh fast prune, C03_for (C01.tr4F flipOf flipCh fast prune) adds stage S1c, the two "
            "count statements (fast path / node frame, with or without alias: CountB.tr_wellScopedCount); c03_partial_S5 adds stage S2n, count(x) over a hop frame "
            "(CountHopB.tr_wellScopedCountHop); c03_partial_S6 : forall flipOf flipCh flipN fast prune push, C03_for (C01.tr6F ...) adds stage S2L, the hop statement with a LIMIT literal on the statement and — limit pushdown — "
            "on the frame s0 (Hop.tr_wellScoped2L: a LIMIT literal binds in every scope); c03_partial_S7 adds stage S3a, ONE WITH between a node MATCH and the RETURN with plain items — the nested statement `with s0 as (with s1 as (<node frame>) select <WITH items> from s1) select <RETURN items> from s0` (WithB.tr_wellScopedWith). The FRAME HAND-OVER discipline it establishes: s1 is visible only inside the definition of s0 (bHandOver binds s0's query where NO frame is visible yet); the WITH items read s1.n0 only (bWItems); the final select reads s0 only and every column it reads is exported by exactly one WITH item with the type that item exports (bWcol via bColTy_idx: column names distinct) — a node name may be dereferenced (.id / .properties), a value name may not. A stage statement that references s0 inside s0's own definition is therefore outside the model: that is the known defect `with n, n as m` of the real translator (key ...:variable-carried-then-renamed-in-one-with, repair hooks/C03-fix1.patch); the same theorem covers stage S3b, a hop from the carried node AFTER the WITH (`with s0 as (<hand-over of n>), s2 as (<step frame: from s0 join edge e0 ... join node n1 ...>) select ... from s2`, WithHopB.tr_wellScopedWithHop: the step frame reads s0 and the base tables only — bStep0 binds it in the scope that knows s0 and NOT s1 —, the final select reads s2 only); c03_partial_S8 adds stage S1o, the S1 statement with `order by ((s0.n0).properties -> 'k') [desc] [offset i] [limit j]` (tr_wellScopedOrd: the sort expression is not a bare name and binds in the scope of the select's FROM); c03_partial_S9 adds stage S1d, the S1 statement with `select distinct` (tr_wellScopedDist); c03_partial_S10 adds stage S2x, a hop whose WHERE compares a property of a with a property of b (CrossB.tr_wellScopedX; model translator tr10F): the two-variable conjuncts and the conjuncts over b are bound in the frame's WHERE, where e0, n0 and n1 are all visible in either join order (bFrame2G: the WHERE is an arbitrary expression that binds under ColsAt for the three aliases; the join condition of n1 holds its kind constraint only, which reads n1 and e0): the statement passes the binder (wellScoped = true) under the schema with the empty parameter list. C03_full (the same for a total translator) is a visible, undischarged Prop. TEXT versus TREE (search, every translated query of suite c03; harness/identtie.go): the binder decides closedness on the statement TREE, PostgreSQL gets the TEXT; for identifiers that need quoting the two are tied — the multiset of quoted-identifier tokens of the text (harness/pglex.go, `\"\"` undone) must equal the multiset of names the tree's back-ticked identifiers denote, and the text must lex; otherwise the answer is `ident-differs` (key text-identifiers-differ-from-statement:quoted-identifier). Plain identifiers are written byte for byte. Family quoted-names: back-ticked aliases / variables holding a double quote, a backslash, a back-tick or a blank where the statement must name them again (ORDER BY an alias, names carried through WITH, variables read after their MATCH). The random generator also draws LIMIT / SKIP boundary values and property maps on variable-length patterns (harness/cygen.go); every non-ok verdict is keyed <symptom>:<sql site>:<query shape> with the shape taken from lib/cyshape.py — an unlisted shape is `unrecognised-query-shape`, never registered.",
    "note": "Not a proof about the Go translator: per-output validation. PostgreSQL's scoping rules are a trusted Lean transcription of the documentation (no server in the sandbox).",
}
