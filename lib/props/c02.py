import json, re
import regen

THEOREMS = {
    "Dawgs.Props.C02": [
        "Dawgs.C02.Props.limit_guard_tie", "Dawgs.C02.Props.plan_guard_tie", "Dawgs.C02.Props.tailGuard_spec", "Dawgs.C02.Props.transparent_where_tie", "Dawgs.C02.Props.agg_final_projection_tie", "Dawgs.C02.Props.agg_source_match_tie", "Dawgs.C02.Props.limit_below_filter_loses_rows", "Dawgs.C02.Props.limit_pushdown_preserves",
        "Dawgs.C02.Props.limit_pushdown_needs_guard", "Dawgs.C02.Props.prune_expr", "Dawgs.C02.Props.prune_preserves", "Dawgs.C02.Props.attach_preserves",
        "Dawgs.C02.Props.reorder_preserves", "Dawgs.C02.Props.reversal_preserves", "Dawgs.C02.Props.count_fast_path_tie",
        "Dawgs.C02.Props.count_fast_path_preserves", "Dawgs.C02.Props.count_fast_path_hyp_none", "Dawgs.C02.Props.count_fast_path_hyp_kinds",
        "Dawgs.C02.Props.aggregate_helper_tie", "Dawgs.C02.Props.depth_guard_tie", "Dawgs.C02.Props.agg_count_depth_preserves",
        "Dawgs.C02.Props.agg_count_depth_needs_guard", "Dawgs.C02.Props.alias_declaration_tie", "Dawgs.C02.Props.collect_id_lowering_blocked_by_reprojection",
        "Dawgs.C02.Props.collect_id_by_symbol_differs", "Dawgs.C02.Props.countWhere_ok", "Dawgs.C02.Props.ofCyChain_wf", "Dawgs.C02.Props.hop_not_chain", "Dawgs.C02.Props.count_readings", "Dawgs.C02.Props.countHop_readings", "Dawgs.C02.Props.tr4_cases", "Dawgs.C02.Props.trVariant_cases", "Dawgs.C02.Props.opt_equiv", "Dawgs.C02.Props.opt_equiv_default",
        "Dawgs.C02.Props.limit_guard_on_fragment", "Dawgs.C02.Props.runTail_hopLimit", "Dawgs.C02.Props.trVariantL_cases", "Dawgs.C02.Props.opt_equiv_limit", "Dawgs.C02.Props.limit_pushdown_on_hop",
        "Dawgs.C02.Props.withStages_full", "Dawgs.C02.Props.opt_equiv_stages", "Dawgs.C02.Props.opt_equiv_cross", "Dawgs.C02.Props.withCross_cases",
    ],
}

_FIELDS = re.compile(r"ok km=(\(list.*?\)) rules=(\(list.*?\)) lowerings=(\(list.*?\)) cy=(.*?) cyopt=(.*?) sqlO=\"(?:[^\"\\]|\\.)*\" stmtO=(.*?) "
                     r"sqlU=\"(?:[^\"\\]|\\.)*\" stmtU=(.*?) stmtR=(.*?) stmtL=(.*)$")


def do_regen(ctx):
    regen.c02guard()


def model_input(op, impl):
    m = _FIELDS.match(impl)
    if not m:
        return "skip"
    nums = op.rsplit('"', 1)[1].split()
    if len(nums) != 4:
        return "skip"
    km, _rules, _low, cy, cyopt, so, su, sr, sl = m.groups()
    return "sem %s %s %s %s %s %s %s %s %s %s %s" % (nums[0], nums[1], nums[2], nums[3], km, cy, cyopt, so, su, sr, sl)


def impl_view(impl):
    return "-"


def model_view(model):
    return "-"


def _names(impl, field):
    m = re.search(r" %s=\(list([^)]*)\)" % field, impl)
    return re.findall(r'"([^"]+)"', m.group(1)) if m else []


# most specific lowering first: a difference is attributed to the first of these that fired for the query
_PRIORITY = ["CountStoreFastPath", "AggregateTraversalCount", "CollectIDMembership", "ExactRangeExpansion", "ExpansionSuffixPushdown", "LimitPushdown",
             "ExpandIntoDetection", "ShortestPathStrategySelection", "ShortestPathFilterMaterialization", "PathRelationshipPredicate", "TraversalDirectionSelection",
             "PredicatePlacement", "LatePathMaterialization", "ProjectionPruning"]


def _query(op):
    m = re.match(r'q ("(?:[^"\\]|\\.)*")', op)
    try:
        return json.loads(m.group(1)) if m else ""
    except ValueError:
        return ""


def classify(op, impl, verdict):
    """shape class of an optimised / unoptimised difference: which part of the optimiser (rules or a lowering) is responsible"""
    m = re.search(r" rules-only-differs=(\w+) lowerings-only-differs=(\w+)", verdict)
    rules, lows = sorted(_names(impl, "rules")), _names(impl, "lowerings")
    if m and m.group(1) == "true" and m.group(2) == "false":
        cls = "rule:" + ("+".join(rules) or "none")
        if "InboundTraversalReversal" in rules:
            # the reversal rule changes the drive direction of a pattern; whether a PATH of that pattern is observed, and how it reaches the
            # projection, is the enabling shape (a registered finding about a renamed path must not cover a path that is returned directly)
            import cyshape
            feats = cyshape.features(_query(op))
            if "path-variable-renamed-in-with" in feats:
                cls += ":path-variable-renamed-in-with"
        return cls
    q = _query(op).lower()
    for name in _PRIORITY:
        if name in lows:
            if name == "PredicatePlacement" and re.search(r"where[^,]*\(\s*\w*\s*\)\s*<?-", q):
                return "lowering:PredicatePlacement:pattern-predicate"
            return "lowering:" + name
    return "rule:" + ("+".join(rules) or "none")


def judge(op, impl, model):
    if impl.startswith("panic"):
        return "reject harness-panic " + impl[:80]
    if impl.startswith("lit-differs"):
        # harness/littie.go: a numeric literal of the statement is not written with its value in the SQL text that PostgreSQL gets
        return "reject sql-text-literal-differs-from-statement " + impl[:300].replace(" ", "_")
    if impl.startswith("hook-missing"):
        return "reject hook-missing the tree under test lacks hooks/C02.patch (translate.TranslateVariant)"
    if impl.startswith("err unoptimized-translate"):
        # the query translates only WITH the optimiser: nothing to compare against, but worth knowing
        return "reject unoptimized-translation-fails:%s %s" % (impl.split(":", 1)[-1][:60].strip().replace(" ", "-"), impl[:200].replace(" ", "_"))
    if not impl.startswith("ok "):
        return "ok"
    v = model.strip()
    w = v.split()
    # the ties of count_fast_path_preserves / opt_equiv come first: an `agree` of the evaluation does not excuse a statement that is not the model's
    if "frag-tie=differs" in v:
        return "reject tie:fragment-statements-differ-from-the-model-pair " + v[:300].replace(" ", "_")
    if w and w[0] != "skip" and ("cfp-tie=differs" in v or (_query(op) == "match (n) return count(n)" and "cfp-tie=ok" not in v)):
        return "reject tie:count-fast-path-statements-differ-from-the-model " + v[:300].replace(" ", "_")
    if not w or w[0] in ("skip", "agree", "unmodelled"):
        return "ok"
    if w[0] == "differ":
        stage = w[1] if len(w) > 1 else "?"
        detail = " ".join(w[2:])[:1500].replace(" ", "_")
        if stage == "cypher-rewrite":
            import cyshape
            feats = cyshape.features(_query(op))
            shape = ("pattern-predicate-of-one-match-reads-a-binding-of-another" if {"pattern-predicate", "match-after-earlier-clause"} <= feats
                     else "unrecognised-query-shape")
            return "reject cypher-rewrite-changes-result:%s:%s %s" % ("+".join(sorted(_names(impl, "rules"))) or "none", shape, detail)
        if stage.startswith("error-only"):
            m = re.search(r"(?:runtime|typing):(\S+) graph=", v)
            from props import c01 as _c01
            return "reject optimised-sql-differs:error-in-one-variant:%s %s" % (_c01._rt_class(m.group(1) if m else v), detail)
        wit = "on-loop-free-graph" if "witness=loop-free-graph" in v else "only-with-self-loops"
        return "reject optimised-sql-differs:%s:%s:%s %s" % (classify(op, impl, v), stage, wit, detail)
    if w[0] == "bad-op":
        return "reject driver-could-not-read bad-op"
    return "reject %s %s" % (w[0], " ".join(w[1:])[:300].replace(" ", "_"))


def nontrivial(ops, impl):
    # the optimiser changed the emitted SQL
    def differs(r):
        m = re.search(r' sqlO=("(?:[^"\\]|\\.)*") .* sqlU=("(?:[^"\\]|\\.)*") ', r)
        return bool(m) and m.group(1) != m.group(2)
    return any(r.startswith("ok ") and differs(r) for r in impl)


def finding_key(suite, ops, line, msg):
    parts = msg.split()
    return "C02:" + (parts[1] if len(parts) > 1 else "reject")


def extra_coverage(ctx, stats):
    hist, unmodelled = {}, {}
    fired_rules, fired_low = {}, {}
    changed = 0
    tot = {"graph_evaluations": 0, "sql_agree": 0, "sql_agree_bag_only": 0, "cypher_rewrites_compared": 0, "cypher_rewrites_agree": 0}
    try:
        for l in open(ctx.path("c02_all.model")):
            l = l.strip()
            if not l or l == "#":
                continue
            w = l.split()
            k = w[0] + ("-" + w[1] if w[0] == "differ" and len(w) > 1 else "")
            hist[k] = hist.get(k, 0) + 1
            if w[0] == "unmodelled" and len(w) > 1:
                unmodelled[w[1]] = unmodelled.get(w[1], 0) + 1
            m = re.search(r"graphs=(\d+) sql-agree=(\d+) sql-bag-only=(\d+) sql-unmodelled=\d+ cy-compared=(\d+) cy-agree=(\d+)", l)
            if m:
                for key, val in zip(tot, m.groups()):
                    tot[key] += int(val)
    except OSError:
        pass
    try:
        for l in open(ctx.path("c02.impl")):
            if not l.startswith("ok "):
                continue
            for n in _names(l, "rules"):
                fired_rules[n] = fired_rules.get(n, 0) + 1
            for n in _names(l, "lowerings"):
                fired_low[n] = fired_low.get(n, 0) + 1
            m = re.search(r' sqlO=("(?:[^"\\]|\\.)*") .* sqlU=("(?:[^"\\]|\\.)*") ', l)
            if m and m.group(1) != m.group(2):
                changed += 1
    except OSError:
        pass
    out = {"outcomes_per_query": dict(sorted(hist.items())), "unmodelled_by_construct": dict(sorted(unmodelled.items())),
           "rules_applied": dict(sorted(fired_rules.items())), "lowerings_fired": dict(sorted(fired_low.items())),
           "queries_whose_sql_the_optimiser_changed": changed}
    out.update(tot)
    return out


SPEC = {
    "id": "C02",
    "title": "Query optimisation never changes what a translated query returns",
    "level": "translation_validation",
    "fallback_level": "other",
    "regen": do_regen,
    "lean_modules": ["Dawgs.Props.C02"],
    "theorems_by_module": THEOREMS,
    "gate_modules": ["Dawgs.Model.C01", "Dawgs.Model.C01S2", "Dawgs.Model.C01Chain", "Dawgs.Model.C01Count", "Dawgs.Model.C01Limit", "Dawgs.Model.C01With", "Dawgs.Model.C01Order", "Dawgs.Model.C01Distinct", "Dawgs.Model.C01Cross", "Dawgs.Model.C02", "Dawgs.Proofs.C02", "Dawgs.Proofs.C01Limit", "Dawgs.Proofs.C01Cross", "Dawgs.Props.C02"],
    "suites": [{"name": "c02", "model_suite": "c02sem", "model_input": model_input, "impl_view": impl_view, "model_view": model_view,
                "judge": judge, "keep_prefix": 1, "thorough_seeds": 1}],
    "nontrivial": nontrivial,
    "finding_key": finding_key,
    "extra_coverage": extra_coverage,
    "panic_is_violation": False,
    "rule": "cases = one hand-written query per rewrite rule / lowering + FOCUSED FAMILIES (harness/focused.go: variable-length step + fixed hops with every subset of the suffix nodes "
            "already bound; aggregate-only RETURN incl. collect / size(collect()) with LIMIT and no ORDER BY; the aggregate-traversal-count shape with every range form incl. *0..; "
            "collect(node) AS xs used under IN with every way of reading xs afterwards; bindings read by later clauses; named path + pattern predicate over reversible patterns with the path / "
            "nodes(p) / relationships(p) observed directly and through WITH; string predicates with backslash / % / _ / quote literals; every grammar spelling of the ORDER BY direction — the direction handed to the reference and to the model pair is read from the TEXT, harness/sortdir.go; exact-length expansions in the spellings `*n` / `*n..n` next to a proper range, with either endpoint bound by an earlier clause and with fixed hops after them, and with a property map on the variable-length pattern — family exact-range; double literals beyond 32-bit precision in every literal position — family double-literal; LIMIT 0 / 1 / 2^31 / 2^63-1 and SKIP 0 / beyond the row count on every shape that triggers a fast path or a LIMIT-handling lowering — family limit-boundary; LIMIT over a named non-shortest-path pattern with a quantifier over relationships(p) / nodes(p) in WHERE — family limit-tail-filter; for BOTH variants the numeric literals of the statement must be written with their value in its text, harness/littie.go, key sql-text-literal-differs-from-statement) + FRAGMENT queries (the generators of C01's tie: stage S1, stage S2b (one hop with WHERE), stage S2c (chains, with and without WHERE conjuncts over single variables), stage S1c / S2n (count over a node pattern / a hop), stage S2L (a hop with LIMIT k and no ORDER BY: limit pushdown), stages S1o, S1d, S3a, S3b, S2x, and `MATCH (n[:K...]) RETURN count(n)`; for these the driver also "
            "compares both REAL statements with the model variants of opt_equiv / opt_equiv_limit / opt_equiv_stages / opt_equiv_cross (withCross over withStages over trVariantL: either join order of a hop; on S2L the optimised model statement carries the LIMIT on the hop frame too; on S1o / S1d / S3a / S3b one statement for both variants; on S2x pruned versus complete frame) — outcome frag-tie, a difference is a VIOLATION even when the evaluations agree) + every Cypher text of the repository corpora the translator accepts + structured random queries "
            "(levels 1-5, splitmix64(VERIF_SEED)); each is translated twice by the REAL translator: `Translate` (optimised) and the verif-tagged hook `TranslateUnoptimized` "
            "(hooks/C02.patch: no rewrite rule, no lowering plan, no fast path), plus rules-only / lowerings-only variants to attribute a difference. Both statements are evaluated by "
            "Sql.eval on encode(g) for the fixed graph family, seeded random graphs and (fixed queries) all graphs up to 2 nodes / 2 edges, and compared as ordered lists under ORDER BY "
            "and as bags otherwise; a final LIMIT / SKIP without ORDER BY is compared by sub-multiset inclusion in the un-cut result with equal row count. `optimize.Optimize(q).Query` "
            "is re-read and compared with q under Cy.eval on the same graphs. Same evaluation budget by pattern weight as C01 (the hand-made graph family is always used up to weight 6). "
            "FINDING KEY = C02:optimised-sql-differs:<attribution>:<kind>:<witness>: attribution = `rule:<rules>` when the rules-only variant already differs, else `lowering:<first fired "
            "lowering in the priority list of lib/props/c02.py>` (pattern predicates get their own class); kind = `rows` when the SETS of distinct rows differ, `multiplicity` when only "
            "multiplicities do, `error-only-…`; witness = `on-loop-free-graph` if some differing graph has no self loop, else `only-with-self-loops` (the driver prefers a set difference "
            "over a multiplicity difference and a loop-free graph as witness). A combination that is not registered is a VIOLATION. SEARCH, not proof. "
            "non-trivial = the optimiser changed the emitted SQL; distinct = distinct op lines",
    "expected_branches": ["translated", "optimised_sql_differs", "rule.InboundTraversalReversal", "rule.PredicateAttachment", "lowering.ProjectionPruning",
                          "lowering.LimitPushdown", "lowering.CountStoreFastPath", "lowering.LatePathMaterialization", "lowering.PredicatePlacement"],
    "trusted_base": ["Sql.eval / Cy.eval / encode as in C01 (Lean transcriptions of the PostgreSQL 16 documentation and of openCypher 9; no PostgreSQL server in the sandbox)",
                     "hooks/C02.patch: translate.TranslateVariant drives the unchanged translator with an empty optimisation plan (rules / lowerings / fast paths switched off individually)",
                     "tools/extract/goext mode c02guard: the conjuncts of queryPartAllowsLimitPushdown (optimize/lowering_plan.go), limitPushdownTailSource (translate/projection.go) and "
                     "countStoreFastPathDecision's early returns are read off the Go AST as source text; the Lean guards are tied to them by decide; so is the BODY of the helper behind the last conjunct of the tail guard, shortestPathLimitPushdownTransparentWhere (conditions, definitions and returns in source order: transparent_where_tie) — a tail WHERE is transparent only if absent or made of the endpoint inequality over a transparent shortest-path harness frame; any new early `return true` breaks the tie at build time (limit_below_filter_loses_rows states why the guard is needed)",
                     "harness/sexp.go reflection rendering and the Lean readers (unknown node -> unmodelled)"],
    "assumptions": ["the rewrite / lowering theorems are about abstract relational models of the transformations (bag joins, row pipelines, chain patterns over a graph) and, for the count "
                    "fast path, about the real statement shapes under Sql.eval; that the Go code implements these transformations is checked by the search, not proved",
                    "C02_full's graph hypothesis is GraphOK2 (C01: unique node and relationship ids, injective kind map, known relationship kinds, no stored JSON null)",
                    "opt_equiv / opt_equiv_stages / opt_equiv_cross are about the model variants trVariant / trVariantS / S2x.Query.stmtWith; it transfers to the real translator only through the per-run tie frag-tie on generated fragment queries",
                    "bounded evaluation on small graphs is search"],
}

MANIFEST = {
    "category": "translation_validation",
    "technique": "differential evaluation of the two REAL translations (optimised / hook-unoptimised) under a Lean SQL semantics on generated small graphs; Lean theorems for the rewrite rules and "
                 "lowerings on relational models, with the limit-pushdown hypothesis tied to the Go guard by a syntactic extractor and decide",
    "text": "PROVED (Props/C02.lean): limit_pushdown_preserves — for a row pipeline described by the code's guard fields, guard = true implies that cutting the source to k rows before the tail "
            "equals cutting the tail's output (any deterministic scan order), and limit_pushdown_needs_guard gives a counterexample for every dropped conjunct that matters (DISTINCT, ORDER BY, "
            "aggregation, SKIP, filter); limit_guard_tie / plan_guard_tie : the guard's conjuncts are exactly the early-return conditions of limitPushdownTailSource / "
            "queryPartAllowsLimitPushdown in the current sources (decide over the extracted table). agg_final_projection_tie / agg_source_match_tie: the planner's recognisers of the aggregate-traversal-count shape (aggregateTraversalFinalProjection: exactly one sort key, DESCENDING, the count alias, LIMIT literal, no SKIP / DISTINCT, one or two plain items; aggregateTraversalSourceMatch: one named node without an inline property map, WHERE over the source only) are, condition by condition, the analysed ones — the translator side hard-codes `order by count desc limit n` and never reads a source property map, so each conjunct is needed; the focused family agg-traversal has one query per NEGATED conjunct, and the fixed graphs include RANKED SOURCES (NodeKind1 sources with 1, 3, 0 and a tie pair of 2 reachable NodeKind2 targets: unique minimum and maximum), so that the sort direction decides which sources are returned. Under ORDER BY + LIMIT two different bags are accepted as a tie only when the reference semantics itself refuses the cut as falling inside a block of equal keys; when the reference determines the rows, different bags are a difference. transparent_where_tie: the helper behind the guard's last conjunct (which tail WHERE a LIMIT may be moved below) is, statement by statement, the analysed one — transparent only if the WHERE is absent or consists of the endpoint inequality over a transparent shortest-path harness frame (limit_below_filter_loses_rows: cutting before a filter is not cutting after it). prune_preserves — dropping columns the tail does not read does not change its output. "
            "aggregate_helper_tie / depth_guard_tie / alias_declaration_tie: selectContainsAggregate (visitor over every node, never consumes), "
            "aggregateTraversalDepthBounds (lower bound >= 1) and isProjectionAliasDeclaration (node identity) are the analysed functions (decide over their extracted statements), with "
            "agg_count_depth_preserves (+ needs_guard witness for lower bound 0) and collect_id_lowering_blocked_by_reprojection (+ by-symbol counterexample) as the lemmas whose hypotheses "
            "they are. count_fast_path_preserves — under Sql.eval on every encoded graph, `select count(*) from node [where kind_ids @> …]` returns the same single row as the unoptimised two-frame "
            "statement (tied to the real statement pair by count_fast_path_tie on the S-expressions of the corpus case). reversal_preserves — a chain pattern matches a walk iff the reversed pattern "
            "(elements reversed, directions flipped) matches the reversed walk, relationship uniqueness included. reorder_preserves — bag join of independent pattern parts is commutative up to "
            "permutation. attach_preserves — a conjunct that reads one side of a join may be evaluated before the join. opt_equiv : forall fo fu co cu no nu, C02_full (trVariant fo co no true) (trVariant fu cu nu false) — the full statement's body for every pair of variants of the MODEL "
            "translator on the proved fragment (trVariant flipOf flipCh flipN optimised = C01's tr5F on stages S1, S2n (count(x) over a hop), S1c (MATCH (n[:K...]) [WHERE p] RETURN count(n) [AS c], count-store fast path on / off), S2b and S2c "
            "(chains of 2-3 hops)): for every graph with GraphOK2, whenever both statements evaluate under Sql.eval they return the same bag of rows. Content: (1) a hop "
            "query is emitted by the optimised variant with the frame PRUNED to the bindings that are read (lowering ProjectionPruning) and by the unoptimised one with all three, and "
            "may be emitted in either join order by either variant — the lowering TraversalDirectionSelection of the optimised translator vs. the selectivity balance of the "
            "unoptimised one; the REAL two statements do differ in that order on generated S2b queries — and both orders are permutations of the Cypher result (C01 s2_sound; chain_sound for the first hop of a chain), hence of each "
            "other; (2) the count-store fast path against the node frame (C01 count_sound: both return the Cypher count; the fast path is emitted only when the MATCH has no user predicate); (3) on S1 the two statements are identical (trVariant_cases). The direction choice itself is not modelled "
            "(see C01): it is a parameter, the theorem holds for all choices, and the per-run tie frag-tie checks real optimised / unoptimised statement = model statement for one of the two "
            "orders each. LIMIT PUSHDOWN on the proved fragment (stage S2L of C01: one hop, optional WHERE, LIMIT k, no ORDER BY / SKIP; trVariantL = C01's tr6F; trVariantL_cases: both variants read the "
            "query the same way, the optimised statement has `limit k` on the frame s0 AND on the statement, the unoptimised one on the statement only): limit_guard_on_fragment — the code's guard tailGuard "
            "holds on the shape of that statement and fails on every other shape of the fragment (no LIMIT; SKIP; ORDER BY; DISTINCT; an aggregate in the tail), the shapes being assigned by hand from the "
            "statement forms; opt_equiv_limit — for every GraphOK2 graph, every S2L query and every join-order choice of the two variants: whenever both statements evaluate, the base query (no LIMIT) has a "
            "reference result r and (1) CutEquiv: both row lists are sub-bags of the rows of r, each of exactly min(k, |r|) rows — the two variants need NOT return the same bag, and need not by openCypher, "
            "since without ORDER BY the LIMIT keeps whichever rows the scan of the chosen join order delivers first; (2) the optimised rows are runTail on the guard's shape over the frame CUT to k rows, the "
            "unoptimised rows are runTail over the whole frame, so limit_pushdown_preserves applies literally (limit_pushdown_on_hop); (3) when both variants pick the same join order the two row lists are "
            "EQUAL, in order. The per-run search compares such pairs the same way (equal length + sub-bag of the uncut statement's rows). On S1 (ORDER BY id(n) SKIP / LIMIT) no lowering fires and the statements "
            "are identical (opt_equiv (3)). C01's LATER STAGES: opt_equiv_stages — C02_full for every pair of variants of trVariantS = the model translator over S1, S1c, S1o (ORDER BY on a property), S1d (RETURN DISTINCT), S2b, S2c, S2n, S3a (one WITH, plain items) and S3b (a hop from the carried node after the WITH): on the four added stages the stage translators take NO optimiser switch (no join order to choose, nothing to prune, no fast path, no LIMIT to push), both variants emit the SAME statement and the equivalence is reflexivity (withStages_full lifts C02_full from any translator pair to the pair that reads these stages first); note that this needs NONE of C01's hypotheses KeyOK / KeysScalar — it says nothing about agreement with openCypher, only that the optimiser changes nothing there. That the REAL translator's optimised and unoptimised outputs on such queries are that one statement is checked per run (families fragment:s1o / s1d / s3a / s3b, frag-tie). opt_equiv_cross — stage S2x (a hop whose WHERE compares a property of a with one of b; optimised: frame pruned, unoptimised: complete frame, either join order each; withCross_cases): same bag of rows on every GraphOK2 graph in which the compared keys hold scalars (CrossScalar, the hypothesis of C01's tr_sound_S2x: both statements are permutations of the reference rows). The hypothesis-free statement for S2x (both statements compare the same jsonb values also on arrays / objects) would need an SQL-to-SQL argument over the two frames and is NOT proved; S2x is therefore not part of trVariantS / C02_full. Family fragment:s2x ties both real statements to the model pair. NOT PROVED: C02_full for the real translator (all "
            "queries); limit pushdown into the last frame of a chain; the other lowerings (late path materialisation, suffix / predicate placement, direction selection, expand-into, exact range, shortest-path strategies, aggregate traversal "
            "count) are covered by the search only. SEARCHED: every corpus / generated query both variants translate and Sql.eval models; the evidence lists which rules and lowerings fired.",
    "note": "Search compares two outputs of the real translator with each other, so it needs no Cypher semantics and is not affected by the C01 deviations (both variants share them). "
            "No PostgreSQL server: SQL meaning is the trusted Lean transcription.",
}
