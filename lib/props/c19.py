import json, os, re, shutil

import flow
import verif

THEOREMS = {
    "Dawgs.Props.C19": [
        "Dawgs.C19.Props.no_manifest_before_end",
        "Dawgs.C19.Props.resume_complete_or_refuse",
        "Dawgs.C19.Props.resume_completes_from_clean",
        "Dawgs.C19.Props.window_publish_before_record",
        "Dawgs.C19.Props.identity_binds_every_field",
        "Dawgs.C19.Props.resume_refuses_on_identity_change",
        "Dawgs.C19.Props.resume_ignores_exempt_fields",
        "Dawgs.C19.Props.resume_refuses_on_source_count_change",
        "Dawgs.C19.Props.resume_refuses_on_completed_source_change",
        "Dawgs.C19.Props.resume_refuses_on_current_source_change",
        "Dawgs.C19.Props.resume_refuses_on_unexpected_file",
        "Dawgs.C19.Props.resume_ok_iff_no_foreign_file",
        "Dawgs.C19.Props.scrub_plan_cache_unobservable",
        "Dawgs.C19.Props.scrub_plan_from_raw_key_observable",
        "Dawgs.C19.Props.c19_full",
    ],
    # T-tie: side conditions over the fact table regenerated from retriever/*.go (tools/extract/c19)
    "Dawgs.Props.C19Identity": [
        "Dawgs.C19.Props.every_option_bound",
        "Dawgs.C19.Props.exempt_fields_unbound",
        "Dawgs.C19.Props.option_binding_as_modelled",
        "Dawgs.C19.Props.every_param_bound",
        "Dawgs.C19.Props.identity_fields_modelled",
        "Dawgs.C19.Props.config_digest_covers",
        "Dawgs.C19.Props.salt_digest_order",
        "Dawgs.C19.Props.whole_identity_compared",
        "Dawgs.C19.Props.source_guards_as_modelled",
        "Dawgs.C19.Props.walk_skips_only_directories",
        "Dawgs.C19.Props.scrub_plan_from_cache_key_only",
    ],
}

GENERATED = os.path.join(verif.LEAN, "Dawgs", "Generated", "C19_identity.lean")


def regen(ctx):
    """T-tie: delete and regenerate the identity fact table from the current source of retriever/*.go."""
    try:
        os.remove(GENERATED)
    except FileNotFoundError:
        pass
    rc, out = verif.sh(["go", "run", ".", verif.REPO, GENERATED], cwd=os.path.join(verif.VERIF, "tools", "extract", "c19"),
                       env=verif.GOENV, timeout=600)
    if rc != 0 or not os.path.exists(GENERATED):
        raise RuntimeError("c19 extractor failed: " + out[-800:])

HOOK_PATCH = os.path.join(verif.VERIF, "hooks", "C19.patch")


def hook_overlay(ctx):
    """The crash hook (retriever.VerifCrashHook + verifCrashPoint call lines) is delivered as hooks/C19.patch.
    If /repo already contains it (retriever/verif_on.go) nothing is needed; otherwise the patch is applied to copies
    of the touched files under the work directory and handed to `go build -overlay` — /repo is never modified.
    Returns (overlay_json_path or None, error or None)."""
    repo = verif.REPO
    if os.path.exists(os.path.join(repo, "retriever", "verif_on.go")):
        return None, None
    files = re.findall(r"^\+\+\+ b/(\S+)$", open(HOOK_PATCH).read(), re.M)
    root = ctx.path("overlay")
    shutil.rmtree(root, ignore_errors=True)
    for rel in files:
        src = os.path.join(repo, rel)
        dst = os.path.join(root, rel)
        os.makedirs(os.path.dirname(dst), exist_ok=True)
        if os.path.exists(src):
            shutil.copy(src, dst)
    rc, out = verif.sh(["patch", "-p1", "-s", "--no-backup-if-mismatch", "-i", HOOK_PATCH], cwd=root)
    if rc != 0:
        return None, "hooks/C19.patch no longer applies to %s: %s" % (repo, out[-600:])
    replace = {os.path.join(repo, rel): os.path.join(root, rel) for rel in files}
    p = ctx.path("overlay.json")
    json.dump({"Replace": replace}, open(p, "w"), indent=1)
    return p, None


def build_with_hook(ctx, race=False):
    """verif.build_harness with the extra tag `retrhook` (harness/c19.go) and the hook overlay."""
    shutil.copy(os.path.join(verif.REPO, "go.sum"), os.path.join(verif.HARNESS, "go.sum"))
    gomod = os.path.join(verif.HARNESS, "go.mod")
    txt = open(gomod).read()
    want = re.sub(r"(replace github.com/specterops/dawgs => )\S+", lambda m: m.group(1) + verif.REPO, txt)
    if want != txt:
        open(gomod, "w").write(want)
    overlay, err = hook_overlay(ctx)
    if err:
        ctx.say(err)
        return False, err
    out_bin = verif.HARNESS_BIN + ("-race" if race else "")
    cmd = ["go", "build", "-tags", "verif retrhook"] + (["-race"] if race else []) + (["-overlay", overlay] if overlay else []) + ["-o", out_bin, "."]
    try:
        os.remove(out_bin)
    except FileNotFoundError:
        pass
    rc, out = verif.sh(cmd, cwd=verif.HARNESS, env=verif.GOENV, timeout=1800)
    if rc != 0:
        ctx.say("harness build with the C19 crash hook failed")
        ctx.say(out[-3000:])
    ctx.hook_mode = "overlay from hooks/C19.patch" if overlay else "hook committed in the repository"
    return rc == 0, out


def run(spec, tier, seed, replay=None):
    flow.build_harness = build_with_hook
    return flow.run_property(spec, tier, seed, replay)


def nontrivial(ops, impl):
    """at least one interruption inside the fragment/checkpoint protocol, one resume that completed and one that refused"""
    crashed = ok = refused = False
    for o, r in zip(ops, impl):
        if o.startswith(("crash ", "readfault ")) and (r.startswith("crashed") or r.startswith("err db-read")) and "checkpoint.json=" in r:
            crashed = True
        elif o.startswith("resume"):
            ok |= r.startswith("ok |")
            refused |= r.startswith("refused")
    return crashed and ok and refused


def finding_key(suite, ops, line, msg):
    words = msg.split()
    cls = words[1] if len(words) > 1 else "reject"
    op = ops[line].split()[0] if line < len(ops) else "?"
    return "C19:%s:%s" % (op, cls)


def extra_coverage(ctx, stats):
    points = {k[len("crashed."):]: v for k, v in stats.items() if k.startswith("crashed.")}
    rpoints = {k[len("resume.crashed."):]: v for k, v in stats.items() if k.startswith("resume.crashed.")}
    return {
        "crash_points_enumerated": int(stats.get("gen.crash_points", 0)),
        "crash_points_by_name": points,
        "resume_crash_points_by_name": rpoints,
        "read_faults_injected": int(stats.get("gen.read_faults", 0)),
        "exhaustive": True,
        "exhaustive_scope": "for every generated database (<= 2 graphs, <= 5 nodes and <= 4 relationships per graph) the first case enumerates EVERY "
                            "crash point k = 0..N+1 of the uninterrupted dump (N from the formula 6 + sum over graphs of 6 + 5*fragments + records), "
                            "each followed by a resume and a comparison with an uninterrupted dump; read faults are injected at every fetch "
                            "(immediately and after 0/1/2 records)",
        "hook": getattr(ctx, "hook_mode", "?"),
    }


SPEC = {
    "id": "C19",
    "title": "an interrupted dump resumes to the same result or refuses; never a partial dump",
    "level": "proof",
    "lean_modules": ["Dawgs.Props.C19", "Dawgs.Props.C19Identity"],
    "regen": regen,
    "theorems_by_module": THEOREMS,
    "gate_modules": ["Dawgs.Model.C19", "Dawgs.Model.C19Scrub", "Dawgs.Spec.C19", "Dawgs.Proofs.C19", "Dawgs.Props.C19", "Dawgs.Props.C19Identity"],
    "suites": [
        {"name": "c19", "model_suite": "c19", "monitor_suite": None, "keep_prefix": 2, "thorough_seeds": 2, "shrink_budget": 200},
        {"name": "obs19", "model_suite": None, "monitor_suite": "c19mon", "keep_prefix": 2, "thorough_seeds": 2, "shrink_budget": 200},
    ],
    "nontrivial": nontrivial,
    "finding_key": finding_key,
    "extra_coverage": extra_coverage,
    "rule": "per generated small database x codec x batch x shard four cases: (1) EVERY crash point of the real Dump (verif hook, panic at the k-th "
            "file-system step) followed by resume and comparison with an uninterrupted dump; (2) repeated crashes (crash, resume crashing again "
            "twice, torn temp files, clean resume); (3) DB read errors at every fetch, immediately and after m records, with resume (also faulty); "
            "(4) refusals: changed shard/batch/codec, stray files, corrupted or removed committed fragment, changed source; (5) identity, with "
            "scrubbing off and on: interrupt, change exactly ONE field of the call (shard, batch, compression, zstd level, driver name, targets / "
            "their order, scrub mode, scrub salt, each leaf of the scrub configuration) -> must refuse, restore -> must complete to the "
            "uninterrupted result; exempt fields (progress interval, progress callback; the output directory differs on every op) and, without "
            "scrubbing, salt and scrub configuration -> must complete; (6) single-dimension source changes of completed / in-progress / not-started "
            "graphs; (7) foreign files and directories from a name alphabet (known temporaries, other *.tmp, fragment-like names beyond the cursor, "
            "hidden files, case/suffix variants of the dump's own names, at every directory level). Cases (1)-(4) run with Scrub=full for every "
            "other database, with property keys in several spellings (case, -, _; free-text next to structured keys) spread over the nodes, so "
            "'resumed dump = uninterrupted dump' (byte-identical fragments + manifest modulo generated_at) is checked with scrubbing on at every "
            "crash point. Suite c19 compares the "
            "directory after every step with the Lean model's applyOps (take k ops); suite obs19 feeds names, sizes and sha256 of every file to the "
            "Lean monitor. A case is non-trivial when it has an interruption inside the fragment/checkpoint protocol, a completed resume and a "
            "refused resume; distinct = distinct op-line sequences (sha1)",
    "expected_branches": ["crashed.fragment.renamed", "crashed.checkpoint.tmp.written", "crashed.checkpoint.renamed", "crashed.manifest.renamed",
                          "crashed.fragment.record.written", "resume.ok", "resume.refused.unexpected-file", "resume.refused.identity-changed",
                          "resume.refused.source-changed", "gen.source_change_rounds", "resume.refused.checksum", "resume.refused.fragment-missing",
                          "resume.refused.manifest-present", "resume.refused.no-checkpoint", "resume.crashed.resume.temp.removed",
                          "dump.err.db-read", "resume.err.db-read", "torn_temps", "set.salt", "set.rules", "set.scrub", "set.driver",
                          "set.targets", "set.zstdlevel", "set.progress", "set.progresscb",
                          "gen.scrubbed_cases", "gen.foreign_files", "gen.foreign_dirs"],
    "trusted_base": ["file system: atomic rename, a crash loses no completed step (process crash, not power loss: the code never fsyncs)",
                     "SHA-256 idealised as collision free (the model compares recorded content)",
                     "verif-tagged crash hook retriever.VerifCrashHook / verifCrashPoint (hooks/C19.patch, add-only; applied through go build -overlay "
                     "until it is committed to the repository)",
                     "harness/fakedb.go in-memory graph.Database",
                     "tools/extract/c19 (go/ast fact extractor of the option / identity / scrub-configuration fields and of the salt-digest "
                     "order, purely syntactic; its behavioural consequence is cross-checked by the one-field-changed resume cases)"],
    "assumptions": ["option fields deliberately NOT part of the resume identity: OutputDir (the directory IS the dump being resumed), Force and "
                    "Resume (how the call is made; mutually exclusive), ProgressInterval and Progress (reporting only) - none influences a byte of the "
                    "output; the harness requires a resume to COMPLETE when only they change (Props/C19Identity.exempt_fields_unbound)",
                    "Salt and ScrubConfig bind a resume only when the interrupted dump was scrubbing (Scrub=none ignores them)",
                    "source database unchanged between interruption and resume unless the case says otherwise",
                    "power loss / missing fsync is out of scope (stated in Model/C19.lean)",
                    "in-process abort (panic + recover): Dump has no deferred cleanup, so the directory equals that of a killed process"],
}

MANIFEST = {
    "category": "proof",
    "technique": "Lean 4 proof over all crash prefixes of the file-system protocol (checkpoint versions, write-temp-then-rename, resume validation) "
                 "+ crash injection at every hook point of the real Dump compared with the model, + observation monitor",
    "text": "Lean theorems for all well-formed databases, all batch/shard sizes >= 1: no manifest exists before the last two steps of a dump (and then "
            "the dump is complete); from every directory reachable by crashing the dump or any resume any number of times, resume either refuses "
            "touching nothing but known temp files, or completes to exactly the directory of an uninterrupted dump with no checkpoint left; resume "
            "refuses on changed options, changed source counts and unexpected files; the publish-before-record window is a refusal. Every run "
            "crashes the real Dump at every hook point of small databases, compares the directory with the model's prefix state, resumes (with "
            "further crashes and DB read faults) and compares the result with an uninterrupted dump.",
    "note": "Power loss (no fsync) is out of scope. A crash between publishing a fragment and recording it leaves a directory every later resume refuses "
            "(allowed by the property; reported as an observation). Trusted: rename atomicity, SHA-256, the fake database, the add-only crash hook.",
}
