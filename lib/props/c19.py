import json, os, re, shutil

import flow
import verif

THEOREMS = {
    "Dawgs.Props.C19": [
        "Dawgs.C19.Props.no_manifest_before_end",
        "Dawgs.C19.Props.resume_complete_or_refuse",
        "Dawgs.C19.Props.resume_completes_from_clean",
        "Dawgs.C19.Props.window_publish_before_record",
        "Dawgs.C19.Props.completed_resume_holds_every_entity_once",
        "Dawgs.C19.Props.identity_binds_every_field",
        "Dawgs.C19.Props.resume_refuses_on_identity_change",
        "Dawgs.C19.Props.resume_ignores_exempt_fields",
        "Dawgs.C19.Props.resume_refuses_on_source_count_change",
        "Dawgs.C19.Props.resume_refuses_on_completed_source_change",
        "Dawgs.C19.Props.resume_refuses_on_current_source_change",
        "Dawgs.C19.Props.resume_refuses_on_unexpected_file",
        "Dawgs.C19.Props.resume_ok_iff_no_foreign_file",
        "Dawgs.C19.Props.scrub_plan_cache_unobservable",
        "Dawgs.C19.Props.scrub_plan_from_raw_key_observable",
        "Dawgs.C19.Props.c19_full",
    ],
    # T-tie: side conditions over the fact table regenerated from retriever/*.go (tools/extract/c19)
    "Dawgs.Props.C19Identity": [
        "Dawgs.C19.Props.every_option_bound",
        "Dawgs.C19.Props.exempt_fields_unbound",
        "Dawgs.C19.Props.option_binding_as_modelled",
        "Dawgs.C19.Props.every_param_bound",
        "Dawgs.C19.Props.identity_fields_modelled",
        "Dawgs.C19.Props.config_digest_covers",
        "Dawgs.C19.Props.salt_digest_order",
        "Dawgs.C19.Props.whole_identity_compared",
        "Dawgs.C19.Props.source_guards_as_modelled",
        "Dawgs.C19.Props.walk_skips_only_directories",
        "Dawgs.C19.Props.scrub_plan_from_cache_key_only",
    ],
}

GENERATED = os.path.join(verif.LEAN, "Dawgs", "Generated", "C19_identity.lean")


def regen(ctx):
    """T-tie: delete and regenerate the identity fact table from the current source of retriever/*.go."""
    try:
        os.remove(GENERATED)
    except FileNotFoundError:
        pass
    rc, out = verif.sh(["go", "run", ".", verif.REPO, GENERATED], cwd=os.path.join(verif.VERIF, "tools", "extract", "c19"),
                       env=verif.GOENV, timeout=600)
    if rc != 0 or not os.path.exists(GENERATED):
        raise RuntimeError("c19 extractor failed: " + out[-800:])

HOOK_PATCH = os.path.join(verif.VERIF, "hooks", "C19.patch")


def hook_overlay(ctx):
    """The crash hook (retriever.VerifCrashHook + verifCrashPoint call lines) is delivered as hooks/C19.patch.
    If /repo already contains it (retriever/verif_on.go) nothing is needed; otherwise the patch is applied to copies
    of the touched files under the work directory and handed to `go build -overlay` — /repo is never modified.
    Returns (overlay_json_path or None, error or None)."""
    repo = verif.REPO
    if os.path.exists(os.path.join(repo, "retriever", "verif_on.go")):
        return None, None
    files = re.findall(r"^\+\+\+ b/(\S+)$", open(HOOK_PATCH).read(), re.M)
    root = ctx.path("overlay")
    shutil.rmtree(root, ignore_errors=True)
    for rel in files:
        src = os.path.join(repo, rel)
        dst = os.path.join(root, rel)
        os.makedirs(os.path.dirname(dst), exist_ok=True)
        if os.path.exists(src):
            shutil.copy(src, dst)
    rc, out = verif.sh(["patch", "-p1", "-s", "--no-backup-if-mismatch", "-i", HOOK_PATCH], cwd=root)
    if rc != 0:
        return None, "hooks/C19.patch no longer applies to %s: %s" % (repo, out[-600:])
    replace = {os.path.join(repo, rel): os.path.join(root, rel) for rel in files}
    p = ctx.path("overlay.json")
    json.dump({"Replace": replace}, open(p, "w"), indent=1)
    return p, None


def build_with_hook(ctx, race=False):
    """verif.build_harness with the extra tag `retrhook` (harness/c19.go) and the hook overlay."""
    shutil.copy(os.path.join(verif.REPO, "go.sum"), os.path.join(verif.HARNESS, "go.sum"))
    gomod = os.path.join(verif.HARNESS, "go.mod")
    txt = open(gomod).read()
    want = re.sub(r"(replace github.com/specterops/dawgs => )\S+", lambda m: m.group(1) + verif.REPO, txt)
    if want != txt:
        open(gomod, "w").write(want)
    overlay, err = hook_overlay(ctx)
    if err:
        ctx.say(err)
        return False, err
    out_bin = verif.HARNESS_BIN + ("-race" if race else "")
    cmd = ["go", "build", "-tags", "verif retrhook"] + (["-race"] if race else []) + (["-overlay", overlay] if overlay else []) + ["-o", out_bin, "."]
    try:
        os.remove(out_bin)
    except FileNotFoundError:
        pass
    rc, out = verif.sh(cmd, cwd=verif.HARNESS, env=verif.GOENV, timeout=1800)
    if rc != 0:
        ctx.say("harness build with the C19 crash hook failed")
        ctx.say(out[-3000:])
    ctx.hook_mode = "overlay from hooks/C19.patch" if overlay else "hook committed in the repository"
    return rc == 0, out


def run(spec, tier, seed, replay=None):
    flow.build_harness = build_with_hook
    return flow.run_property(spec, tier, seed, replay)


def nontrivial(ops, impl):
    """at least one interruption inside the fragment/checkpoint protocol, one resume that completed and one that refused"""
    crashed = ok = refused = False
    for o, r in zip(ops, impl):
        if o.startswith(("crash ", "readfault ")) and (r.startswith("crashed") or r.startswith("err db-read")) and "checkpoint.json=" in r:
            crashed = True
        elif o.startswith("resume"):
            ok |= r.startswith("ok |")
            refused |= r.startswith("refused")
    return crashed and ok and refused


def finding_key(suite, ops, line, msg):
    words = msg.split()
    cls = words[1] if len(words) > 1 else "reject"
    op = ops[line].split()[0] if line < len(ops) else "?"
    return "C19:%s:%s" % (op, cls)


# clause of the statement in properties.jsonl -> what carries it. "Setting" = the hypotheses of the protocol theorems: the identity's targets
# are the database's graphs, graph names distinct, ShardSize >= 1. Crash = any prefix of the operation list (one op per hook point);
# "Reach" = directories reachable by crashing the dump or any resume any number of times.
CLAUSES = {
    "interrupted at any point (crash or error between any two file-system or database operations) => no manifest exists for it":
        "no_manifest_before_end (NO hypotheses: every database, every identity): manifest.json is absent after every prefix of the operation list up to "
        "the manifest rename, which is the second-to-last step; the one later crash point leaves a complete dump plus the stale checkpoint. Database "
        "read errors: TIE ONLY (the driver simulates where the fault surfaces; harness injects one at every fetch, immediately and after 0/1/2 records, "
        "and the monitor demands 'no manifest' after each)",
    "a subsequent resume against the unchanged source either completes with a dump equivalent to an uninterrupted one ... or fails with an error "
    "without damaging the committed fragments; repeated crashes during resume":
        "resume_complete_or_refuse under Setting, for every directory in Reach: refused => every non-temp path (checkpoint, manifest, fragments, foreign "
        "files) is exactly as before; ok => directory = directory of the uninterrupted dump at every path. resume_completes_from_clean (the completing "
        "branch is taken from every genuine checkpoint version with its fragments in place), window_publish_before_record (the only refusing window of "
        "an honest run: fragment published, not yet recorded)",
    "(every entity exactly once, consistent manifest, no checkpoint left)":
        "completed_resume_holds_every_entity_once under Setting + distinct node ids and distinct relationship ids per graph: the uninterrupted dump's "
        "and every completed resume's directory is finalGet t - manifest lists t.done, fragments are the committed ones, no checkpoint, no temp, nothing "
        "else - and t.done has one entry per graph in order with the graph's name and counts whose fragments hold every node and every relationship "
        "exactly once in id order (HoldsGraph; C18's cursor invariant carried across checkpoint versions). Fragment sizes (<= ShardSize, all but last "
        "full) for the interrupted run: TIE ONLY (C18.shard_partition is for the uninterrupted assemble; the byte comparison `final` checks it)",
    "a resume never succeeds if the options differ":
        "identity_binds_every_field (no hypotheses: identityOf a = identityOf b <=> agree on driver, targets + order, compression, level, scrub mode, "
        "shard, batch and - when scrubbing - salt and scrub configuration), resume_refuses_on_identity_change (any checkpoint written under o, any o' "
        "not SameBound: refused, NO file-system op), resume_ignores_exempt_fields; that the CODE builds and compares the identity that way: T-tie "
        "every_option_bound, exempt_fields_unbound, option_binding_as_modelled, every_param_bound, identity_fields_modelled, config_digest_covers, "
        "salt_digest_order, whole_identity_compared (facts re-extracted from retriever/*.go by go/ast each run)",
    "... the source changed":
        "COUNTS only - that is all the code checks and all that is proved: resume_refuses_on_source_count_change, "
        "resume_refuses_on_completed_source_change (any completed graph j), resume_refuses_on_current_source_change (snapshot of the graph in progress); "
        "no hypotheses beyond 'the checkpoint is in the directory'. T-tie source_guards_as_modelled (both guards present, loop without early exit). A "
        "change that keeps every count (property edit, delete+add) is not seen by these guards; stated in the note, not counted as satisfied",
    "... or the directory holds files the checkpoint does not account for":
        "resume_refuses_on_unexpected_file (any path that is not the checkpoint, a known temp or a committed fragment), resume_ok_iff_no_foreign_file "
        "(under Setting, genuine version, fragments in place: ok <=> no such path); T-tie walk_skips_only_directories",
    "scrub on: resumed dump = uninterrupted dump":
        "the protocol theorems are parametric in the entity content, so they hold for scrubbed content PROVIDED scrubbing is a function of the entity "
        "and the bound options; proved for the plan cache only: scrub_plan_cache_unobservable (+ T-tie scrub_plan_from_cache_key_only, counterexample "
        "scrub_plan_from_raw_key_observable). The scrubber's value functions: TIE ONLY (byte-identity of resumed vs uninterrupted dump, scrub on, at "
        "every crash point)",
    "C19_full": "c19_full: the three parts above as one statement under Setting",
    "searched only (tie)": "that Model/C19.lean's operation list is what Dump / resume do: suite c19 crashes the real Dump at EVERY hook point k = 0..N+1 "
        "of every generated small database (and resumes crashing again, torn temps, read faults at every fetch) and compares the directory after each "
        "with applyOps (take k ops); suite obs19 feeds names, sizes, sha256 to the Lean monitor (no manifest while interrupted, committed fragments "
        "untouched by a refusal, completed = byte-identical to uninterrupted modulo generated_at). Also tie only: databases larger than the generated "
        "ones, the three codecs, the scrubber's value functions, fragment-size bounds of an interrupted run",
    "named assumptions": "Setting (targets = the database's graphs, distinct names, ShardSize >= 1); distinct ids per graph; source unchanged between "
        "interruption and resume unless the case says otherwise; atomic rename and no loss of completed steps (process crash, NOT power loss: the code "
        "never fsyncs); SHA-256 collision free (the model compares recorded content); in-process abort = killed process (Dump has no deferred cleanup); "
        "exempt option fields OutputDir / Force / Resume / ProgressInterval / Progress are not identity",
}


def extra_coverage(ctx, stats):
    points = {k[len("crashed."):]: v for k, v in stats.items() if k.startswith("crashed.")}
    rpoints = {k[len("resume.crashed."):]: v for k, v in stats.items() if k.startswith("resume.crashed.")}
    return {
        "clause_map": CLAUSES,
        "crash_points_enumerated": int(stats.get("gen.crash_points", 0)),
        "crash_points_by_name": points,
        "resume_crash_points_by_name": rpoints,
        "read_faults_injected": int(stats.get("gen.read_faults", 0)),
        "exhaustive": True,
        "exhaustive_scope": "for every generated database (<= 2 graphs, <= 5 nodes and <= 4 relationships per graph) the first case enumerates EVERY "
                            "crash point k = 0..N+1 of the uninterrupted dump (N from the formula 6 + sum over graphs of 6 + 5*fragments + records), "
                            "each followed by a resume and a comparison with an uninterrupted dump; read faults are injected at every fetch "
                            "(immediately and after 0/1/2 records)",
        "hook": getattr(ctx, "hook_mode", "?"),
    }


SPEC = {
    "id": "C19",
    "title": "an interrupted dump resumes to the same result or refuses; never a partial dump",
    "level": "proof",
    "lean_modules": ["Dawgs.Props.C19", "Dawgs.Props.C19Identity"],
    "regen": regen,
    "theorems_by_module": THEOREMS,
    "gate_modules": ["Dawgs.Model.C19", "Dawgs.Model.C19Scrub", "Dawgs.Spec.C19", "Dawgs.Proofs.C19", "Dawgs.Proofs.C19Content", "Dawgs.Props.C19", "Dawgs.Props.C19Identity"],
    "suites": [
        {"name": "c19", "model_suite": "c19", "monitor_suite": None, "keep_prefix": 2, "thorough_seeds": 2, "shrink_budget": 200},
        {"name": "obs19", "model_suite": None, "monitor_suite": "c19mon", "keep_prefix": 2, "thorough_seeds": 2, "shrink_budget": 200},
    ],
    "nontrivial": nontrivial,
    "finding_key": finding_key,
    "extra_coverage": extra_coverage,
    "rule": "per generated small database x codec x batch x shard four cases: (1) EVERY crash point of the real Dump (verif hook, panic at the k-th "
            "file-system step) followed by resume and comparison with an uninterrupted dump; (2) repeated crashes (crash, resume crashing again "
            "twice, torn temp files, clean resume); (3) DB read errors at every fetch, immediately and after m records, with resume (also faulty); "
            "(4) refusals: changed shard/batch/codec, stray files, corrupted or removed committed fragment, changed source; (5) identity, with "
            "scrubbing off and on: interrupt, change exactly ONE field of the call (shard, batch, compression, zstd level, driver name, targets / "
            "their order, scrub mode, scrub salt, each leaf of the scrub configuration) -> must refuse, restore -> must complete to the "
            "uninterrupted result; exempt fields (progress interval, progress callback; the output directory differs on every op) and, without "
            "scrubbing, salt and scrub configuration -> must complete; (6) single-dimension source changes of completed / in-progress / not-started "
            "graphs; (7) foreign files and directories from a name alphabet (known temporaries, other *.tmp, fragment-like names beyond the cursor, "
            "hidden files, case/suffix variants of the dump's own names, at every directory level). Cases (1)-(4) run with Scrub=full for every "
            "other database, with property keys in several spellings (case, -, _; free-text next to structured keys) spread over the nodes, so "
            "'resumed dump = uninterrupted dump' (byte-identical fragments + manifest modulo generated_at) is checked with scrubbing on at every "
            "crash point. Suite c19 compares the "
            "directory after every step with the Lean model's applyOps (take k ops); suite obs19 feeds names, sizes and sha256 of every file to the "
            "Lean monitor. A case is non-trivial when it has an interruption inside the fragment/checkpoint protocol, a completed resume and a "
            "refused resume; distinct = distinct op-line sequences (sha1)",
    "expected_branches": ["crashed.fragment.renamed", "crashed.checkpoint.tmp.written", "crashed.checkpoint.renamed", "crashed.manifest.renamed",
                          "crashed.fragment.record.written", "resume.ok", "resume.refused.unexpected-file", "resume.refused.identity-changed",
                          "resume.refused.source-changed", "gen.source_change_rounds", "resume.refused.checksum", "resume.refused.fragment-missing",
                          "resume.refused.manifest-present", "resume.refused.no-checkpoint", "resume.crashed.resume.temp.removed",
                          "dump.err.db-read", "resume.err.db-read", "torn_temps", "set.salt", "set.rules", "set.scrub", "set.driver",
                          "set.targets", "set.zstdlevel", "set.progress", "set.progresscb",
                          "gen.scrubbed_cases", "gen.foreign_files", "gen.foreign_dirs"],
    "trusted_base": ["file system: atomic rename, a crash loses no completed step (process crash, not power loss: the code never fsyncs)",
                     "SHA-256 idealised as collision free (the model compares recorded content)",
                     "verif-tagged crash hook retriever.VerifCrashHook / verifCrashPoint (add-only, committed in /repo; hooks/C19.patch is the same "
                     "change and is applied through go build -overlay only when a checkout lacks it)",
                     "harness/fakedb.go in-memory graph.Database",
                     "tools/extract/c19 (go/ast fact extractor of the option / identity / scrub-configuration fields and of the salt-digest "
                     "order, purely syntactic; its behavioural consequence is cross-checked by the one-field-changed resume cases)"],
    "assumptions": ["option fields deliberately NOT part of the resume identity: OutputDir (the directory IS the dump being resumed), Force and "
                    "Resume (how the call is made; mutually exclusive), ProgressInterval and Progress (reporting only) - none influences a byte of the "
                    "output; the harness requires a resume to COMPLETE when only they change (Props/C19Identity.exempt_fields_unbound)",
                    "Salt and ScrubConfig bind a resume only when the interrupted dump was scrubbing (Scrub=none ignores them)",
                    "source database unchanged between interruption and resume unless the case says otherwise",
                    "power loss / missing fsync is out of scope (stated in Model/C19.lean)",
                    "in-process abort (panic + recover): Dump has no deferred cleanup, so the directory equals that of a killed process"],
}

MANIFEST = {
    "category": "proof",
    "technique": "Lean 4 proof over all crash prefixes of the file-system protocol (checkpoint versions, write-temp-then-rename, resume validation) "
                 "+ crash injection at every hook point of the real Dump compared with the model, + observation monitor",
    "text": "Clause map in coverage.clause_map. Proved in Lean for every database of graphs with distinct names and every identity whose targets are "
            "those graphs with ShardSize >= 1 (Setting): no manifest exists after any prefix of the dump's steps before the manifest rename (this part "
            "without any hypothesis); from every directory reachable by crashing the dump or any resume any number of times, resume either refuses "
            "leaving every non-temp file exactly as it was, or completes to exactly the directory of an uninterrupted dump with no checkpoint left; "
            "with distinct ids that directory lists every graph once and its fragments hold every node and relationship exactly once in id order; "
            "resume never succeeds under a checkpoint whose identity differs in any bound option (every DumpOptions field except OutputDir, Force, "
            "Resume, ProgressInterval, Progress; salt and scrub configuration when scrubbing), when a recorded source COUNT differs, or when the "
            "directory holds a path that is not the checkpoint, a known temp or a committed fragment. Tie every run: the real Dump is crashed at "
            "every hook point of small databases, the directory compared with the model's prefix state, resumed (further crashes, torn temps, DB "
            "read faults) and compared byte for byte with an uninterrupted dump, scrubbing off and on; identity / guard / walk facts re-extracted "
            "from the source.",
    "note": "Source change is detected by counts only (code and theorems alike): a change that keeps every count is not refused. Power loss (no fsync) "
            "is out of scope. A crash between publishing a fragment and recording it leaves a directory every later resume refuses (allowed by the "
            "property). Tie only: model = code, the codecs, the scrubber's value functions (only its plan cache is proved), fragment-size bounds of an "
            "interrupted run. Trusted: rename atomicity, SHA-256, the fake database, the add-only crash hook. No known finding.",
}
