import re
import regen

THEOREMS = {
    "Dawgs.Props.C08": [
        "Dawgs.C08.Props.context_protocol_as_modelled", "Dawgs.C08.Props.error_reporting_as_modelled", "Dawgs.C08.Props.accessor_chains_guarded", "Dawgs.C08.Props.errors_never_lost", "Dawgs.C08.Props.outcome_ok_iff",
        "Dawgs.C08.Props.int_literal_out_of_range_rejected", "Dawgs.C08.Props.int_literal_errors_sample", "Dawgs.C08.Props.table_shape", "Dawgs.C08.Props.table_balanced",
        "Dawgs.C08.Props.filters_inert", "Dawgs.C08.Props.listener_no_panic", "Dawgs.C08.Props.listener_no_panic_derivable",
        "Dawgs.C08.Props.listener_no_panic_recovered_partial", "Dawgs.C08.Props.listener_linear", "Dawgs.C08.Props.current_part_as_modelled", "Dawgs.C08.Props.parts_table_safe", "Dawgs.C08.Props.multipart_index_in_range",
        "Dawgs.C08.Props.never_nilnil_partial", "Dawgs.C08.Props.root_chain_ok", "Dawgs.C08.Props.never_nilnil",
        "Dawgs.C08.Props.never_nilnil_witness_old", "Dawgs.C08.Props.never_nilnil_refuted_old", "Dawgs.C08.Props.call_now_rejected",
        "Dawgs.C08.Props.empty_rejected", "Dawgs.C08.Props.empty_guard_present", "Dawgs.C08.Props.c08_full",
        "Dawgs.C08.Props.c08_full_refuted_old",
    ],
}


def do_regen(ctx):
    regen.grammar()
    regen.frontend()
    regen.visitors()


def _field(line, name):
    m = re.search(r"(?:^| )%s=(\S*)" % name, line)
    return m.group(1) if m else None


def model_input(op, impl):
    if op.startswith("scale"):
        return "# scale"
    if impl.startswith("panic") or impl in ("skipped", "bad-op"):
        return "# " + impl[:40]
    m = re.search(r" tree=(.*)$", impl)
    if not m:
        return "bad " + impl[:40]
    if m.group(1) == "-":
        return "blank"
    # syntax errors: the model is given the number of recognition errors the RAW ANTLR run reported to a counting listener of the
    # harness (not what the context recorded): by error_reporting_as_modelled every such report is one recorded error, so a
    # lexer / parser error the context drops shows as a class disagreement (model err, implementation ok)
    raw = _field(impl, "raw")
    return "tree %s nsyn=%s nother=%s dsyn=%s dother=%s" % (m.group(1), raw if raw is not None else _field(impl, "nsyn"), _field(impl, "nother"),
                                                           raw if raw is not None else _field(impl, "dsyn"), _field(impl, "dother"))


def _cls(c):
    # the protocol model does not distinguish a complete from an incomplete model (that is the monitor's `partial`)
    return c.replace("partial/", "ok/") if c else c


def impl_view(impl):
    if impl.startswith("scale") or impl.startswith("panic") or impl in ("skipped", "bad-op"):
        return "#"
    return "n=%s d=%s nunsup=%s dfilt=%s dunsup=%s trace=%s" % (
        _cls(_field(impl, "n")), _cls(_field(impl, "d")), _field(impl, "nunsup"), _field(impl, "dfilt"), _field(impl, "dunsup"),
        _field(impl, "trace"))


def model_view(model):
    return model.split(" | ")[0]


def judge(op, impl, model):
    """The property monitor on the implementation's answer; structural facts (`empty`, `qkind`, `wf`) come from Lean."""
    if impl.startswith("panic"):
        return "reject panic " + impl[:160].replace(" ", "_")
    if impl.startswith("scale"):
        return "ok" if impl == "scale ok" else "reject blowup " + impl.replace(" ", "_")
    if impl in ("skipped", "bad-op"):
        return "ok"
    n, d = _field(impl, "n") or "", _field(impl, "d") or ""
    blank = (model or "").endswith("| blank") or " tree=-" in impl
    if blank:
        # empty / whitespace-only input must be rejected
        return "ok" if n.startswith("err/") and d.startswith("err/") else "reject empty-accepted n=%s d=%s" % (n, d)
    raw = _field(impl, "raw")
    if raw not in (None, "0"):
        for tag, c in (("NewContext", n), ("DefaultCypherContext", d)):
            if not c.startswith("err/"):
                return "reject recognition-error-dropped %s raw=%s class=%s" % (tag, raw, c)
    if raw is not None and (_field(impl, "nsyn") != raw or _field(impl, "dsyn") != raw):
        return "reject recognition-error-count raw=%s recorded=%s/%s" % (raw, _field(impl, "nsyn"), _field(impl, "dsyn"))
    o = _field(impl, "o") or ""
    if o and d and _cls(o) != _cls(d):
        return "reject older-default-context-differs fresh=%s older=%s" % (d, o)
    for tag, c in (("NewContext", n), ("DefaultCypherContext", d), ("OlderDefaultCypherContext", o)):
        if c.startswith("nilnil"):
            return "reject nilnil %s %s" % (tag, _field(model or "", "qkind") or "?")
        if c.startswith("ok/1"):
            return "reject nil-model-accepted %s" % tag
    if (_field(impl, "ints") or "").startswith("differ"):
        return "reject integer-literal-value %s" % _field(impl, "ints")
    if (_field(impl, "render") or "").startswith("panic"):
        return "reject render-panics accepted-model-cannot-be-rendered %s inc=%s" % ((_field(impl, "render") or "")[:120], _field(impl, "inc"))
    for tag, c in (("NewContext", n), ("DefaultCypherContext", d)):
        if c.startswith("partial"):
            return "reject partial %s %s inc=%s" % (tag, _field(model or "", "empty") or "[]", _field(impl, "inc"))
    if model and _field(model, "misattached") not in (None, "0"):
        # Lean (counter machine on the extracted bookkeeping table, trace-tied to the real code): a clause was stored in a query part already closed by WITH
        return "reject misattached clause-attached-to-a-closed-query-part n=%s" % _field(model, "misattached")
    if model and _field(model, "parts_agree") == "0":
        return "reject parts-models-disagree"
    if _field(impl, "slow") == "1":
        return "reject slow parse-took-more-than-20s"
    if model and _field(model, "steps_ok") == "0":
        return "reject listener-work-not-linear size=%s" % _field(model, "size")
    return "ok"


def nontrivial(ops, impl):
    # malformed or hostile input that reached the listener (a parse tree was built) and was classified
    for r in impl:
        if r.startswith("n=") and " tree=(" in r and (_field(r, "nsyn") not in ("0", None) or "nunsup=[o" in r or "n=ok" in r):
            return True
    return False


def finding_key(suite, ops, line, msg):
    p = msg.split()
    kind = p[1] if len(p) > 1 else "reject"
    if kind == "nilnil":
        return "C08:QueryVisitor:%s:nil-model-nil-error" % (p[3] if len(p) > 3 else "?")
    if kind == "partial":
        # first empty product reported by the model: <VisitorType>@<rule>
        m = re.search(r"\[([A-Za-z]+)@(oC_[A-Za-z]+)", msg)
        if m:
            return "C08:%s:%s:empty-product-no-error" % (m.group(1), m.group(2))
        m = re.search(r"inc=\[([^\],]+)", msg)
        return "C08:model:%s:incomplete-no-error" % (m.group(1) if m else "?")
    if kind == "panic":
        m = re.search(r"panic_([nd]|scale)", msg)
        return "C08:ParseCypher:panic"
    if kind == "misattached":
        return "C08:MultiPartQueryVisitor:clause-attached-to-closed-part"
    if kind == "blowup":
        m = re.search(r"family=(\w+)", msg)
        return "C08:ParseCypher:super-polynomial:%s" % (m.group(1) if m else "?")
    return "C08:ParseCypher:" + kind


# clause of the statement (properties.jsonl) -> what proves it for ALL inputs (with hypotheses), or "searched only" / "tie only"
CLAUSES = {
    "for any byte string parsing terminates within time and memory polynomial in the input length":
        "SEARCHED ONLY for lexing / ALL(*) prediction / tree construction / Go allocation (10 size-doubling families, fitted exponent in the evidence; slow parses "
        "re-measured). PROVED for the listener part: listener_linear (for EVERY tree at most (#filters+4) callbacks and stack operations per node, steps <= 4*size; "
        "hence the visitor stack never exceeds 4*size+1 frames — no separate depth theorem).",
    "returns either a model with no error or a non-nil error, never both nil":
        "PROVED at tree level: errors_never_lost / outcome_ok_iff (any recorded error => outcome err under both contexts, for EVERY tree; `ok` iff nothing recorded) "
        "and never_nilnil (HYPOTHESES: root oC_Cypher, tree follows the regenerated grammar (wf), syntactically complete (conforms), no error under the "
        "filter/unsupported-rule error model E; from the chain certificate root_chain_ok) with never_nilnil_partial (any tree: T.reaches t -> model non-nil). Trees with "
        "recognition errors return err by errors_never_lost. The table before the CALL repair is refuted (never_nilnil_refuted_old).",
    "never panics":
        "PROVED for the listener PROTOCOL on EVERY rule-labelled tree (grammatical, recovered, with error nodes, arbitrary): listener_no_panic, outcome_not_panic, "
        "listener_no_panic_derivable, listener_no_panic_recovered_partial — from the decidable table condition table_balanced (+ table_shape, filters_inert, "
        "context_protocol_as_modelled); Parts / partIdx bookkeeping: multipart_index_in_range (parts_table_safe, current_part_as_modelled). Accessor-nil pattern "
        "inside method bodies: accessor_chains_guarded (no `<ctx>.A().M()` on a single-child accessor; extracted list = []). Other panics inside method bodies "
        "(assertions on model values, slicing — cf. newUnsupportedRuleError in error_reporting_as_modelled) and inside ANTLR: SEARCHED ONLY (every input parsed "
        "under recover with both contexts; render-after-parse must not panic).",
    "never returns a partially built model without an error":
        "SEARCHED ONLY beyond non-nil-ness: never_nilnil proves the ROOT product is set; completeness below the root (mandatory fields, non-empty mandatory lists, typed "
        "nils in interface slots, nil list elements / map values) is the reflection oracle of harness/c08.go on every accepted parse, plus the Lean `empty=[...]` "
        "report of visitor products popped without having been touched. Integer literals: int_literal_out_of_range_rejected (a tree containing an integer literal "
        "outside 0..2^63-1 or not decimal is never accepted, no wrapped value), tied per case by the big-integer value oracle.",
    "empty and whitespace-only inputs are rejected":
        "PROVED: empty_rejected (for every input of Go white space only, whatever the parser would do) given empty_guard_present (extracted: ParseCypher returns "
        "ErrInvalidInput when strings.TrimSpace(input) is empty, parseCypher returns errors.Join(ctx.Errors...)).",
    "errors are reported, not lost (lexer and parser)":
        "PROVED in the outcome model: errors_never_lost; TIE for 'every ANTLR report is one recorded error': error_reporting_as_modelled (source text of parseCypher — "
        "context registered on lexer AND parser —, Context.SyntaxError without a guard, AddErrors dropping only nil, newUnsupportedRuleError without slicing, compared "
        "by the kernel) + per case: recorded = reported by a counting listener of the harness on the raw ANTLR run, and reported > 0 => err.",
    "searched only (tie)":
        "that the extracted push / pop / guard table, the Parts table and the error tables are what the Go methods do: outcome class, nil-ness, unsupported / filter "
        "error multisets and an FNV trace of the visitor stack (+ Parts counters) at every rule entry compared between the real parser (probe filter) and the model on "
        "the real ANTLR tree, on every generated input (truncations, delimiter edits, nesting, invalid UTF-8, huge literals, token soups, stray characters, numeric "
        "ranges, multi-byte payloads in unsupported constructs, empty values, dangling sigils). Searched only: time / memory, ANTLR internals, model completeness below "
        "the root, body-level panics other than the two modelled patterns, older / reused default contexts (probed).",
    "named assumptions":
        "antlr.ParseTreeWalker calls EnterEveryRule / children / ExitEveryRule in that order; ANTLR 4 runtime and the generated lexer / parser; tools/extract goext "
        "(visitors) and grammar.py; reflection read of Context.visitorStack by the probe; errors.Join of a non-empty list is non-nil (Go stdlib); no C08 finding is open "
        "(the four recorded ones are fixed in /repo).",
}


def extra_coverage(ctx, stats):
    return {"clause_map": CLAUSES}


SPEC = {
    "id": "C08",
    "title": "parsing is total and bounded on arbitrary input",
    "level": "proof",
    "fallback_level": "other",
    "regen": do_regen,
    "lean_modules": ["Dawgs.Props.C08"],
    "theorems_by_module": THEOREMS,
    "gate_modules": ["Dawgs.Model.Grammar", "Dawgs.Model.C08", "Dawgs.Model.C09", "Dawgs.Model.C08Parts", "Dawgs.Spec.C08", "Dawgs.Proofs.C08", "Dawgs.Proofs.C08Parts", "Dawgs.Props.C08"],
    "suites": [{"name": "c08", "model_suite": "c08", "model_input": model_input, "impl_view": impl_view, "model_view": model_view,
                "judge": judge, "keep_prefix": 1, "timeout": 3000}],
    "nontrivial": nontrivial,
    "finding_key": finding_key,
    "panic_is_violation": False,   # panics are judged by the monitor (key C08:ParseCypher:panic), not twice
    "extra_coverage": extra_coverage,
    "rule": "cases = empty maps / lists / strings (alone and nested) in EVERY expression position of every clause kind (literal positions, ORDER BY lists, SKIP / LIMIT, WITH … WHERE, UNWIND, comprehensions, CASE, pattern properties, SET = / +=) + dangling sigils (`$`, `$1.5`, `$'x'`, `:`, `.`), operators without an operand, openers without a closer and reserved words as names in the same positions + stray characters (every character the lexer has no rule for, attached to token positions of corpus queries and alone) + numeric literals over the whole double range and around ±2^63 in every literal position + multi-byte / invalid-UTF-8 payloads of 20–200 bytes (more than 64 bytes with fewer than 64 runes included) inside EVERY unsupported construct (rule list read from cypher/frontend at generation time; a rule without a live template is counted in gen.unsupported_rules_without_template) and inside the other error paths (range mini-parser, operator scan, literal errors, filters) + multi-part queries whose parts open with every kind of updating clause (first/middle/last part, with and without reading clauses, closed by WITH/RETURN/nothing) + fixed hostile inputs (empty/whitespace incl. grammar-only whitespace, out-of-range numerals, unterminated strings/comments, "
            "every F6/F7 construct) + truncations of every repository corpus query (every offset thorough; seeded stride quick) + one-delimiter "
            "deletions/duplications/swaps + nesting families (parens, lists, NOT, AND, +, relationship chains, maps) at depths 1..64 (200 thorough) "
            "+ invalid UTF-8 / odd code points spliced at random offsets + literals of 1 KiB..16 KiB (128 KiB thorough) + token soups from the "
            "grammar's keywords + 10 size-doubling sweeps (time/alloc exponent fitted; timing never compared with the model); every input parsed under "
            "recover with NewContext() and DefaultCypherContext() and once more with a probe filter recording the visitor stack at every rule entry; "
            "non-trivial = a parse tree was built and the input had a syntax error, an unsupported rule, or was accepted; distinct = distinct inputs",
    "expected_branches": ["n.ok", "n.err", "d.ok", "d.err", "invalid_utf8", "blank_inputs", "scale_ok", "gen.stray", "gen.num", "gen.payload", "gen.stray_character_classes", "gen.empty", "gen.dangling"],
    "trusted_base": ["ANTLR 4 runtime + generated lexer/parser (termination and cost of ALL(*) prediction are measured, not proved)",
                     "tools/extract/goext mode visitors (push/pop/guard table, Context protocol source) and grammar.py",
                     "antlr.ParseTreeWalker calls EnterEveryRule / children / ExitEveryRule in that order (ANTLR)",
                     "reflection read of Context.visitorStack by the probe filter (harness/c08.go)"],
    "assumptions": ["time and memory: measured by size doubling with generous thresholds (alloc exponent > 3.2 or last doubling x40 above 2 s); polynomial bound is NOT proved",
                    "visitor-field state: the Parts/partIdx bookkeeping of MultiPartQueryVisitor IS modelled (counter machine, theorem multipart_index_in_range); other panics inside visitor "
                    "method bodies that depend on visitor fields (nil dereference, assertions on model values) are not in the Lean model and are searched by the fuzz corpus only",
                    "never_nilnil is proved for the repaired listener (unsupported-rule errors for oC_StandaloneCall/oC_LoadCSV/oC_InQueryCall, hooks/C07-fix.patch) relative to the "
                    "filter/unsupported-rule error model; the refutation is kept as a theorem about the older table (never_nilnil_refuted_old)"],
    "explanation": "Integer literals: the outcome model counts one error for every oC_IntegerLiteral whose text is not a decimal digit string of value at most 2^63-1 (intLiteralInRange on the text, whatever the implementation reports), and for accepted parses the integers the model holds must be the integers written (independent math/big reading of the tokens). Completeness oracle on accepted parses: a reflection walk of the returned model reports missing mandatory fields, empty mandatory lists, typed nils in interface slots, nil list elements and nil map values (class `partial`), and the model must render (format.RegularQuery may fail, it must not panic). accessor_chains_guarded: the extractor lists every `<ctx>.A().M()` of cypher/frontend where A is a single-child accessor of a generated rule context (nil when the child is absent, e.g. in a tree built by error recovery); the list must be empty. Outcome model: the model is given the number of recognition errors the RAW ANTLR run reports to a listener of the harness, not what the context recorded; by error_reporting_as_modelled (source text of parseCypher / Context.SyntaxError / AddErrors / newUnsupportedRuleError, kernel-compared) every report is one recorded error, so lexer error ⇒ err; the monitor also requires recorded = reported. Lean: for every rule-labelled tree (any shape, error nodes included) the listener protocol (Context.Enter/Exit, depth counters, type-asserted pops) "
                   "never panics and restores the stack, provided every visitor method pair is balanced — a decidable condition on the table extracted from "
                   "cypher/frontend/*.go, closed by decide +kernel; listener work <= (filters+4) per node; blank input rejected; (nil,nil) refuted by the CALL witness. "
                   "Tie: outcome class, nil-ness, unsupported/filter error multiset and an FNV trace of the visitor stack at every rule entry are compared between the "
                   "real parser and the model run on the real ANTLR tree.",
}

MANIFEST = {
    "category": "proof",
    "technique": "Lean 4 theorem over all rule-labelled trees about an executable model of the listener protocol, instantiated by kernel-checked decide on a push/pop/guard "
                 "table regenerated from cypher/frontend; differential tie (outcome class + visitor-stack trace via a probe filter) on a byte-level fuzz corpus; growth measured by size doubling",
    "text": "Clause map: evidence coverage.clause_map (lib/props/c08.py CLAUSES). errors_never_lost: for EVERY tree one recorded error (lexer / parser recognition error, filter, unsupported rule, literal "
            "conversion) makes the outcome an error under both contexts — never (model, nil), never (nil, nil); int_literal_out_of_range_rejected: a tree with an integer literal that is not a decimal digit string "
            "<= 2^63-1 is never accepted; accessor_chains_guarded: no visitor dereferences the result of a single-child context accessor; error_reporting_as_modelled ties 'every ANTLR report is recorded' to the source text. "
            "Theorem listener_no_panic: for EVERY rule-labelled tree (grammatical, truncated by ANTLR error recovery, with error nodes, or arbitrary) walking it with the DAWGS listener "
            "(Context.Enter/Exit/EnterEveryRule/ExitEveryRule exactly as written; per visitor type and rule the Enter push / Exit pop-as actions and their guards extracted from the "
            "Go sources) ends without a panic and with the visitor stack back at [QueryVisitor/0]: depth is 0 at every pop, every type assertion on a popped visitor holds, the stack "
            "never underflows. The proof is generic in the table and needs one decidable condition (every EnterOC_r/ExitOC_r pair is either inert or push W under g / pop W under g), "
            "re-checked by the kernel on the regenerated table, so a visitor whose Exit forgets the pop, asserts another type or tests another condition breaks lake build. "
            "multipart_index_in_range: the Parts/partIdx bookkeeping of MultiPartQueryVisitor (which methods allocate `if len(Parts) == partIdx`, access CurrentPart(), advance — extracted per method, helpers inlined) "
            "run as a counter machine over EVERY tree never evaluates CurrentPart() on an empty slice and always returns Parts[partIdx]; decidable table condition by abstract interpretation over "
            "{len = idx, len = idx + 1}, so a refactor that forgets the allocation in one caller, or allocates under another condition, breaks lake build; the counters are part of the probe trace compared with the real code. "
            "listener_linear: at most (#filters+4) callbacks/stack operations per tree node. empty_rejected: Go-whitespace-only input returns an error. never_nilnil: every grammatical, "
            "complete, error-free tree of oC_Cypher yields a non-nil model — proved from a kernel-checked chain certificate on the regenerated tables (the only error-free path from the "
            "root is Cypher/Statement/Query/RegularQuery, on which QueryVisitor assigns the result); for the table before the repair it is refuted by the parse tree of `CALL foo.bar()` "
            "(theorem never_nilnil_refuted_old; finding now fixed). The tie parses ~10^3 (quick) hostile inputs under recover "
            "with both contexts and compares class, nil-ness, error multisets and a hash of the visitor stack at every rule entry with the model run on the real ANTLR tree.",
    "note": "Partial: polynomial time/memory is measured (size doubling, fitted exponent in the evidence), not proved — ANTLR prediction is trusted. never_nilnil carries the hypotheses wf / conforms / no error "
            "under the error model E. Completeness of an accepted model below its root (no missing mandatory field, no typed nil) is searched (reflection oracle), not proved. Panics inside method bodies other than the "
            "stack protocol, the Parts bookkeeping and the accessor-nil pattern are covered by search only. No C08 finding is open.",
}
