import os, re
import regen

def do_regen(ctx):
    # T-tie: exported API of query / query/neo4j, functions of format.go, every case of the emitter's, rewriters' and builders' switches
    regen.goext("c10", "C10.lean")


TIE_THEOREMS = ["query_exports_classified", "neo4j_exports_classified", "format_functions_classified", "switches_known",
                "writeExpression_cases_classified", "formatLiteral_cases_classified", "bindsLooser_cases_classified",
                "updatingClause_cases_classified", "relPattern_cases_classified", "formatSet_cases_classified",
                "rewriter_cases_classified", "builder_cases_classified", "constructor_cases_classified"]

THEOREMS = {
    "Dawgs.Props.C10Tie": ["Dawgs.C10.Tie." + t for t in TIE_THEOREMS],
    "Dawgs.Props.C10": [
        "Dawgs.C10.Props.norm_preserves_eval",
        "Dawgs.C10.Props.norm_idempotent",
        "Dawgs.C10.Props.parse_emit_canonical",
        "Dawgs.C10.Props.emit_canonical",
        "Dawgs.C10.Props.builder_roundtrip",
        "Dawgs.C10.Props.c10_full_except",
        "Dawgs.C10.Props.c10_full_fails_only_there",
        "Dawgs.C10.Props.c10_full_refuted",
        "Dawgs.C10.Props.valid_needed_empty_list",
        "Dawgs.C10.Props.valid_needed_min_int64",
        "Dawgs.C10.Props.builder_roundtrip_old_partial",
        "Dawgs.C10.Props.refute_and_over_xor_old",
        "Dawgs.C10.Props.and_over_xor_changes_meaning_old",
        "Dawgs.C10.Props.refute_integral_float_old",
        "Dawgs.C10.Props.refute_all_of_kinds_old",
        "Dawgs.C10.Props.all_of_kinds_changes_meaning_old",
        "Dawgs.C10.Props.builder_roundtrip_old_refuted",
        "Dawgs.C10.Props.c10_full_old_refuted",
        "Dawgs.C10.Props.refute_not_over_and_old",
        "Dawgs.C10.Props.refute_not_not_old",
        "Dawgs.C10.Props.refute_and_over_bare_or_old",
        "Dawgs.C10.Props.operand_roundtrip_fixed",
        "Dawgs.C10.Props.literal_roundtrip",
        "Dawgs.C10.Props.literal_roundtrip_old",
        "Dawgs.C10.Props.literal_roundtrip_null",
        "Dawgs.C10.Props.literal_roundtrip_bool",
        "Dawgs.C10.Props.literal_roundtrip_int",
        "Dawgs.C10.Props.literal_roundtrip_float",
        "Dawgs.C10.Props.literal_roundtrip_string_token",
        "Dawgs.C10.Props.literal_roundtrip_list",
        "Dawgs.C10.Props.float_integral_becomes_int_old",
        "Dawgs.C10.Props.literal_roundtrip_string",
        "Dawgs.C10.Props.prepare_preserves_eval_fix7",
        "Dawgs.C10.Props.prepare_hoists_at_most_one_fix7",
        "Dawgs.C10.Props.prepare_preserves_eval",
        "Dawgs.C10.Props.hoist_from_or_changes_meaning",
        "Dawgs.C10.Props.hoist_from_xor_changes_meaning",
        "Dawgs.C10.Props.prepare_keeps_negated_kind_matcher",
        "Dawgs.C10.Props.hoist_from_negation_changes_meaning",
        "Dawgs.C10.Props.two_hoisted_conjuncts_change_meaning",
        "Dawgs.C10.Props.hoist_all_of_changes_meaning",
        "Dawgs.C10.Props.prepare_guard_sharp",
        "Dawgs.C10.Props.prepare_guarded_preserves_eval",
        "Dawgs.C10.Props.prepare_guarded_refuses",
        "Dawgs.C10.Props.string_negation_guard_eval",
        "Dawgs.C10.Props.query_parse_emit",
        "Dawgs.C10.Props.query_roundtrip",
        "Dawgs.C10.Props.prepare_parameters_preserved",
        "Dawgs.C10.Props.lift_numbering",
        "Dawgs.C10.Props.prepared_query_roundtrip",
        "Dawgs.C10.Props.raw_go_string_literal_refuted",
        "Dawgs.C10.Props.rewrite_loses_parameters",
        "Dawgs.C10.Props.rewrite_binds_all_fixed",
        "Dawgs.C10.Props.rewrite_current_partial",
        "Dawgs.C10.Props.builder_names_not_reserved",
    ],
}

# VERIF_C10_MODE selects what the Lean side answers for:
#   live (default)  format.go and QueryBuilder.Prepare as they are in /repo
#   fix7            Prepare with the proposal hooks/C10-fix7 applied to the tree under test (not taken: r:TYPE in WHERE is not portable)
#   fix8            Prepare with the proposal hooks/C10-fix8 applied to the tree under test (refuse what cannot be hoisted faithfully)
#   current         format.go before the three emitter fixes (4086218, 04efdd9, 7bfe5dc)
MODE = {"fix7": "fix7", "fix8": "fix8", "current": "current"}.get(os.environ.get("VERIF_C10_MODE", ""), "fixed")


def fields(line):
    out = {}
    for part in line.split("\t"):
        k, _, v = part.partition(" ")
        out[k] = v
    return out


LIST_ERROR = "expected an expression list AST node"
KIND_ERROR = "relationship kind matcher"      # refusals of hooks/C10-fix8


def modelled_refusal(impl):
    return LIST_ERROR in impl or KIND_ERROR in impl


def model_input(op, impl):
    if impl.startswith(("render-error", "bad-op", "panic", "skipped")):
        return "# " + impl[:60]
    f = fields(impl)
    if impl.startswith("prepare-error"):
        # the one refusal the Prepare model knows: a relationship kind matcher whose parent is not an expression list
        if modelled_refusal(impl) and f.get("A", "none") != "none":
            return "e %s none none %s none" % (MODE, f["A"])
        return "# " + impl[:60]
    if f.get("M", "none") == "none" and f.get("A", "none") == "none" and f.get("gqm", "unmodelled") == "unmodelled":
        return "# no where clause, query outside the clause-level algebra"
    return "e %s %s %s %s %s %s %s %s" % (MODE, f.get("M", "none"), f.get("R", "none"), f.get("A", "none"), f.get("RK", "none"),
                                          f.get("QM", "none"), f.get("QR", "none"), f.get("QA", "none"))


def blank_params(term):
    return re.sub(r'\(param "[^"]*"\)', '(param "")', term)


def prep_view_impl(f, error=False):
    if error:
        return " | prep=error/error"
    if f.get("A", "none") == "none" or "(unmodelled " in f.get("A", "") or "(unmodelled " in f.get("M", ""):
        return ""
    rk = f.get("RK", "none")
    return " | prep=%s/%s" % ("(ks)" if rk == "none" else rk, blank_params(f.get("M", "none")))


def query_view_impl(f):
    if MODE == "current" or f.get("gqm", "unmodelled") == "unmodelled" or "QM" not in f:
        return ""
    # tokens of the whole text, normal form of the rendered model, of the re-parse (twice: Lean's parse must predict it),
    # and what Prepare made of the applied query
    out = " | qtoks=%s | qnm=%s | qnr=%s | qreparse=%s" % (f.get("qtoks"), f.get("gqm"), f.get("gqr"), f.get("gqr") if f.get("gqr") != "unmodelled" else "none")
    if f.get("QA", "none") != "none":
        out += " | qprep=%s" % f.get("QM")
    return out


def query_view_model(f):
    if "qtoks" not in f:
        return ""
    out = " | qtoks=%s | qnm=%s | qnr=%s | qreparse=%s" % (f.get("qtoks"), f.get("qnm"), f.get("qnr"), f.get("qparse"))
    if "qprep" in f:
        out += " | qprep=%s" % f.get("qprep")
    return out


def prep_view_model(f):
    if "pk" not in f:
        return ""
    return " | prep=%s/%s" % (f.get("pk"), f.get("pw"))


def impl_view(impl):
    if impl.startswith(("render-error", "bad-op", "panic", "skipped")):
        return "#"
    f = fields(impl)
    if impl.startswith("prepare-error"):
        if modelled_refusal(impl) and f.get("A", "none") != "none":
            return "not-in-algebra" if "(unmodelled " in f["A"] else "nowhere" + prep_view_impl(f, error=True)
        return "#"
    if f.get("M", "none") == "none":
        if f.get("A", "none") == "none":
            return ("nowhere" + query_view_impl(f)) if query_view_impl(f) else "#"
        if "(unmodelled " in f["A"]:
            return "not-in-algebra"
        return "nowhere" + prep_view_impl(f) + query_view_impl(f)
    if f.get("gm") == "unmodelled":
        return "not-in-algebra"
    # the Lean side must (1) write the same tokens, (2) compute the same normal forms, (3) predict the re-parse,
    # (4) predict Prepare, (5) the same four for the whole query
    return "toks=%s | nm=%s | nr=%s | reparse=%s" % (f.get("toks"), f.get("gm"), f.get("gr"), f.get("gr") if f.get("gr") != "unmodelled" else "none") \
        + prep_view_impl(f) + query_view_impl(f)


def model_view(model):
    if model == "#" or model.startswith("#"):
        return "#"
    if model.startswith("unmodelled(") or model.startswith("bad-op"):
        return "not-in-algebra" if model.startswith("unmodelled(") else model
    f = fields(model)
    if model.startswith("nowhere"):
        return "nowhere" + prep_view_model(f) + query_view_model(f)
    nr = "unmodelled" if "runmodelled" in f else f.get("nr")
    return "toks=%s | nm=%s | nr=%s | reparse=%s" % (f.get("toks"), f.get("nm"), nr, f.get("parse")) + prep_view_model(f) + query_view_model(f)


SHAPE_ORDER = ["empty-list", "int-out-of-range", "not-over-unparenthesised-not", "not-over-unparenthesised-and",
               "not-over-unparenthesised-or", "not-over-unparenthesised-xor", "and-over-unparenthesised-xor",
               "and-over-unparenthesised-or", "xor-over-unparenthesised-or", "all-of-kinds", "integral-float"]


def attribute(shapes, needs):
    """Name the defect class a failing term is attributed to: the first repair Lean says is needed (`needs`), and the
    first shape of that repair's kind present in the term."""
    paren = [s for s in SHAPE_ORDER if s in shapes and "-over-unparenthesised-" in s]
    need = needs.split(",") if needs not in ("", "-", "unfixable") else []
    if needs == "unfixable":
        for s in ("empty-list", "int-out-of-range"):
            if s in shapes:
                return s
    if "parens" in need and paren:
        return paren[0]
    if "allOf" in need and "all-of-kinds" in shapes:
        return "all-of-kinds"
    if "frac" in need and "integral-float" in shapes:
        return "integral-float"
    return next((s for s in SHAPE_ORDER if s in shapes), shapes[0])


def judge(op, impl, model):
    """Property monitor. Uses the Go normal forms (gm, gr) cross-checked against Lean's (nm, nr) by the tie, and Lean's
    classification of the F8 shapes present in the term; only combines those fields."""
    if impl.startswith("panic"):
        return "reject panic " + impl[:100]
    if impl.startswith(("bad-op", "skipped")):
        return "ok"
    f = fields(impl)
    # one criteria VALUE through two fresh neo4j builders and query.Builder (before and after): the caller's tree must
    # not change and every rendering must give the same text
    if f.get("idem", "ok") != "ok":
        return "reject render-not-idempotent " + f["idem"][:300]
    if f.get("mut", "ok") != "ok":
        return "reject caller-criteria-mutated " + f["mut"][:300]
    if impl.startswith(("prepare-error", "render-error")):
        return "ok"      # the builder refused the term (reported in branch_hist); nothing was emitted
    m = fields(model) if model and not model.startswith(("unmodelled(", "#", "bad-op")) else {}
    if f.get("str", "ok") != "ok":
        return "reject string-literal-escape " + f["str"][:120]
    shapes = [s for s in (m.get("shapes") or "-").split(",") if s and s != "-"]
    if m and m.get("valid") == "0" and not shapes:
        shapes = ["invalid-term"]
    same = f.get("gm") == f.get("gr") and f.get("q") == "ok"
    if f.get("gm") == "unmodelled" or f.get("gr") == "unmodelled" or not m:
        same = f.get("q") == "ok"
    if not same:
        if f.get("q") == "reparse-error":
            detail = "reparse-error " + f.get("reerr", "")[:100]
        elif f.get("gm") != f.get("gr"):
            detail = "where-clause-regrouped-or-retyped"
        else:
            detail = f.get("q", "")[-200:]
        if shapes:
            return "reject %s %s text=%s" % (attribute(shapes, m.get("needs", "")), detail, f.get("text", "")[:160])
        if f.get("text", "").startswith('"match  where '):
            # no variable of the criteria reached prepareMatch (pattern predicate / update-only variables): `match  where …`
            return "reject empty-match-pattern %s text=%s" % (detail, f.get("text", "")[:160])
        for tag, cls in (("literal:non-finite-float", "non-finite-float"), ("string-not-in-single-quoted-source-form", "raw-string-literal")):
            if tag in f.get("M", ""):
                return "reject %s %s text=%s" % (cls, detail, f.get("text", "")[:160])
        if m and m.get("safe") == "1":
            return "reject roundtrip-failure-on-safe-term %s text=%s" % (detail, f.get("text", "")[:200])
        return "reject roundtrip-failure-outside-algebra %s text=%s" % (detail, f.get("text", "")[:200])
    if f.get("params", "ok") != "ok":
        p = f["params"]
        return "reject parameter-%s %s" % (p.split(" ")[0], p[:120])
    # Prepare: the kinds hoisted onto the MATCH pattern are part of the meaning
    if m.get("eqreal") == "no":
        return "reject prepare-output-differs-in-meaning-from-model real=%s/%s model=%s/%s text=%s" % (
            f.get("RK"), blank_params(f.get("M", ""))[:200], m.get("pk"), (m.get("pw") or "")[:200], f.get("text", "")[:160])
    if m.get("eqapplied") == "no":
        sites = (m.get("sites") or "-").split(",")
        cls = next((c for c in ("or", "xor", "allof", "multi") if c in sites), "unknown")
        name = {"or": "edge-kind-lifted-out-of-or", "xor": "edge-kind-lifted-out-of-xor", "allof": "edge-all-of-kinds-hoisted-as-any-of",
                "multi": "edge-kind-conjuncts-merged-into-any-of"}.get(cls, "prepare-changes-meaning")
        return "reject %s text=%s" % (name, f.get("text", "")[:200])
    if not m and f.get("lift", "ok") != "ok" and "[r:" in f.get("text", ""):
        return "reject edge-kind-lifted-out-of-%s text=%s" % (f["lift"], f.get("text", "")[:200])
    b = f.get("b", "")
    if b and not b.startswith(("ok", "skip-parameters")):
        # query.Builder.Build + format.RegularQuery renders the same model without parameter lifting
        if shapes:
            return "ok"   # same defect classes as path 1, already judged there when they bite
        return "reject builder-path-%s text=%s" % (b.split(" ")[0], f.get("text", "")[:160])
    return "ok"


def rw_judge(op, impl, model):
    if impl.startswith("panic"):
        return "reject panic " + impl[:100]
    if impl.startswith(("ok", "skip", "bad-op", "skipped")):
        return "ok"
    f = fields(impl)
    shapes = [s for s in (f.get("shapes") or "-").split(",") if s and s != "-"]
    head = impl.split("\t")[0]
    if shapes:
        cls = next((s for s in SHAPE_ORDER if s in shapes), shapes[0])
        return "reject %s rewrite-path %s text=%s" % (cls, head[-160:], f.get("text", "")[:160])
    return "reject rewrite-path-model-changed %s text=%s" % (head[-200:], f.get("text", "")[:160])


# ---- suite pmc10: the parameter map through neo4jTransaction.Query's rewrite
PM_KEY = "C10:drivers/neo4j.rewriteQuery:parameters-lost-when-pattern-property-maps-are-empty"


def _pm_mode():
    """The Lean side answers for the rewrite as it is, or with hooks/C10-fix9 once known_findings.json lists PM_KEY as fixed
    (so committing the patch and flipping the entry is all it takes); VERIF_C10_MODE=fix9 / current overrides."""
    env = os.environ.get("VERIF_C10_MODE", "")
    if env in ("fix9", "current"):
        return env
    try:
        import json
        kf = json.load(open(os.path.join(os.path.dirname(os.path.dirname(os.path.dirname(os.path.abspath(__file__)))), "known_findings.json")))
        for f in kf["findings"]:
            if f.get("key") == PM_KEY and f.get("status") == "fixed":
                return "fix9"
    except Exception:
        pass
    return "current"


PM_MODE = _pm_mode()


def pm_model_input(op, impl):
    if impl.startswith(("hook-missing", "prepare-error", "render-error", "rewrite-error", "bad-op", "panic", "skipped")):
        return "# " + impl[:60]
    f = fields(impl)
    return "r %s %s %s" % (PM_MODE, f.get("P", "(pats)"), f.get("L", "(plains)"))


def pm_impl_view(impl):
    if impl.startswith(("hook-missing", "prepare-error", "render-error", "rewrite-error", "bad-op", "panic", "skipped")):
        return "#"
    f = fields(impl)
    return "syms %s | bound %s" % (f.get("syms"), f.get("bound"))


def pm_model_view(model):
    if model.startswith("#"):
        return "#"
    f = fields(model)
    return "syms %s | bound %s" % (f.get("syms"), f.get("bound"))


def pm_judge(op, impl, model):
    if impl.startswith("panic"):
        return "reject panic " + impl[:100]
    if impl.startswith(("hook-missing", "prepare-error", "render-error", "bad-op", "skipped")):
        return "ok"
    if impl.startswith("rewrite-error"):
        return "reject driver-rewrite-refuses-builder-query " + impl[:200]
    f = fields(impl)
    if f.get("unbound", "-") != "-":
        return "reject parameters-lost-in-driver-rewrite unbound=%s text2=%s" % (f["unbound"], f.get("text2", "")[:200])
    if f.get("changed", "-") != "-":
        return "reject parameter-value-changed-in-driver-rewrite %s text2=%s" % (f["changed"], f.get("text2", "")[:200])
    if f.get("expanded", "ok") != "ok":
        return "reject pattern-property-expansion %s text2=%s" % (f["expanded"], f.get("text2", "")[:200])
    return "ok"


KEYS = {
    "parameters-lost-in-driver-rewrite": PM_KEY,
    "and-over-unparenthesised-xor": "C10:format.Conjunction:and-over-unparenthesised-xor",
    "and-over-unparenthesised-or": "C10:format.Conjunction:and-over-unparenthesised-or",
    "xor-over-unparenthesised-or": "C10:format.ExclusiveDisjunction:xor-over-unparenthesised-or",
    "not-over-unparenthesised-and": "C10:format.Negation:not-over-unparenthesised-and",
    "not-over-unparenthesised-or": "C10:format.Negation:not-over-unparenthesised-or",
    "not-over-unparenthesised-xor": "C10:format.Negation:not-over-unparenthesised-xor",
    "not-over-unparenthesised-not": "C10:frontend.NotExpression:repeated-not-collapsed-to-one-negation",
    "integral-float": "C10:format.Literal:integral-float-without-fraction",
    "all-of-kinds": "C10:format.KindMatcher:all-of-rendered-as-or",
    "int-out-of-range": "C10:frontend.IntegerLiteral:magnitude-outside-int64",
    "empty-list": "C10:format.ExpressionList:empty-list-prints-nothing",
    "parameter-ast-node-as-value": "C10:query.Parameter:ast-node-as-parameter-value",
    "non-finite-float": "C10:format.Literal:non-finite-float-rendered-as-identifier",
    "raw-string-literal": "C10:query.Literal:raw-go-string-emitted-unquoted",
    "empty-match-pattern": "C10:neo4j.QueryBuilder.prepareMatch:empty-match-pattern",
    "edge-kind-conjuncts-merged-into-any-of": "C10:neo4j.ExpressionListRewriter:edge-kind-conjuncts-merged-into-any-of",
    "edge-all-of-kinds-hoisted-as-any-of": "C10:neo4j.ExpressionListRewriter:edge-all-of-kinds-hoisted-as-any-of",
    "edge-kind-lifted-out-of-or": "C10:neo4j.ExpressionListRewriter:edge-kind-matcher-lifted-out-of-or",
    "edge-kind-lifted-out-of-xor": "C10:neo4j.ExpressionListRewriter:edge-kind-matcher-lifted-out-of-xor",
}


def finding_key(suite, ops, line, msg):
    cls = msg.split()[1] if len(msg.split()) > 1 else "reject"
    key = KEYS.get(cls, "C10:%s:%s" % (suite["name"], cls))
    if suite["name"] == "rwc10" and cls in KEYS:
        key += ":rewrite-path"
    return key


def nontrivial(ops, impl):
    # a term with at least one combinator nested in another, rendered and re-parsed
    for o, r in zip(ops, impl):
        if o.startswith("t ") and "\tgr (" in r and len(re.findall(r"\((?:And|Or|Xor|Not|RawNot|RawOr) ", o)) >= 2:
            return True
        if o.startswith("q ") and (r.startswith("ok") or r.startswith("diff")):
            return True
        if o.startswith("pm ") and "\tP (pats (" in r:
            return True
    return False


# clause of the statement (properties.jsonl C10) -> theorem(s) proving it for ALL terms / queries / maps, with their hypotheses | searched only
CLAUSES = {
    "the emitted text parses (criteria)":
        "builder_roundtrip (hyp. valid e: no empty criteria list / kind matcher without kinds, integer magnitudes <= 2^63-1, canonical decimals); "
        "parse_emit_canonical + emit_canonical: the parser inverts the emitter exactly on the canonical representative the emitter follows. Outside `valid` exactly "
        "two clauses fail (c10_full_except, c10_full_fails_only_there, c10_full_refuted; C10_full stays a Prop): empty lists (format.go refuses them since 4a73cd7, "
        "valid_needed_empty_list is the model-level witness) and integer magnitudes > 2^63-1 (valid_needed_min_int64, known finding)",
    "the emitted text parses (whole query: MATCH pattern, WHERE, Create/Delete/Set*/Remove*, RETURN DISTINCT/ORDER BY/SKIP/LIMIT)":
        "query_parse_emit (hyp. validQ q: WHERE valid and only with a pattern, non-empty clause item lists, operands ok) — exact up to the canonical WHERE; "
        "prepared_query_roundtrip: the same for the query Prepare renders (parameters named), from validQ of the APPLIED query (validQ_liftQ)",
    "parses back to the same operator tree, grouping preserved":
        "builder_roundtrip / query_roundtrip: equality of normal forms; norm_preserves_eval (norm keeps the three-valued meaning under every valuation, no hypothesis), "
        "norm_idempotent. For format.go before 4086218/04efdd9/7bfe5dc the clause is refuted (*_old theorems) and holds on `safe` (builder_roundtrip_old_partial)",
    "same operands":
        "operand_roundtrip_fixed (hyp. o.ok), inside builder_roundtrip / query_roundtrip (references, id()/toLower()/size()/labels()/type(), parameters, list literals)",
    "kinds with the same all-of / any-of meaning":
        "builder_roundtrip (kind matchers are terms of the algebra; norm expands any-of to OR and all-of to AND of single-kind tests, eval_norm); "
        "old emitter: refute_all_of_kinds_old + all_of_kinds_changes_meaning_old",
    "literals of the same type and value":
        "literal_roundtrip (+ _null/_bool/_int/_float/_string_token/_list; hyp. |i| <= 2^63-1, canonical decimal) and literal_roundtrip_string (ALL strings: quote -> one "
        "StringLiteral token -> decode = identity). Refuted instances = known findings: valid_needed_min_int64 (C10:frontend.IntegerLiteral:magnitude-outside-int64) and "
        "raw_go_string_literal_refuted (C10:query.Literal:raw-go-string-emitted-unquoted)",
    "parameters: every symbol of the text is bound to the builder's value":
        "prepare_parameters_preserved + lift_numbering (hyp. a WHERE only with a pattern): the `$` tokens of the emitted text are p0,p1,.. in text order, pairwise distinct, "
        "i-th name bound to i-th value; rewrite_binds_all_fixed for the driver's query rewrite as it is since 0d109c6 (hyp. pattern-property parameters are maps, no reserved "
        "name in the map — discharged for builder maps by builder_names_not_reserved): every other parameter keeps its value, every new {key: $fresh} is bound to that key's "
        "value, for empty / nil / non-empty maps in any mix; before 0d109c6: rewrite_loses_parameters (refuted), rewrite_current_partial",
    "both backends are asked the same question (Prepare / rewrites preserve the meaning)":
        "prepare_preserves_eval (hyp. valid e and hoistOK e: at most one hoisted relationship kind matcher, any-of, reached through conjunctions and parentheses only, "
        "un-negated; string-negation null guard switched off: string_negation_guard_eval states what that deliberate change is); prepare_guard_sharp: the guard is sharp — "
        "the four known findings neo4j.ExpressionListRewriter:* are its refuted instances (hoist_from_or/_xor_changes_meaning, two_hoisted_conjuncts_change_meaning, "
        "hoist_all_of_changes_meaning), prepare_keeps_negated_kind_matcher + hoist_from_negation_changes_meaning for negated positions. Proposals, not the code: "
        "prepare_preserves_eval_fix7 (no hypothesis beyond valid), prepare_guarded_refuses (hooks/C10-fix8). The PostgreSQL translation of the same model is C01's subject",
    "every code path is in the model (new constructors, emitter cases, rewriter cases)":
        "Dawgs.C10.Tie.* (13 decide theorems over tables regenerated from /repo each run): exported API of query and query/neo4j, functions of format.go, every case of the "
        "emitter's / rewriters' / builders' switches classified as modelled or exempt-with-reason, both directions",
    "searched only (tie)":
        "that the Lean definitions ARE the Go code: per generated case Lean emit = real text token-wise (WHERE and whole query), Lean norm = harness normaliser, "
        "Lean parse∘emit = real re-parse, Lean prepareQ (names + hoisting) = real Prepare, Lean rewriteParams = real driver rewrite (symbols, bound keys); lexing of tokens other "
        "than string literals (c10Lex / ANTLR); prepareMatch's derivation of the MATCH pattern; constructs outside the algebra (pattern predicates, non-finite floats — refused "
        "by format.go, multi-expression WHERE, map literals, MERGE, multi-part queries) via the generic structural normal form only; parameter VALUE types (no AST node as a value) "
        "and the multiset of bound values; rendering one criteria value twice (idempotence, caller's tree unchanged); the rewrite path parse -> format -> re-parse over the "
        "repository corpora; the values (not only the names) through the driver rewrite",
    "named assumptions":
        "ANTLR builds the tree the grammar says (checked per case); strconv float <-> shortest decimal round trip; names are lexically identifiers or backtick-escapable; "
        "the text is abstracted to tokens (string literals alone are modelled at character level); the driver rewrite is abstracted to the parameter occurrences of the text; "
        "Go map iteration order (SetProperties over several keys) is outside the tie (one key per call)",
}


def extra_coverage(ctx, stats):
    return {
        "clause_map": CLAUSES,
        "stated_goals_not_proved": ["C10_full (all finite terms, no hypothesis): refuted, false exactly for empty lists and integer magnitudes > 2^63-1"],
        "refuted_instances_known_findings": {
            "C10:neo4j.ExpressionListRewriter:edge-kind-matcher-lifted-out-of-or": "hoist_from_or_changes_meaning",
            "C10:neo4j.ExpressionListRewriter:edge-kind-matcher-lifted-out-of-xor": "hoist_from_xor_changes_meaning",
            "C10:neo4j.ExpressionListRewriter:edge-kind-conjuncts-merged-into-any-of": "two_hoisted_conjuncts_change_meaning",
            "C10:neo4j.ExpressionListRewriter:edge-all-of-kinds-hoisted-as-any-of": "hoist_all_of_changes_meaning",
            "C10:frontend.IntegerLiteral:magnitude-outside-int64": "valid_needed_min_int64",
            "C10:query.Literal:raw-go-string-emitted-unquoted": "raw_go_string_literal_refuted",
        },
        "model_variants": {"emitter": MODE, "driver_rewrite": PM_MODE},
    }


SPEC = {
    "id": "C10",
    "title": "emitted Cypher text means the same as the query model it was emitted from",
    "level": "proof",
    "regen": do_regen,
    "lean_modules": ["Dawgs.Props.C10", "Dawgs.Props.C10Tie"],
    "theorems_by_module": THEOREMS,
    "gate_modules": ["Dawgs.Model.C10", "Dawgs.Model.C10Q", "Dawgs.Spec.C10", "Dawgs.Spec.C10Q", "Dawgs.Proofs.C10", "Dawgs.Proofs.C10Q", "Dawgs.Props.C10", "Dawgs.Spec.C10Cover", "Dawgs.Props.C10Tie", "Dawgs.Model.C10P", "Dawgs.Proofs.C10P"],
    "suites": [
        {"name": "c10", "model_suite": "c10", "model_input": model_input, "impl_view": impl_view, "model_view": model_view,
         "judge": judge, "keep_prefix": 1, "thorough_seeds": 2},
        {"name": "rwc10", "judge": rw_judge, "keep_prefix": 1, "thorough_seeds": 1},
        {"name": "pmc10", "model_suite": "pmc10", "model_input": pm_model_input, "impl_view": pm_impl_view, "model_view": pm_model_view,
         "judge": pm_judge, "keep_prefix": 1, "thorough_seeds": 1},
    ],
    "nontrivial": nontrivial,
    "finding_key": finding_key,
    "extra_coverage": extra_coverage,
    "rule": "suite c10: every ordered pair of the combinators And/Or/Xor/Not/cypher.NewNegation/NewDisjunction/NewParenthetical (precedence-adjacent "
            "nestings, 3 positions each), every listed string/float/int literal as a bare operand, then random terms over the exported constructors of "
            "package query (depth 1..5, smallest first; 1500 quick, 2 x 12000 thorough; plus a fifth as many kind-heavy terms; plus the systematic family of relationship/node kind matchers under nested negations and and/or/xor lists before/after sibling negations: 360 quick, 1296 thorough; splitmix64(VERIF_SEED)) wrapped in Returning/OrderBy/Limit/Offset/"
            "Update/Delete; suite rwc10: every Cypher text of the repository corpora through parse -> format.RegularQuery -> re-parse. "
            "non-trivial = a term nesting >= 2 combinators that was rendered and re-parsed, or a corpus query that was compared; "
            "suite pmc10: MATCH patterns with pattern-property parameters {absent, nil, empty, one key, three keys} on one or two elements x four WHERE shapes "
            "(other parameters absent/present) + relationship properties + random (150 quick, 3000 thorough), rendered through NewQueryBuilder/Apply/Prepare/Render and "
            "passed through the driver's rewriteQuery (hook drivers/neo4j/verif_c10.go, hooks/C10-hook.patch); distinct = distinct op lines",
    "expected_branches": ["rendered", "builder_path_rendered", "gen.xor", "gen.kind_all_of", "gen.float_literal", "gen.string_literal",
                          "gen.list_literal", "gen.raw_negation", "gen.order_by", "gen.limit", "gen.update", "gen.delete", "gen.kind_nests",
                          "gen.kind_on_relationship", "rw.compared", "pm_rewritten"],
    "trusted_base": [
        "the lexer level: the harness tokenises the emitted WHERE text (c10Lex) and the Lean model starts at tokens; the string literal is the only "
        "token class modelled at character level (quote/lex/decode, theorem literal_roundtrip_string)",
        "strconv.FormatFloat/ParseFloat round trip of finite float64 (floats enter the model as the decimal FormatFloat('f',-1) writes)",
        "ANTLR and cypher/frontend build the tree the Lean parser builds: checked on every case (Lean parse∘emit = real re-parse, normal forms)",
    ],
    "assumptions": [
        "valid terms: no empty criteria list / kind matcher without kinds, integer magnitudes <= 2^63-1 (both necessary: theorems valid_needed_*; "
        "run against the real code as corpus cases)",
        "names are lexically identifiers or backtick-escapable property keys (token level)",
        "terms outside the Lean algebra (pattern predicates, non-finite floats, multi-expression WHERE) are compared by the harness's generic "
        "structural normal form only and counted as unmodelled_by_lean",
    ],
}

MANIFEST = {
    "category": "proof",
    "technique": "Lean 4: verified precedence-climbing parser for the emitter's token language (criteria and whole queries) + round-trip theorems over all finite "
                 "terms modulo a normal form proved meaning-preserving + models of Prepare (parameter naming, kind hoisting) and of the driver's parameter rewrite; "
                 "completeness tables regenerated from the source and checked by decide; differential tie against the real builders, emitter, parser, Prepare and rewrite",
    "text": "For every finite term of the criteria algebra package query builds (And/Or/Xor/Not lists, comparisons, string predicates, IS [NOT] NULL, any-of/all-of kind "
            "matchers, IN, references, parameters, literals incl. lists) that is valid (no empty list, integer magnitudes <= 2^63-1), the text format.go emits parses back to a "
            "term with the same normal form (builder_roundtrip), and norm preserves the three-valued meaning (norm_preserves_eval); the same for whole queries — MATCH pattern, "
            "WHERE, Create/Delete/Set*/Remove*, RETURN DISTINCT/ORDER BY/SKIP/LIMIT — under validQ (query_roundtrip, prepared_query_roundtrip). C10_full without the "
            "validity hypothesis is refuted and fails exactly for empty lists (now refused by the emitter) and integers beyond int64 (known finding). Literals round-trip per type, "
            "strings for ALL strings at character level (literal_roundtrip*, literal_roundtrip_string). Parameters: the `$` symbols of the emitted text are p0,p1,.. in text order, "
            "distinct, bound to the builder's values (prepare_parameters_preserved), and the driver's query rewrite keeps every binding for empty, nil and non-empty pattern-property "
            "maps provided those parameters are maps (rewrite_binds_all_fixed). Prepare's hoisting of a relationship kind matcher onto the MATCH pattern preserves the meaning under "
            "the hypothesis hoistOK — at most one hoisted matcher, any-of, in a purely conjunctive un-negated position — and not outside it (prepare_preserves_eval, "
            "prepare_guard_sharp; the string-negation null guard is a deliberate change and is left out of that theorem). The six known findings are refuted instances in Lean. "
            "13 decide theorems over tables regenerated from /repo keep the exported API and every switch case of emitter, rewriters and builders classified. "
            "See coverage.clause_map in the evidence for clause -> theorem -> hypotheses.",
    "note": "Proved about the Lean transcriptions; that they are the Go code rests on the per-case tie (tokens, normal forms, re-parse, Prepare output, driver rewrite output) "
            "and on the regenerated completeness tables. Trusted: lexing other than string literals, ANTLR, float<->decimal conversion, prepareMatch's pattern derivation. "
            "Known (not repaired, reasons in known_findings.json): four ExpressionListRewriter hoisting shapes, int64 magnitude, query.Literal raw Go strings. "
            "hooks/C10-fix4/-fix7/-fix8 are proposals only.",
}
