import regen


def do_regen(ctx):
    regen.goext("c16", "C16Locks.lean")


THEOREMS = {
    "Dawgs.Props.C16Conc": [
        "Dawgs.RW.linearizable",
        "Dawgs.RW.progress",
        "Dawgs.C16.ConcProps.sieve_lawful",
        "Dawgs.C16.ConcProps.nemap_lawful",
        "Dawgs.C16.ConcProps.sieve_linearizable",
        "Dawgs.C16.ConcProps.nemap_linearizable",
        "Dawgs.C16.ConcProps.sieve_deadlock_free",
        "Dawgs.C16.ConcProps.nemap_deadlock_free",
    ],
    "Dawgs.Props.C16Locks": [
        "Dawgs.C16.Locks.lock_skeleton_ok",
    ],
    "Dawgs.Props.C16": [
        "Dawgs.C16.Props.sieve_inv",
        "Dawgs.C16.Props.sieve_refines_map",
        "Dawgs.C16.Props.sieve_evict_terminates",
        "Dawgs.C16.Props.sieve_put_then_get",
        "Dawgs.C16.Props.nemap_inv",
        "Dawgs.C16.Props.nemap_refines_map",
        "Dawgs.C16.Props.c16_seq",
        "Dawgs.C16.Props.combined_stats_exact",
    ],
    "Dawgs.Props.C16Retain": [
        "Dawgs.C16.Props.sieve_step_retention",
        "Dawgs.C16.Props.sieve_counters_exact",
        "Dawgs.C16.Props.nemap_step_retention",
        "Dawgs.C16.Props.sieve_exact_when_working_set_fits",
        "Dawgs.C16.Props.nemap_exact_when_working_set_fits",
    ],
}


def nontrivial(ops, impl):
    if any(o.startswith("conc ") for o in ops):
        # concurrent case: at least two operations overlap in real time
        for r in impl:
            evs = [e.split(":") for e in r.split(" | ")[0].split(";") if e.count(":") == 6]
            evs.sort(key=lambda e: int(e[5]))
            if any(int(evs[i - 1][6]) > int(evs[i][5]) for i in range(1, len(evs))):
                return True
        return False
    # at least one hit and one miss *after* some put (an eviction, refusal or delete was observed)
    seen_put = False
    hit = miss = False
    for o, r in zip(ops, impl):
        if o.startswith("put"):
            seen_put = True
        elif o.startswith("get") and seen_put:
            hit |= r.startswith("hit")
            miss |= r == "miss"
    return hit and miss


def finding_key(suite, ops, line, msg):
    kind = next((o.split()[1] for o in ops if o.startswith("new ") or o.startswith("conc ")), "?")
    cls = msg.split()[1] if len(msg.split()) > 1 else "reject"
    return "C16:%s:%s" % (kind, cls)



CLAUSES = {
    "never more entries than capacity": "sieve_inv (queue.length <= sieveCap c, for every capacity incl. <= 0 which the constructor clamps to 1) and nemap_inv "
                                        "(store.length <= max c 0), for every operation history; concurrent: follows for every reachable state of the lock-level LTS "
                                        "from sieve_linearizable / nemap_linearizable (each state is the sequential state after the linearized history)",
    "one entry per key": "sieve_inv ((keys queue).Nodup), nemap_inv ((skeys store).Nodup)",
    "a lookup is a miss or the most recent completed put for that key that has not been deleted; never another key's, a superseded or a deleted value": "sieve_refines_map, nemap_refines_map (acceptsTrace against the ideal map, for every history and capacity); "
        "sieve_put_then_get rules out the degenerate always-miss cache",
    "coherent also means: nothing is forgotten except by the policy (refinement alone would allow a cache that drops entries at will)": "sieve_step_retention (for every reachable state and every next operation: Get changes no stored binding; Delete k removes k only; Put of a stored key keeps the key set; "
        "Put of a new key with room evicts nothing; Put of a new key into a full cache evicts EXACTLY ONE stored key, never the new one; all other bindings keep their values) and nemap_step_retention "
        "(the map cache never evicts: Get / Put keep every stored key, a Put of a new key into a full cache is dropped and leaves the state unchanged, Delete k removes k only)",
    "a cache whose working set fits is an exact map": "sieve_exact_when_working_set_fits / nemap_exact_when_working_set_fits (if every key the history puts lies in a list of at most capacity keys, the whole observable trace equals the "
        "ideal never-evicting map's trace: a miss only where the ideal map misses); the second example shows the hypothesis is needed",
    "hit / miss statistics are exact": "sieve_counters_exact (after any history the hit counter is the number of hits the callers were given, the miss counter the number of misses, their sum the number of Get calls); "
        "the tie compares both counters after every operation",
    "eviction terminates": "sieve_evict_terminates (the clock sweep finds a victim within 2 * length steps; the Go loop is unbounded, the model's fuel is proved sufficient)",
    "size statistic equals the number of stored entries": "sieve_inv (size = queue.length), nemap_inv (size = store.length); combined_stats_exact for Stats.Combined; "
        "concurrent histories: the Lean monitor requires size = number of entries still observable after the history",
    "under any number of concurrent callers every completed operation is consistent with some sequential order (linearizable up to eviction)": "Dawgs.RW.linearizable instantiated as sieve_linearizable / nemap_linearizable over the RW-lock LTS with sieve_lawful / nemap_lawful "
        "(writers exclusive, readers only perform atomic effects that commute), for any number of threads and any schedule",
    "no deadlock": "sieve_deadlock_free / nemap_deadlock_free (Dawgs.RW.progress: every non-final state has an enabled step)",
    "no data race": "searched only: the lock skeleton (Put/Delete under Lock, Get under RLock with atomic effects only, helpers reached only from writers) is extracted from cache/*.go "
                    "and checked by decide (lock_skeleton_ok); Go-memory-model races outside that skeleton are covered by the -race run of the concurrent suite in the thorough tier",
    "no panic": "searched only (tie): exhaustive op sequences up to length 4/5 and random histories on the real code; the model is total, the tie compares internal state "
                "(queue, visited bits, hand) after every op, so a dangling hand shows as a disagreement before it panics",
    "searched only (tie)": "that the Lean transcription is what cache/sieve.go, cache/nemap.go and cache/cache.go do (line-protocol diff incl. internal state through the "
                           "verif-tagged VerifDump hook); container/list, Go map, sync.RWMutex, sync/atomic semantics; real concurrent histories (2-4 goroutines random, "
                           "4-8 goroutines contention bursts) judged by the Lean linearizability checker",
    "named assumptions": "keys and values are small non-negative ints in the tie (the Go code is generic); the lock-level LTS abstracts each critical section to one atomic step "
                         "(justified by the extracted lock skeleton)",
}


def extra_coverage(ctx, stats):
    return {"clause_map": CLAUSES}

SPEC = {
    "id": "C16",
    "title": "caches bounded, coherent, safe under concurrency",
    "level": "proof",
    "regen": do_regen,
    "lean_modules": ["Dawgs.Props.C16", "Dawgs.Props.C16Retain", "Dawgs.Props.C16Conc", "Dawgs.Props.C16Locks"],
    "theorems_by_module": THEOREMS,
    "gate_modules": ["Dawgs.Model.C16", "Dawgs.Spec.C16", "Dawgs.Proofs.C16", "Dawgs.Props.C16", "Dawgs.Proofs.C16Retain", "Dawgs.Proofs.C16Fits", "Dawgs.Props.C16Retain", "Dawgs.Model.RWLock",
                     "Dawgs.Proofs.RWLock", "Dawgs.Model.C16Conc", "Dawgs.Props.C16Conc", "Dawgs.Props.C16Locks"],
    "suites": [{"name": "c16", "model_suite": "c16", "monitor_suite": "c16mon", "keep_prefix": 2, "thorough_seeds": 1},
               {"name": "c16conc", "monitor_suite": "c16lin", "keep_prefix": 1, "race_in_thorough": True, "shrink_budget": 5}],
    "nontrivial": nontrivial,
    "extra_coverage": extra_coverage,
    "finding_key": finding_key,
    "rule": "sequential cases = exhaustive op sequences (len<=4 quick / <=5 thorough) over a 7-9 letter alphabet x capacities x {sieve,nemap}, plus random "
            "histories (5-65 ops, keys ~ capacity+1..3) from splitmix64(VERIF_SEED); a case is non-trivial when, after a put, it observes both "
            "a hit and a miss (eviction, refusal or delete took effect); distinct = distinct op-line sequences (sha1); concurrent cases (suite c16conc): 2-4 goroutines x 2-4 ops on 2-3 keys against the real cache, history with invoke/return stamps "
            "checked for linearizability by the Lean monitor (incl. final size statistic = observable entries), non-trivial when two operations overlap in real time; "
            "contention bursts (one put, then 4-8 goroutines issue the same operation on the same key behind a barrier); `comb` = Stats().Combined(peer.Stats()) readings "
            "interleaved with ordinary use (all length-4 sequences over a 5-letter alphabet containing comb, plus 1 in 11 random ops)",
    "expected_branches": ["branch.get_hit", "branch.get_miss", "branch.sieve.delete_at_hand", "branch.sieve.hand_nonnil", "branch.sieve.put_evict", "branch.stats_combined"],
    "trusted_base": ["container/list, Go map, sync.RWMutex, sync/atomic semantics (modelled)",
                     "verif-tagged read-only hook cache/verif_on.go (VerifDump) used to compare internal queue/hand state"],
    "assumptions": ["keys/values are small non-negative ints in the tie (the Go code is generic over K,V)",
                    "concurrent part: linearizability and deadlock-freedom are proved on the RW-lock LTS (Props/C16Conc) whose lock skeleton (Put/Delete under Lock, Get under RLock "
                    "with atomic effects only, helpers reached only from writers) is re-extracted from cache/*.go and checked by decide (Props/C16Locks); real concurrent histories "
                    "are judged by the Lean linearizability checker; the thorough tier runs them under the Go race detector"],
}

MANIFEST = {
    "category": "proof",
    "technique": "Lean 4 refinement proof (SIEVE/map cache model ⊑ ideal map, invariant by induction over histories) + differential correspondence with the Go code",
    "text": "Lean theorems over all operation histories, capacities and both cache implementations: entries ≤ capacity, one entry per key, size statistic exact, "
            "every lookup is a miss or the latest undeleted put (refinement to an ideal map), eviction sweep terminates; retention (sieve_step_retention / nemap_step_retention: from every reachable state each operation forgets exactly what the policy says - one victim per insertion into a full SIEVE, nothing in the map cache, the named key on Delete - and changes no other binding) exact hit / miss counters (sieve_counters_exact), and sieve_exact_when_working_set_fits (at most capacity distinct keys put => the whole trace equals the ideal map's, no spurious miss). The model is a line-by-line transcription "
            "of cache/sieve.go and cache/nemap.go and is compared with the real code (internal queue, visited bits and hand included, via a verif-tagged dump hook) "
            "on exhaustive short histories and random long ones every run.",
    "note": "Trusted: Lean kernel, the transcription checked by the differential tie, container/list + map + RWMutex + atomics semantics. Linearizability is proved on a lock-level LTS whose skeleton is extracted from the source; data races outside that skeleton are covered only by -race runs in the thorough tier.",
}
