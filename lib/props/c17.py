"""C17 — parallel traversal delivers every result exactly once and always terminates."""
import glob, os, re
import verif
from verif import VERIF, REPO, LEAN, GOENV, sh

P = "Dawgs.C17.Props."
TIE = "Dawgs.C17.Tie."
THEOREMS = {
    "Dawgs.Props.C17": [P + t for t in [
        "pipe_fifo", "pipe_complete", "pipe_writer_never_waits_on_reader",
        "bf_pipe_refines", "bf_counter_inv", "bf_no_early_exit", "bf_exactly_once", "bf_measure", "bf_terminates", "bf_reaches_return",
        "bf_live_ctx_error_recorded", "bf_error_cancels", "bf_return_joins_workers", "bf_return_no_goroutine_left",
        "limit_skip_window", "range_partition_exact", "seq_helper_eq_spec", "traversePaths_eq_spec", "terminals_eq_spec",
        "acyclicNodes_eq_spec", "acyclicNodes_reachable_spec", "terminals_reachable_spec", "terminals_not_only_sinks",
        "intermediaryPaths_eq_spec", "traversePaths_order_eq_spec", "paths_fit_finite", "c17_seq_paths",
        "c17_partial", "c17_full",
        # theorems about the protocol BEFORE the repair of finding F14 (cfg.fixed = false)
        "bf_terminates_partial_old", "bf_terminates_refuted_old", "c17_full_old_refuted"]],
    "Dawgs.Props.C17Par": [P + t for t in [
        "pnq_exactly_once", "pnq_complete", "pnq_measure", "pnq_progress_or_O2", "pnq_terminates_if_a_worker_survives", "pnq_O2_witness",
        "counter_passes_exactly", "filteredSkipLimit_eq_spec",
        "pattern_driver_eq_spec", "pattern_optional_step_duplicates", "pattern_mixed_direction_drops"]],
    "Dawgs.Tie.C17Order": [TIE + t for t in [
        "skeleton_breadthFirst", "skeleton_bufferedPipe", "skeleton_submit_receive",
        "order_inc_before_submit", "order_dec_after_loop", "order_completion_after_dec",
        "order_defers_and_capacity", "order_coordinator", "order_error_path", "order_pipe",
        "order_visited_sets_64bit", "order_no_id_narrowing", "order_visited_set_sites", "traversal_exports_classified",
        "visited_filter_testandset_atomic", "uses_c13_checkedAdd_atomic"]],
}
STATED_NOT_PROVED = []


# Clause map: the statement of C17 (properties.jsonl) split into its clauses; for each, the theorem(s) that prove it for
# ALL schedules / worker counts / driver trees / fault points / graphs, with the hypotheses they carry — or "tie only".
CLAUSES = {
    "parallel BreadthFirst (any number of workers) visits exactly the segments the driver yields sequentially — none lost, none duplicated":
        "bf_exactly_once: along every schedule the segments handed to the driver are a sub-multiset of the driver tree's nodes (nothing twice, nothing foreign), "
        "and equal to them when BreadthFirst returns through descentCount = 0; bf_no_early_exit (the coordinator reads 0 only when pipe empty, no worker holds "
        "work, nothing dropped); bf_counter_inv; bf_pipe_refines. Quantified over every cfg.n, every finite tree, both protocol variants, faults at any call. "
        "HYPOTHESIS: the driver is a function of the segment (a finite tree). For the library's stateful filters (UniquePathSegmentFilter, FilteredSkipLimit, "
        "collectors) the per-call atomicity is C13's checkedAdd_atomic over the extracted lock skeleton (Tie.visited_filter_testandset_atomic) and "
        "counter_passes_exactly; their composition with BreadthFirst is TIE ONLY (suite c17flt: exactly-once against the sequential enumeration on hub DAGs)",
    "… then returns (success)":
        "bf_terminates + bf_measure + bf_reaches_return: every reachable non-returned state has an enabled non-environment step, every step of every component "
        "decreases a Nat bound, and from every reachable state a continuation without environment actions ends returned. HYPOTHESES: cfg.n >= 1; the live "
        "(repaired) error branch cfg.fixed = true, which is what Tie.order_error_path / skeleton_breadthFirst accept of the source; the Go scheduler eventually "
        "runs an enabled goroutine (named assumption)",
    "returns promptly with the first error if the driver, a visitor or the memory limit fails":
        "the error actions (driverErr, driverErrSilent = context-class error, memErr) are enabled at EVERY driver call of every schedule, so bf_terminates / "
        "bf_reaches_return cover them; bf_error_cancels (a recorded error implies the traversal context is cancelled, the flag is never cleared, return implies "
        "cancelled), bf_live_ctx_error_recorded (a context-class error always cancels and is recorded iff the context was live). 'promptly' is proved as a bound on "
        "the number of atomic steps (bf_measure), wall-clock time is searched only (hang detector). WHICH error is returned ('first') is tie only: the model has an "
        "error flag, the harness compares the error class. A visitor error is a driver error in the model (PatternMatchDelegate / terminal visitors run inside the driver call)",
    "… or when the context is cancelled":
        "the environment action `cancel` is enabled in every state; bf_terminates / bf_reaches_return / bf_measure as above; that nil is returned after a pure "
        "cancellation is tie only",
    "leaves no goroutine behind":
        "bf_return_joins_workers (return only after every worker returned) + bf_return_no_goroutine_left (at return the pipe goroutine has returned or its ctx.Done() "
        "step is enabled and final), for all schedules and faults; that the context the pipe listens on is the traversal context is the extracted fact "
        "Tie.order_defers_and_capacity. That the runtime actually runs that last step: searched only (stack dump filtered on traversal/channels frames back to its "
        "baseline within 10 s with the caller's context kept alive, class goroutine-leak)",
    "the buffered pipe delivers every submitted value exactly once in submission order":
        "pipe_fifo (delivered is always a prefix of submitted, same order, positional: no duplicates, no reordering; submitted = delivered ++ buffer) and pipe_complete "
        "(goroutine returned and never cancelled => delivered = submitted; after close the flush steps are enabled and every non-cancel step decreases a measure), "
        "over all schedules of writer, reader, context and the pipe goroutine. A cancelled pipe may drop its buffered tail (the prefix property still holds): that is the code's contract",
    "… and never blocks a writer on a slow reader":
        "pipe_writer_never_waits_on_reader: in every reachable main-loop state recv is enabled for every value and any k submissions go through with zero reader steps. "
        "HYPOTHESIS: the writer has not closed and the goroutine has not observed a cancellation (phase = loop); memory is unbounded in the model",
    "sequential helpers: skip/limit":
        "limit_skip_window (LimitSkipTracker = drop skip, take limit; all Int skip/limit) and seq_helper_eq_spec (below); filteredSkipLimit_eq_spec + "
        "counter_passes_exactly for traversal.FilteredSkipLimit (visited set; its descend answers are tie/monitor only)",
    "sequential helpers: paths (TraversePaths, TraverseIntermediaryPaths)":
        "seq_helper_eq_spec / traversePaths_eq_spec / intermediaryPaths_eq_spec: for every ordered adjacency, node/descent/path filter, skip, limit and fuel the stack loop "
        "collects exactly the skip/limit window of the FILTERED DFS candidate sequence (filters first; a rejected node consumes no budget). For TraversePaths the "
        "candidate sequence is proved equal to an independent recursive definition (maximal acyclic filtered paths, last fetched branch first): "
        "traversePaths_order_eq_spec, paths_fit_finite, c17_seq_paths. HYPOTHESIS of c17_seq_paths: finite graph (node ids below some N) and enough loop fuel. "
        "For TraverseIntermediaryPaths the candidate sequence is only defined by the tracker-free DFS itself (no independent characterisation); it does not "
        "terminate on cyclic graphs without a bounding DescentFilter (the caller's duty; the generator supplies one)",
    "sequential helpers: terminals and acyclic node sets (AcyclicTraverseTerminals, AcyclicTraverseNodes)":
        "terminals_eq_spec, acyclicNodes_eq_spec (incl. the root tested outside skip/limit; every candidate passed the node filter before it was counted): result = "
        "skip/limit window of the filtered DFS candidate sequence, all graphs/filters/skip/limit. For AcyclicTraverseNodes the candidate set has an independent "
        "characterisation: acyclicNodes_reachable_spec — a node is a candidate iff the node filter accepts it and it is a successor of a node reachable from the root "
        "(so without skip/limit the result is exactly the accepted reachable node set). HYPOTHESES: no user DescentFilter; the tracker-free DFS has emptied its stack "
        "within the fuel (true on finite graphs; the tie reports model-out-of-fuel otherwise). For AcyclicTraverseTerminals the result also has an independent, "
        "ORDER-FREE characterisation: terminals_reachable_spec — with indeg(v) = number of edges into v out of nodes reachable from the root (with multiplicity), v is "
        "reported iff (v is the root and indeg >= 1) or (v is not the root and (indeg >= 2, i.e. it is reached again after it was expanded, or indeg >= 1 and v has no "
        "successor)). HYPOTHESES: no user DescentFilter, no PathFilter, DFS finished within the fuel. So 'terminal = reachable node without successor' holds exactly on "
        "graphs where every node is reached over at most one edge; it is false already on DAGs: terminals_not_only_sinks (diamond: the join node is reported although it "
        "has a successor) — that is the code's semantics, independent of the DFS order",
    "ids of any width":
        "all models use Nat ids; that the code's visited/seen sets are 64-bit and no id is narrowed: extracted facts Tie.order_visited_sets_64bit, "
        "Tie.order_no_id_narrowing, Tie.order_visited_set_sites (decide); behaviour on ids congruent mod 2^32 / 2^16 and >= 2^63: tie (id alphabets in c17seq, c17pat, c17flt, c17bf)",
    "anchors outside the statement (ops.parallelNodeQuery, pattern.Driver)":
        "pnq_exactly_once, pnq_complete, pnq_measure, pnq_progress_or_O2, pnq_terminates_if_a_worker_survives (HYPOTHESIS: fewer failed queries than workers; "
        "otherwise observation O2, pnq_O2_witness); range_partition_exact; pattern_driver_eq_spec (work-list expansion = tag-free recursive semantics), with the "
        "observations O3 / O4 as witnesses (pattern_optional_step_duplicates, pattern_mixed_direction_drops). Information, not part of the claim",
    "searched only (tie)":
        "that the Lean models are what the Go code does: line diff model = implementation and spec monitors on every generated case of the nine suites; the order-fact "
        "extractor (syntactic skeleton of BreadthFirst / BufferedPipe / Submit / Receive, glue tables) closes the assumptions about statement order by decide. "
        "Also searched only: composition of the stateful library filters/collectors with BreadthFirst (c17flt); which error value is returned; nil on cancellation; "
        "wall-clock promptness; real goroutine exit; the PathSegment.size roll-up race (observation under -race); FilteredSkipLimit's descend answers; "
        "an independent spec for intermediary paths (acyclic node sets and terminals have one: acyclicNodes_reachable_spec, terminals_reachable_spec); LightweightDriver and ops.Operation[T] (not modelled, exempt by name)",
    "named assumptions":
        "numWorkers >= 1; the driver is a finite tree (pure function of the segment), one injected fault per run in the tie; Go channel/select/context/atomic/WaitGroup "
        "semantics as atomic rendezvous and atomic counters; the scheduler eventually runs an enabled goroutine; gammazero/deque is a list; unbounded memory for the "
        "pipe buffer; graph.ID arithmetic of parallelNodeQuery does not overflow uint64; the visited set's test-and-set is atomic (C13 checkedAdd_atomic over the "
        "extracted lock skeleton); the fetch order of the database is the edge-id order (the DB fake)",
}


def regen(ctx):
    """T-tie: regenerate lean/Dawgs/Generated/C17_order.lean from the current source with the go/ast extractor."""
    out = os.path.join(LEAN, "Dawgs", "Generated", "C17_order.lean")
    try:
        os.remove(out)
    except FileNotFoundError:
        pass
    rc, log = sh(["go", "run", ".", "-repo", REPO, "-out", out], cwd=os.path.join(VERIF, "tools", "extract", "c17order"),
                 env=GOENV, timeout=600)
    if rc != 0 or not os.path.exists(out):
        raise RuntimeError("c17order extractor failed: " + log[-800:])
    # the lock skeleton of cardinality/lock.go (property C13's table): the atomic test-and-set the filter models assume
    import importlib
    importlib.import_module("props.c13").regen(ctx)


def nontrivial(ops, impl):
    body = [o for o in ops if not o.startswith("#")]
    if any(o.startswith("flt ") for o in body):
        return sum(o.startswith("edge") for o in body) >= 3 and any(int(o.split()[3]) >= 2 for o in body if o.startswith("flt "))
    if any(o.startswith("fsl ") for o in body):
        q = next(o for o in body if o.startswith("fsl ")).split()
        return (int(q[1]) > 0 or int(q[2]) > 0) and len(q[4]) >= 3
    if any(o.startswith("pnq ") for o in body):
        q = next(o for o in body if o.startswith("pnq ")).split()
        return int(q[1]) >= 20000 and (int(q[2]) >= 2 or q[3] != "-")
    if any(o.startswith("pattern ") for o in body):
        return sum(o.startswith("edge") for o in body) >= 2 and any(";" in o or ":0:" in o for o in body if o.startswith("pattern "))
    if any(o.startswith("run ") for o in body):
        # a traversal over >= 3 segments with >= 2 workers, or any run with an injected fault
        tree = next((o for o in body if o.startswith("tree ")), "tree ()")
        run = next(o for o in body if o.startswith("run ")).split()
        return (tree.count("(") >= 3 and int(run[1]) >= 2) or run[2] != "none"
    if any(o.startswith(("burst", "cburst")) for o in body):
        return True
    if any(o.startswith("sub") for o in body):
        # pipe script: something was buffered while something else was read, or closed/cancelled with a non-empty buffer
        subs = sum(o.startswith("sub") for o in body)
        reads = sum(o.startswith(("read", "tryread")) for o in body)
        return subs >= 2 and (reads >= 1 or "cancel" in body)
    # sequential helpers: >= 2 edges and a query that has a skip/limit window or a filter that rejects something
    qs = [o.split() for o in body if o.split()[0] in ("paths", "terminals", "nodes", "intermediary")]
    return sum(o.startswith("edge") for o in body) >= 2 and any(
        len(q) == 8 and (int(q[3]) > 0 or int(q[4]) > 0 or any(len(f) > 1 for f in q[5:8])) for q in qs)


def finding_key(suite, ops, line, msg):
    cls = msg.split()[1] if len(msg.split()) > 1 else "reject"
    if suite["name"] in ("c17bf", "c17tbf"):
        run = next((o.split() for o in ops if o.startswith("run ")), None)
        fault = run[2] if run else "?"
        return "C17:BreadthFirst:%s-%s" % (fault, cls)
    op = ops[line].split()[0] if line < len(ops) and ops[line].split() else "?"
    if suite["name"] == "c17flt":
        mode = ops[line].split()[1] if line < len(ops) and len(ops[line].split()) > 1 else "?"
        site = {"unique": "UniquePathSegmentFilter", "collect": "NodeCollector+PathCollector", "acyclic": "AcyclicNodeFilter",
                "fslskip": "UniquePathSegmentFilter+FilteredSkipLimit"}.get(mode, mode)
        return "C17:BreadthFirst+traversal.%s:%s" % (site, cls)
    if suite["name"] in ("c17fsl", "c17pnq", "c17pat"):
        return "C17:%s:%s" % ({"c17fsl": "traversal.FilteredSkipLimit", "c17pnq": "ops.ParallelNodeQuery", "c17pat": "traversal.pattern.Driver"}[suite["name"]], cls)
    if suite["name"] == "c17seq":
        names = {"paths": "TraversePaths", "terminals": "AcyclicTraverseTerminals", "nodes": "AcyclicTraverseNodes",
                 "intermediary": "TraverseIntermediaryPaths", "window": "LimitSkipTracker", "pfloors": "parallelNodeQuery"}
        return "C17:ops.%s:%s" % (names.get(op, op), cls)
    return "C17:BufferedPipe:%s-%s" % (op, cls)


RACE_BLOCK = re.compile(r"WARNING: DATA RACE.*?={18}", re.S)
SIZE_FRAMES = ("graph.(*PathSegment).Descend", "graph.(*PathSegment).Detach", "graph.(*PathSegment).computeAndSetSize",
               "graph.Tree.SizeOf", "graph.(*PathSegment).SizeOf")


def race_pass(ctx, stats):
    """thorough tier: the BreadthFirst trace suite again under the race detector. Races on the unsynchronised
    PathSegment.size roll-up are an observation (outside the statement); any other race inside dawgs is a violation."""
    cov = {}
    ok, out = verif.build_harness(ctx, race=True)
    if not ok:
        cov["race_pass"] = "race harness did not build"
        return cov
    ops_all = verif.read_lines(ctx.path("c17tbf.ops"))
    cases = verif.split_cases(ops_all)
    keep = [l for c in cases[:1200] for l in c["ops"]]
    rp = ctx.path("c17tbf_race.ops")
    open(rp, "w").write("\n".join(keep) + "\n")
    logbase = ctx.path("race")
    for f in glob.glob(logbase + ".*"):
        os.remove(f)
    rc, log = verif.harness(ctx, "c17tbf", "run", ["-ops", rp, "-out", ctx.path("c17tbf_race.impl")], timeout=3000, race=True,
                            env={"GORACE": "halt_on_error=0 exitcode=0 log_path=%s" % logbase})
    impl = verif.read_lines(ctx.path("c17tbf_race.impl")) if rc == 0 else []
    import flow
    suite = {"name": "c17tbf", "monitor_suite": "c17bfmon"}
    mon = flow.run_monitor(ctx, suite, keep, impl, "race") if impl else []
    rejects = [m for m in mon if m.startswith("reject") and " hang " not in m]
    reports = ""
    for f in glob.glob(logbase + ".*"):
        reports += open(f, errors="replace").read()
    blocks = RACE_BLOCK.findall(reports)
    size_races, other = 0, []
    for b in blocks:
        if any(fr in b for fr in SIZE_FRAMES):
            size_races += 1
        else:
            other.append(b)
    cov["race_pass"] = {"cases": len([c for c in cases[:1200]]), "harness_rc": rc, "race_reports": len(blocks),
                        "size_rollup_race_reports (observation, outside the statement)": size_races,
                        "other_race_reports": len(other), "monitor_rejections": len(rejects)}
    if rc != 0:
        verif.report_finding(ctx, "C17:race-pass:harness", "race-enabled harness run failed rc=%d" % rc,
                             {"kind": "correspondence", "log": log[-3000:]}, nofail=True)
    for b in other[:1]:
        frames = re.findall(r"^\s+(github\.com/specterops/dawgs/\S+)\(", b, re.M)
        key = "C17:race:%s" % (frames[0].split("/")[-1] if frames else "harness")
        verif.report_finding(ctx, key, "data race reported by the Go race detector outside the PathSegment.size roll-up",
                             {"kind": "input", "suite": "c17tbf", "report": b[:4000], "how_to_replay": "thorough tier (-race)"})
    for m in rejects[:1]:
        verif.report_finding(ctx, "C17:BreadthFirst:race-pass-" + m.split()[1], "monitor rejects a run of the race-enabled harness: " + m,
                             {"kind": "input", "suite": "c17tbf", "monitor": m})
    return cov


def extra_coverage(ctx, stats):
    cov = {
        "stated_not_proved": STATED_NOT_PROVED,
        "clause_map": CLAUSES,
        "partial_runtime_aspects": [
            "goroutine cleanup: in the LTS every worker has returned and the pipe goroutine has returned or is enabled to (bf_return_no_goroutine_left); that the Go "
            "runtime really runs that last step is observed with the CALLER'S CONTEXT KEPT ALIVE after return (success or error): a stack dump filtered on dawgs traversal / "
            "util/channels frames must be back to its pre-run count within 10 s (polled) after every BreadthFirst run and after every closed/cancelled pipe, otherwise the "
            "monitors reject with class goroutine-leak and name the parked frame; the context the pipe listens on is also an extracted order fact (order_defers_and_capacity)",
            "wall-clock promptness: only a hang detector (>= 20 s, or 4 s of complete driver inactivity with nothing in flight)",
            "unsynchronised PathSegment.size roll-up: outside the LTS and outside the statement; counted by the -race pass of the thorough tier as an observation",
        ],
        "hooks_present": os.path.exists(os.path.join(REPO, "util", "channels", "verif_on.go")),
        "hang_detections": stats.get("branch.bf.hang_detected", 0),
        "observations_outside_the_statement": {
            "O2 ops.parallelNodeQuery: when every worker has failed while id ranges remain, the range producer blocks on Submit until the caller's context ends "
            "(Lean witness pnq_O2_witness; corpus/C17/c17pnq_o2.ops; hangs seen this run)": stats.get("branch.pnq.hang_detected", 0),
            "O3 pattern.Driver: an optional step (min = 0) after the first expansion delivers each of its matches twice (pattern_optional_step_duplicates; corpus/C17/c17pat_observations.ops)": "reproduced on the real code",
            "O4 pattern.Driver: the fetch for the next expansion reuses the current expansion's fetch direction, a direction change loses the first hop (pattern_mixed_direction_drops)": "reproduced on the real code",
        },
        "unmodelled": ["ops.Operation[T] reader/writer job pool (jobs are arbitrary caller functions), ParallelNodeQueryBuilder.Stream merge channel",
                       "LightweightDriver itself (graph cache + shallow fetch scanner): exempt by name in Dawgs.C17.Tie.traversal_exports_classified; its filter/visitor call pattern is what c17flt drives",
                       "user filters that read or advance the TraversalContext's LimitSkipTracker themselves (modelled as pure functions of the segment/node); plan.BranchQuery, DepthExceptionHandler"],
    }
    if ctx.tier == "thorough":
        cov.update(race_pass(ctx, stats))
    return cov


def prove_per_module(ctx, spec):
    """Same contract as flow.prove, but every Lean module is built on its own so that a broken order fact
    (Dawgs.Tie.C17Order) is attributed to the tie theorems and not to every theorem of the property."""
    failed, axioms = [], {}
    try:
        spec["regen"](ctx)
    except Exception as e:  # extractor failure = broken tie
        failed.append("extractor: %r" % (e,))
    logs = []
    for mod, names in spec["theorems_by_module"].items():
        ok, out = verif.lake_build(ctx, [mod])
        if not ok:
            logs.append(out[-3000:])
            failed += ["theorem %s: module %s does not build" % (t, mod) for t in names]
            continue
        for t, (tok, axs) in verif.audit(ctx, mod, names).items():
            axioms[t] = axs
            if not tok:
                failed.append("theorem %s: %s" % (t, ",".join(axs)))
    exes = sorted({verif.model_exe(su[k]) for su in spec["suites"] for k in ("model_suite", "monitor_suite") if su.get(k)})
    ok, out = verif.lake_build(ctx, exes)
    if not ok:
        failed.append("model driver does not build")
        logs.append(out[-2000:])
    if logs:
        ctx.build_log = "\n".join(logs)[-6000:]
    hits = verif.grep_gate(ctx, verif.lean_files_for(spec.get("gate_modules", [])))
    failed += ["forbidden construct: " + h for h in hits]
    n = len(spec["theorems"])
    bad = len({f.split(":")[0] for f in failed if f.startswith("theorem ")})
    return n, (n - bad if not hits else 0), failed, axioms


def run(spec, tier, seed, replay=None):
    import flow
    orig = flow.prove
    flow.prove = prove_per_module
    try:
        return flow.run_property(spec, tier, seed, replay)
    finally:
        flow.prove = orig


# schedule noise of the verif-tagged hook (no-op when /repo does not carry hooks/C17.patch)
verif.GOENV.setdefault("VERIF_YIELD", "3")

SPEC = {
    "id": "C17",
    "title": "parallel traversal delivers every result exactly once and always terminates",
    "level": "proof",
    "lean_modules": ["Dawgs.Props.C17", "Dawgs.Props.C17Par", "Dawgs.Tie.C17Order"],
    "theorems_by_module": THEOREMS,
    "gate_modules": ["Dawgs.Model.C17", "Dawgs.Model.C17Seq", "Dawgs.Spec.C17", "Dawgs.Proofs.C17Pipe", "Dawgs.Proofs.C17BF",
                     "Dawgs.Proofs.C17Seq", "Dawgs.Props.C17", "Dawgs.Tie.C17Order", "Dawgs.Generated.C17_order",
                     "Dawgs.Model.C17Par", "Dawgs.Proofs.C17Par", "Dawgs.Props.C17Par"],   # (C13's own files are gated by ./check C13)
    "regen": regen,
    "suites": [
        {"name": "c17pipe", "model_suite": "c17pipe", "monitor_suite": "c17pipemon", "keep_prefix": 2, "shrink_budget": 60},
        {"name": "c17cpipe", "monitor_suite": "c17pipemon", "keep_prefix": 2, "shrink_budget": 40},
        {"name": "c17bf", "model_suite": "c17bf", "keep_prefix": 2, "shrink_budget": 8},
        {"name": "c17tbf", "monitor_suite": "c17bfmon", "keep_prefix": 2, "shrink_budget": 8},
        {"name": "c17seq", "model_suite": "c17seq", "monitor_suite": "c17seqmon", "keep_prefix": 2, "shrink_budget": 120},
        {"name": "c17fsl", "model_suite": "c17fsl", "monitor_suite": "c17fslmon", "keep_prefix": 1, "shrink_budget": 20},
        {"name": "c17pnq", "model_suite": "c17pnq", "monitor_suite": "c17pnqmon", "keep_prefix": 1, "shrink_budget": 8},
        {"name": "c17pat", "model_suite": "c17pat", "monitor_suite": "c17patmon", "keep_prefix": 2, "shrink_budget": 80},
        {"name": "c17flt", "model_suite": "c17flt", "monitor_suite": "c17fltmon", "keep_prefix": 2, "shrink_budget": 60},
    ],
    "nontrivial": nontrivial,
    "finding_key": finding_key,
    "extra_coverage": extra_coverage,
    "rule": "c17pipe: every script over {sub,read,close,cancel} up to length 5 (quick) / 7 (thorough) + random scripts (3-60 ops, repeated values) + slow-reader "
            "bursts, each ended by close+drain; c17cpipe: concurrent writer/reader bursts and cancel-at-step-i; c17bf/c17tbf: all trees <= 4 nodes x workers 1..3 x "
            "every fault point of {driver error, context cancel, memory limit, context-class driver error while live, context-class driver error after cancel}, + random trees (1-200 nodes, thorough up to 4000; chain/star/bushy/random shapes) x "
            "workers 1..8 x fault at a random driver call, literal and Descend-built segments; c17seq: stars, diamonds, cycles with chords, self loops/parallel edges, random DAGs and digraphs (<= 8 nodes) x the 4 helpers x 2 directions x "
            "skip in {0,1,2} x limit in {0,1,2,50,-1} x node filter {nil, accept-all, reject early / late / all / random nodes} x descent filter {nil, reject set, depth bound} x "
            "path filter; model-compared and judged against the plan-defined result (filters first, then the window). c17fsl: FilteredSkipLimit over random answer "
            "sequences x skip x limit, sequential (exact) and concurrent (count); c17pnq: real ParallelNodeQuery over 1-12 id ranges x 1-5 workers x failing ranges (fewer than "
            "workers, plus the O2 corpus case); c17pat: real BreadthFirst with pattern.Driver over the structured graphs x 1-3 expansions x min/max depth x direction, matches "
            "compared as a multiset with the transcription and judged against the tag-free recursive semantics. c17flt: the library's own filters and collectors "
            "(UniquePathSegmentFilter, AcyclicNodeFilter, FilteredSkipLimit, NodeCollector, PathCollector) under the real parallel BreadthFirst on DAGs with a hub reached over 8-32 "
            "distinct inbound edges and 300-2000 leaves, 1-8 workers, oracle = each result exactly once = the sequential enumeration. Node and edge ids of c17seq/c17pat/c17flt come "
            "from six alphabets: small, pairs congruent mod 2^32, all congruent mod 2^32, congruent mod 2^16, >= 2^63, and a mix up to 2^64-1. "
            "A case is non-trivial when: pipe script with >= 2 submissions and a read or a cancel; any concurrent burst; a traversal of >= 3 segments with >= 2 workers "
            "or any injected fault; a helper query on a graph with >= 2 edges that has a skip/limit window or a rejecting filter; an fsl case with skip or limit and >= 3 calls; a pnq case "
            "with >= 2 ranges and (>= 2 workers or a failing range); a pattern with >= 2 expansions or an optional step on >= 2 edges; a filter case with >= 3 edges and >= 2 workers. distinct = distinct op-line sequences (sha1)",
    "expected_branches": ["branch.pipe.submit_while_buffered", "branch.pipe.close_with_buffered", "branch.pipe.cancel_with_buffered",
                          "branch.pipe.flush_exit", "branch.pipe.read_empty", "branch.pipe.submit_refused", "branch.pipe.burst",
                          "branch.bf.fault_hit_err", "branch.bf.fault_hit_cancel", "branch.bf.fault_hit_mem", "branch.bf.workers_8",
                          "branch.bf.fault_hit_swallow", "branch.bf.fault_hit_cswallow", "branch.bf.ctx_class_error_reported",
                          "branch.bf.memlimit", "branch.seq.node_filter_rejecting_with_window", "branch.seq.descent_filter", "branch.seq.path_filter",
                          "branch.fsl.concurrent", "branch.fsl.skip_and_limit", "branch.pnq.errors_returned", "branch.pat.optional_step", "branch.pat.nonempty", "branch.flt.unique", "branch.flt.collect", "branch.flt.acyclic", "branch.flt.fslskip", "branch.flt.parallel"],
    "trusted_base": ["Go channel / select / context / sync/atomic / WaitGroup semantics (modelled as atomic rendezvous and atomic counter ops)",
                     "gammazero/deque (modelled as a list)",
                     "the go/ast order-fact extractor tools/extract/c17order (syntactic; cross-checked by the behavioural tie)",
                     "BufferedPipe inside BreadthFirst is the Pipe LTS itself (same `Pipe.step` function)",
                     "the visited set's test-and-set is one atomic action: property C13's checkedAdd_atomic over the lock skeleton of cardinality/lock.go "
                     "(Dawgs.C17.Tie.visited_filter_testandset_atomic re-checks the extracted skeleton on every C17 run)"],
    "assumptions": ["numWorkers >= 1 (numWorkers = 0 hangs: outside the quantifier 1..N)",
                    "the driver is a function of the segment (a finite tree); for the library's stateful filters (UniquePathSegmentFilter, FilteredSkipLimit, collectors) only the per-call atomicity is proved (C13 checkedAdd_atomic, counter_passes_exactly); their composition with BreadthFirst is covered by the tie (c17flt)",
                    "graph.ID arithmetic in parallelNodeQuery does not overflow uint64 (modelled on Nat)",
                    "fault injection: one fault per run (the k-th driver call), the driver otherwise a pure function of the segment",
                    "liveness is stated as: every non-returned reachable state has an enabled step and every step decreases a Nat bound; that the Go scheduler eventually runs an enabled goroutine is trusted"],
    "explanation": "Lean LTS proofs over all schedules/worker counts/trees/fault points + differential and monitor ties against the real pipe and BreadthFirst",
}

MANIFEST = {
    "category": "proof",
    "technique": "Lean 4 labelled-transition-system proofs (invariants by induction over all paths; Nat termination measure; deadlock freedom) for "
                 "BufferedPipe and the BreadthFirst coordinator/worker protocol, tied to the source by a go/ast order-fact extractor (decide) and by "
                 "differential + monitor runs of the real code under scripted, concurrent and fault-injected schedules",
    "text": "Lean theorems over ALL interleavings, all worker counts N>=1, all finite driver trees (the driver a pure function of the segment) and a fault (driver/visitor "
            "error, context-class error, memory limit, context cancel) at any driver call: the pipe delivers a prefix of what was submitted in order, everything once closed and "
            "not cancelled, and never blocks the writer while it is in its main loop; descentCount = queued + in-expansion + counted-not-yet-submitted segments; the coordinator "
            "reads 0 only when everything was expanded; segments are expanded at most once and exactly the tree on exit through zero; an error of any class cancels and is recorded "
            "(a context-class error iff the traversal context was live); BreadthFirst returns only after every worker returned, with the pipe goroutine returned or enabled to; "
            "every step decreases a Nat bound, some step is always enabled until return and every reachable state has a continuation to return (live protocol = the repaired "
            "worker error branch, commit b692f10, which is the only source shape the order-fact tie accepts; the pre-repair hang is kept as a refutation theorem about the old "
            "definition). Sequential helpers: for every graph, node/descent/path filter, skip and limit the stack loop returns the skip/limit window of the filtered DFS candidate "
            "sequence; for TraversePaths that sequence equals the recursive definition of the maximal acyclic filtered paths on every finite graph, and for AcyclicTraverseNodes "
            "(no user DescentFilter, DFS finished) the candidates are exactly the accepted nodes reachable over >= 1 edge, and AcyclicTraverseTerminals (no user filters, DFS finished) reports exactly the re-reached nodes and the reached sinks (c17_full is unconditional on the models). Also proved (anchors outside the statement): LimitSkipTracker window, range partition and LTS of parallelNodeQuery (termination when a worker survives), "
            "FilteredSkipLimit visited set, pattern.Driver expansion = recursive semantics. See coverage.clause_map for clause -> theorem -> hypotheses.",
    "note": "Searched only (tie): that the models are the Go code (nine differential suites + spec monitors + syntactic order/glue facts by decide); composition of the library's "
            "stateful filters and collectors with BreadthFirst (c17flt; per-call atomicity is C13's checkedAdd_atomic); which error value is returned and nil on cancellation; "
            "wall-clock promptness and the runtime really exiting goroutines (hang detector, goroutine-leak oracle with the caller's context kept alive); an independent spec "
            "for intermediary paths (spec = the tracker-free DFS candidate sequence; acyclic node sets = accepted reachable nodes and the order-free counting "
            "characterisation of terminals are proved); "
            "FilteredSkipLimit descend answers; the "
            "PathSegment.size roll-up race (observation under -race). Observations outside the statement: O2 (parallelNodeQuery blocks when every worker failed), O3/O4 "
            "(pattern.Driver optional-step duplicates, direction change). No open finding: C17:BreadthFirst:swallow-hang is fixed (b692f10). Trusted: Lean kernel, Go "
            "channel/select/atomic semantics, scheduler fairness, the extractor, the harness.",
}
