import os, re

import verif

THEOREMS = {
    "Dawgs.Props.C18": [
        "Dawgs.C18.Props.scan_exactly_once",
        "Dawgs.C18.Props.shard_partition",
        "Dawgs.C18.Props.manifest_describes_files",
        "Dawgs.C18.Props.load_iso",
        "Dawgs.C18.Props.verify_iff_match",
        "Dawgs.C18.Props.verify_iff_metrics_equal",
        "Dawgs.C18.Props.dump_all_graphs",
        "Dawgs.C18.Props.load_all_graphs",
        "Dawgs.C18.Props.manifest_metrics_exact",
        "Dawgs.C18.Props.decode_encode_value",
        "Dawgs.C18.Props.value_round_trip",
        "Dawgs.C18.Props.normalize_json_equal",
        "Dawgs.C18.Props.integral_float_becomes_int",
        "Dawgs.C18.Props.load_iso_values",
        "Dawgs.C18.Props.int_round_trip_current",
        "Dawgs.C18.Props.int_round_trip_current_lossy",
        "Dawgs.C18.Props.int_round_trip_fixed",
        "Dawgs.C18.Props.verify_accepts_loaded",
        "Dawgs.C18.Props.verify_gap",
        "Dawgs.C18.Props.c18_partial",
        "Dawgs.C18.Props.c18_full_refuted",
    ],
    # T-tie: integer widths of the per-graph tables (tools/extract/c18)
    "Dawgs.Props.C18Widths": [
        "Dawgs.C18.Props.no_narrow_index_types",
        "Dawgs.C18.Props.metrics_tables_wide",
        "Dawgs.C18.Props.ordinal_capacity_guarded",
    ],
}

GENERATED = os.path.join(verif.LEAN, "Dawgs", "Generated", "C18_widths.lean")


def regen(ctx):
    """T-tie: delete and regenerate the integer-width fact table from the current source of retriever/*.go."""
    try:
        os.remove(GENERATED)
    except FileNotFoundError:
        pass
    rc, out = verif.sh(["go", "run", ".", verif.REPO, GENERATED], cwd=os.path.join(verif.VERIF, "tools", "extract", "c18"),
                       env=verif.GOENV, timeout=600)
    if rc != 0 or not os.path.exists(GENERATED):
        raise RuntimeError("c18 extractor failed: " + out[-800:])


BIG = 2 ** 53
_INT = re.compile(r"(?<![\w.\"])-?\d{16,}(?![\w.])")


def has_big_int(ops):
    for o in ops:
        if o.startswith(("node ", "edge ")):
            for m in _INT.findall(o.split(" ", 4)[-1]):
                try:
                    if abs(int(m)) > BIG:
                        return True
                except ValueError:
                    pass
    return False


def nontrivial(ops, impl):
    """a rollover happened (some phase has >= 2 fragments), the load created at least one relationship and
    both verifications were answered"""
    frags = 0
    loaded_edges = False
    verifies = 0
    for o, r in zip(ops, impl):
        if o.startswith("dump ") and r.startswith("ok"):
            frags = max(r.count("#") // 2, r.count(" F "))
        elif o.startswith("load ") and r.startswith("ok"):
            m = re.search(r" e=(\d+)", r)
            loaded_edges = bool(m and int(m.group(1)) > 0)
        elif o.startswith("verify ") and (r.startswith("ok") or r == "mismatch"):
            verifies += 1
    return frags >= 3 and loaded_edges and verifies >= 2


def finding_key(suite, ops, line, msg):
    words = msg.split()
    cls = words[1] if len(words) > 1 else "reject"
    op = ops[line].split()[0] if line < len(ops) else "?"
    if cls == "not-isomorphic" and has_big_int(ops):
        return "C18:Load.decodeFragment:int-beyond-2^53"
    return "C18:%s:%s" % (op, cls)


# clause of the statement in properties.jsonl -> what carries it. Hypotheses common to the protocol theorems ("H"): every graph is
# well formed (WF: distinct node ids, distinct relationship ids, endpoints inside the graph), graph names are distinct, dump batch size >= 1,
# the codec satisfies dec(enc x) = x, the destination's node id allocator is injective and the target is empty.
CLAUSES = {
    "dumping any graph database and loading the dump into an empty database succeeds, for every graph in the dump":
        "load_all_graphs (= c18_partial), one theorem composing the dump loop and the load loop over ALL databases of several graphs under H, all "
        "shard / load-batch sizes (also 0): every target graph exactly once in manifest order (dump_all_graphs), verify-all pass, one id map per graph "
        "whose keys are exactly that graph's node ids (GraphOk.mapKeys: nothing leaks between graphs)",
    "same number of nodes and relationships": "load_all_graphs / load_iso (GraphOk.iso is a permutation of node and relationship lists; load_iso "
        "states the lengths), manifest_metrics_exact (manifest counts = source counts), under H",
    "same kinds, same property maps (JSON-equal values), same endpoints, relationship kinds and properties under the node correspondence":
        "load_iso / GraphOk.iso under H: kinds as the sorted kind list, endpoints re-pointed through the injective id map, parallel relationships "
        "as a multiset, properties EQUAL for an abstract property type. Property VALUES of every JSON kind (Model/C18Json.lean: GVal = nil, bool, "
        "string as code points, int64, finite float64, []any, map[string]any, any nesting; JVal = the JSON value with number literals kept as "
        "json.Number; encodeVal = json.Marshal, decodeVal = UseNumber + jsonNumberValue of 6eb981c): load_iso_values lifts load_iso to Go values - "
        "the loaded graph is isomorphic to the source with every value normalised, and to the source itself on the image Canon; "
        "decode_encode_value (every value whose int64 are int64: decode(encode v) = normalizeVal v), value_round_trip (on Canon: = v, Go types "
        "included), normalize_json_equal (the normalised value is written as the SAME JSON value and a second round trip is the identity), "
        "integral_float_becomes_int (the one type change: a float64 that encoding/json writes as an integer literal inside int64, e.g. 3.0, comes "
        "back as int64 3 - JSON-equal, so within the statement; float64(2^63), 1e20, -0.0, 0.1, 1e21 stay float64). int_round_trip_fixed remains for "
        "the integer literal layer. Image: NaN / +-Inf are not values of the model - encoding/json refuses them and the dump fails without a manifest "
        "(TIE: nandump ops); a literal beyond float64 range (the loader would keep its text) cannot be produced by a dump. TIE for the typed values: "
        "the c18 generator writes every kind (nested, empty array / object, unicode, big ints, 0.1, 1e21, integral floats inside and beyond int64, "
        "-0.0) as typed text and the loaded graph is compared on values AND Go types (typedJSON; model: loadText = normalizeVal on that text)",
    "every entity exactly once (underlies all of the above)": "scan_exactly_once (all batch sizes >= 1, ids distinct; short-read and truncation cases "
        "explicit), shard_partition (all shard sizes >= 1: concatenation = scan order, non-empty, <= ShardSize, all but last full, k*ShardSize, empty phase)",
    "the manifest's counts, checksums and metrics describe exactly the files written": "manifest_describes_files (per file: path, phase, digest and byte "
        "size of the file's bytes, count = records the file decodes to; distinct paths; node entries before edge entries; totals = counts) and "
        "manifest_metrics_exact (recorded metrics = metricsOf the source graph's id-ordered streams; counts = source counts), under H. SHA-256 and byte "
        "counts are the abstract codec's digest / size functions: that they are the real ones is TIE ONLY (suite obs18 recomputes sha256 / sizes)",
    "verification of the loaded database against the manifest succeeds": "verify_accepts_loaded / GraphOk.verify under H (metrics invariant under the id "
        "map and the return order: metrics_invariant)",
    "... exactly when the graphs match": "REFUTED for the code: verify_gap + c18_full_refuted (two self loops vs a 2-cycle: equal metrics, not isomorphic; "
        "confirmed on the real code every run). What holds: verify_iff_metrics_equal (no hypotheses): ok <=> metrics equal (counts + six histograms as "
        "multisets), mismatch <=> collected and different, error <=> an endpoint is not a node; isomorphism => metrics equal, not conversely",
    "all batch/shard sizes >= 1, ids with gaps, nodes without kinds, parallel edges, empty graphs": "quantified in the theorems above (Nat ids, any kinds "
        "list, any multiset of relationships, empty node / relationship lists)",
    "compression {none,gzip,zstd}": "TIE ONLY: the theorems are for any codec with dec(enc x) = x; that JSON lines + none/gzip/zstd is such a codec is "
        "exercised on every generated database x all three codecs",
    "dump -> [interrupt -> resume] -> load (the dump may be interrupted)": "C19 (resume_complete_or_refuse, completed_resume_holds_every_entity_once: the resumed directory equals the uninterrupted "
        "one) + TIE: idump ops crash / fault the real dump at random and at every point, resume, load, compare",
    "table positions / references do not wrap on large graphs": "T-tie no_narrow_index_types, metrics_tables_wide, ordinal_capacity_guarded (facts "
        "re-extracted from retriever/*.go); 65537-kind-combination graph in the thorough tier only",
    "searched only (tie)": "that the Lean transcription (Model/C18.lean) is what Dump / Load / Verify do: line diff model = implementation on every generated "
        "case (fragment boundaries and counts, schema kinds, loaded graph in creation order, verify outcomes after mutations), the observation monitor "
        "(recomputed sha256 / sizes / record counts, directory listing, isomorphism of the loaded graph); the three codecs; JSON text round trip of "
        "strings (bytes of the escaping) ; real database drivers (only the in-memory fake is exercised); scrub on (C19 covers it for resume)",
    "named assumptions": "WF graphs with distinct names; source unchanged during the dump; empty target; injective destination id allocator; SHA-256 "
        "collision free (digest abstract); json_string_round_trip (escaping / unescaping of code points by encoding/json is the identity on valid "
        "UTF-8; invalid UTF-8 becomes U+FFFD and is outside the image); float_text_round_trip (F64.round_trip: strconv parses the shortest text "
        "json.Marshal wrote back to the same float64); object keys in encoding/json's sorted order; gzip, zstd, crypto/sha256 correct; file system "
        "returns what was written",
}


def scale_note(ctx, stats):
    if stats.get("scale.beyond_16_bit"):
        return "this run dumped, loaded and verified a graph with 65537 distinct node kind combinations (relationships at references 65534/65535/65536) and required Verify to reject a re-pointed relationship"
    return ("the 16-bit reference boundary (65536 kind combinations) is covered in this tier by the width facts of Props/C18Widths only "
            "(no_narrow_index_types, metrics_tables_wide); the scale ops ran on a 40-node proxy; the thorough tier runs the 65537-combination graph")


def extra_coverage(ctx, stats):
    gap = unjudged = 0
    p = ctx.path("obs18_all.monout")
    if os.path.exists(p):
        for l in open(p, errors="replace"):
            if l.startswith("ok gap-nonisomorphic-accepted"):
                gap += 1
            elif l.startswith("ok unjudged"):
                unjudged += 1
    return {
        "clause_map": CLAUSES,
        "scale_boundary": scale_note(ctx, stats),
        "verify_gap_confirmed_on_impl": gap,
        "verify_unjudged": unjudged,
        "gap_note": "verify_gap_confirmed_on_impl counts real Verify runs that accepted a loaded database which is NOT isomorphic to the "
                    "source (property edits, degree-preserving rewiring) because every histogram Verify compares still agrees: the clause "
                    "'verification succeeds exactly when the graphs match' holds only as 'exactly when the compared histograms agree' "
                    "(Lean: verify_iff_match, verify_gap, c18_full_refuted, c18_partial)",
    }


SPEC = {
    "id": "C18",
    "title": "dump followed by load reproduces the graph",
    "level": "proof",
    "lean_modules": ["Dawgs.Props.C18", "Dawgs.Props.C18Widths"],
    "regen": regen,
    "theorems_by_module": THEOREMS,
    "gate_modules": ["Dawgs.Model.C18", "Dawgs.Spec.C18", "Dawgs.Proofs.C18", "Dawgs.Proofs.C18Metrics", "Dawgs.Proofs.C18Multi", "Dawgs.Model.C18Num", "Dawgs.Model.C18Json", "Dawgs.Props.C18", "Dawgs.Props.C18Widths"],
    "suites": [
        {"name": "c18", "model_suite": "c18", "monitor_suite": None, "keep_prefix": 2, "thorough_seeds": 2},
        {"name": "obs18", "model_suite": None, "monitor_suite": "c18mon", "keep_prefix": 2, "thorough_seeds": 2, "shrink_budget": 150},
    ],
    "nontrivial": nontrivial,
    "finding_key": finding_key,
    "extra_coverage": extra_coverage,
    "rule": "cases = generated multi-graph databases (0-8 nodes, 0-9 relationships per graph; ids with gaps incl. id 0, nodes without kinds, multi-kind "
            "nodes, parallel relationships, self loops, nested list/map properties, unicode, ints/floats/bools/null, nil property objects, empty graphs) "
            "x codec {none,gzip,zstd} x batch/shard in {1,2,3,count,count+-1}, each case = real Dump -> Load -> Verify -> one mutation of the loaded "
            "database -> Verify, then the same dump INTERRUPTED (crash at a random hook point, or a DB read error at a random fetch) and resumed -> Load -> "
            "graph comparison -> Verify; for every sixth database every crash point and every fetch of one configuration (batch 2, shard 2); graphs of a "
            "database may reuse node / relationship ids (each numbering from the start), one may be empty; all from splitmix64(VERIF_SEED); suite c18 compares every answer with the Lean model, suite obs18 feeds raw "
            "observations (manifest entries next to recomputed sha256/sizes/record counts, directory listing, loaded graph) to the Lean monitor; "
            "a case is non-trivial when a shard rollover happened (>= 3 fragments), at least one relationship was loaded and both verifications "
            "were answered; distinct = distinct op-line sequences (sha1)",
    "expected_branches": ["branch.fragment_full", "branch.fragment_partial", "branch.empty_node_phase", "branch.empty_edge_phase",
                          "branch.count_multiple_of_shard", "branch.multi_graph", "verify.mismatch", "verify.ok",
                          "gen.self_loop", "gen.parallel_edge", "mutate.rewire", "mutate.setprop", "gen.graphs_restart_ids",
                          "gen.interrupted_dumps", "scale.graphs", "scale.mutations", "idump.ok", "idump.stuck.unexpected-file", "idump.stale_checkpoint", "nandump.rejected"],
    "trusted_base": ["encoding/json, compress/gzip, klauspost zstd, crypto/sha256 (modelled as an abstract codec with dec(enc x) = x; the JSON text "
                     "round trip of property values is checked by the tie on every run)",
                     "harness/fakedb.go: in-memory graph.Database fake interpreting the keyset criteria the retriever emits (real drivers not exercised)"],
    "assumptions": ["scrub off; source database unchanged during the dump",
                    "property values are JSON values; int64 values beyond 2^53 are part of both suites since the UseNumber fix "
                    "(finding C18:Load.decodeFragment:int-beyond-2^53 fixed; live theorem int_round_trip_fixed)",
                    "Verify is judged against the histograms it compares, not against isomorphism (documented gap, see coverage.gap_note)"],
    "explanation": "C18_full (verification succeeds exactly when the graphs match) is refuted in Lean by a witness pair and confirmed on the real "
                   "code; everything else of the property is proved on the protocol model (c18_partial) and tied to the code by differential runs.",
}

MANIFEST = {
    "category": "proof",
    "technique": "Lean 4 proofs on an executable model of the dump/load/verify protocol (keyset scan, shard rollover, manifest, id-map re-pointing, "
                 "metrics histograms) + differential correspondence and observation monitor against the real retriever over an in-memory graph.Database",
    "text": "Clause map in coverage.clause_map. Proved in Lean for ALL databases of several well-formed graphs with distinct names, all dump batch sizes >= 1, "
            "all shard and load-batch sizes, any codec with dec(enc x)=x and any injective destination id allocator (one end-to-end theorem, load_all_graphs = "
            "c18_partial): the keyset scan yields every entity exactly once in id order, shards partition it, the manifest's per-file counts / sizes / "
            "digests and its metrics describe exactly what was written, every target graph is dumped and loaded exactly once with its own id map, "
            "load(dump g) is isomorphic to g (kinds, properties, endpoints, parallel edges as a multiset), and Verify accepts the loaded graphs. Verify "
            "clause in one sentence: Verify succeeds exactly when the database's metrics equal the manifest's (counts and six histograms as multisets, "
            "verify_iff_metrics_equal), which isomorphism implies but which does NOT imply isomorphism - 'exactly when the graphs match' is the refuted "
            "part of C18_full (verify_gap, c18_full_refuted). Property values of every JSON kind incl. nesting come back equal with their Go types, except that a float64 written as an integer literal inside int64 comes back as int64, JSON-equal (load_iso_values, value_round_trip; every int64 exact). Tie every run: model "
            "= real Dump->Load->Verify line by line on generated databases x three codecs x boundary sizes, also for interrupted+resumed dumps; a Lean "
            "monitor judges recomputed sha256 / sizes / record counts, listings and the loaded graph; width facts of the metrics tables re-extracted.",
    "note": "Partial clause: 'verification succeeds exactly when the graphs match' is false for the code (Verify compares a metrics fingerprint): "
            "refuted in Lean (c18_full_refuted, verify_gap: two self loops vs a 2-cycle) and confirmed on the real code every run; C18_partial is C18_full "
            "with that clause replaced by verify_iff_metrics_equal. Tie only (not proved): that JSON lines + none/gzip/zstd is a codec with dec(enc x)=x, the byte level of JSON (string escaping, float text: "
            "named assumptions json_string_round_trip, float_text_round_trip), SHA-256, the real drivers (in-memory fake only). Scale boundary (65536 kind combinations): width facts in quick, a "
            "65537-combination graph in thorough. No open finding: the int64-beyond-2^53 rounding of Load was fixed in /repo 6eb981c (status fixed in "
            "known_findings.json; big ints are part of every run).",
}
