import os, re

import verif

THEOREMS = {
    "Dawgs.Props.C18": [
        "Dawgs.C18.Props.scan_exactly_once",
        "Dawgs.C18.Props.shard_partition",
        "Dawgs.C18.Props.manifest_describes_files",
        "Dawgs.C18.Props.load_iso",
        "Dawgs.C18.Props.verify_iff_match",
        "Dawgs.C18.Props.verify_iff_metrics_equal",
        "Dawgs.C18.Props.dump_all_graphs",
        "Dawgs.C18.Props.load_all_graphs",
        "Dawgs.C18.Props.int_round_trip_current",
        "Dawgs.C18.Props.int_round_trip_current_lossy",
        "Dawgs.C18.Props.int_round_trip_fixed",
        "Dawgs.C18.Props.verify_accepts_loaded",
        "Dawgs.C18.Props.verify_gap",
        "Dawgs.C18.Props.c18_partial",
        "Dawgs.C18.Props.c18_full_refuted",
    ],
    # T-tie: integer widths of the per-graph tables (tools/extract/c18)
    "Dawgs.Props.C18Widths": [
        "Dawgs.C18.Props.no_narrow_index_types",
        "Dawgs.C18.Props.metrics_tables_wide",
        "Dawgs.C18.Props.ordinal_capacity_guarded",
    ],
}

GENERATED = os.path.join(verif.LEAN, "Dawgs", "Generated", "C18_widths.lean")


def regen(ctx):
    """T-tie: delete and regenerate the integer-width fact table from the current source of retriever/*.go."""
    try:
        os.remove(GENERATED)
    except FileNotFoundError:
        pass
    rc, out = verif.sh(["go", "run", ".", verif.REPO, GENERATED], cwd=os.path.join(verif.VERIF, "tools", "extract", "c18"),
                       env=verif.GOENV, timeout=600)
    if rc != 0 or not os.path.exists(GENERATED):
        raise RuntimeError("c18 extractor failed: " + out[-800:])


BIG = 2 ** 53
_INT = re.compile(r"(?<![\w.\"])-?\d{16,}(?![\w.])")


def has_big_int(ops):
    for o in ops:
        if o.startswith(("node ", "edge ")):
            for m in _INT.findall(o.split(" ", 4)[-1]):
                try:
                    if abs(int(m)) > BIG:
                        return True
                except ValueError:
                    pass
    return False


def nontrivial(ops, impl):
    """a rollover happened (some phase has >= 2 fragments), the load created at least one relationship and
    both verifications were answered"""
    frags = 0
    loaded_edges = False
    verifies = 0
    for o, r in zip(ops, impl):
        if o.startswith("dump ") and r.startswith("ok"):
            frags = max(r.count("#") // 2, r.count(" F "))
        elif o.startswith("load ") and r.startswith("ok"):
            m = re.search(r" e=(\d+)", r)
            loaded_edges = bool(m and int(m.group(1)) > 0)
        elif o.startswith("verify ") and (r.startswith("ok") or r == "mismatch"):
            verifies += 1
    return frags >= 3 and loaded_edges and verifies >= 2


def finding_key(suite, ops, line, msg):
    words = msg.split()
    cls = words[1] if len(words) > 1 else "reject"
    op = ops[line].split()[0] if line < len(ops) else "?"
    if cls == "not-isomorphic" and has_big_int(ops):
        return "C18:Load.decodeFragment:int-beyond-2^53"
    return "C18:%s:%s" % (op, cls)


def scale_note(ctx, stats):
    if stats.get("scale.beyond_16_bit"):
        return "this run dumped, loaded and verified a graph with 65537 distinct node kind combinations (relationships at references 65534/65535/65536) and required Verify to reject a re-pointed relationship"
    return ("the 16-bit reference boundary (65536 kind combinations) is covered in this tier by the width facts of Props/C18Widths only "
            "(no_narrow_index_types, metrics_tables_wide); the scale ops ran on a 40-node proxy; the thorough tier runs the 65537-combination graph")


def extra_coverage(ctx, stats):
    gap = unjudged = 0
    p = ctx.path("obs18_all.monout")
    if os.path.exists(p):
        for l in open(p, errors="replace"):
            if l.startswith("ok gap-nonisomorphic-accepted"):
                gap += 1
            elif l.startswith("ok unjudged"):
                unjudged += 1
    return {
        "scale_boundary": scale_note(ctx, stats),
        "verify_gap_confirmed_on_impl": gap,
        "verify_unjudged": unjudged,
        "gap_note": "verify_gap_confirmed_on_impl counts real Verify runs that accepted a loaded database which is NOT isomorphic to the "
                    "source (property edits, degree-preserving rewiring) because every histogram Verify compares still agrees: the clause "
                    "'verification succeeds exactly when the graphs match' holds only as 'exactly when the compared histograms agree' "
                    "(Lean: verify_iff_match, verify_gap, c18_full_refuted, c18_partial)",
    }


SPEC = {
    "id": "C18",
    "title": "dump followed by load reproduces the graph",
    "level": "proof",
    "lean_modules": ["Dawgs.Props.C18", "Dawgs.Props.C18Widths"],
    "regen": regen,
    "theorems_by_module": THEOREMS,
    "gate_modules": ["Dawgs.Model.C18", "Dawgs.Spec.C18", "Dawgs.Proofs.C18", "Dawgs.Proofs.C18Metrics", "Dawgs.Proofs.C18Multi", "Dawgs.Model.C18Num", "Dawgs.Props.C18", "Dawgs.Props.C18Widths"],
    "suites": [
        {"name": "c18", "model_suite": "c18", "monitor_suite": None, "keep_prefix": 2, "thorough_seeds": 2},
        {"name": "obs18", "model_suite": None, "monitor_suite": "c18mon", "keep_prefix": 2, "thorough_seeds": 2, "shrink_budget": 150},
    ],
    "nontrivial": nontrivial,
    "finding_key": finding_key,
    "extra_coverage": extra_coverage,
    "rule": "cases = generated multi-graph databases (0-8 nodes, 0-9 relationships per graph; ids with gaps incl. id 0, nodes without kinds, multi-kind "
            "nodes, parallel relationships, self loops, nested list/map properties, unicode, ints/floats/bools/null, nil property objects, empty graphs) "
            "x codec {none,gzip,zstd} x batch/shard in {1,2,3,count,count+-1}, each case = real Dump -> Load -> Verify -> one mutation of the loaded "
            "database -> Verify, then the same dump INTERRUPTED (crash at a random hook point, or a DB read error at a random fetch) and resumed -> Load -> "
            "graph comparison -> Verify; for every sixth database every crash point and every fetch of one configuration (batch 2, shard 2); graphs of a "
            "database may reuse node / relationship ids (each numbering from the start), one may be empty; all from splitmix64(VERIF_SEED); suite c18 compares every answer with the Lean model, suite obs18 feeds raw "
            "observations (manifest entries next to recomputed sha256/sizes/record counts, directory listing, loaded graph) to the Lean monitor; "
            "a case is non-trivial when a shard rollover happened (>= 3 fragments), at least one relationship was loaded and both verifications "
            "were answered; distinct = distinct op-line sequences (sha1)",
    "expected_branches": ["branch.fragment_full", "branch.fragment_partial", "branch.empty_node_phase", "branch.empty_edge_phase",
                          "branch.count_multiple_of_shard", "branch.multi_graph", "verify.mismatch", "verify.ok",
                          "gen.self_loop", "gen.parallel_edge", "mutate.rewire", "mutate.setprop", "gen.graphs_restart_ids",
                          "gen.interrupted_dumps", "scale.graphs", "scale.mutations", "idump.ok", "idump.stuck.unexpected-file", "idump.stale_checkpoint"],
    "trusted_base": ["encoding/json, compress/gzip, klauspost zstd, crypto/sha256 (modelled as an abstract codec with dec(enc x) = x; the JSON text "
                     "round trip of property values is checked by the tie on every run)",
                     "harness/fakedb.go: in-memory graph.Database fake interpreting the keyset criteria the retriever emits (real drivers not exercised)"],
    "assumptions": ["scrub off; source database unchanged during the dump",
                    "property values are JSON values; int64 values beyond 2^53 are part of both suites since the UseNumber fix "
                    "(finding C18:Load.decodeFragment:int-beyond-2^53 fixed; live theorem int_round_trip_fixed)",
                    "Verify is judged against the histograms it compares, not against isomorphism (documented gap, see coverage.gap_note)"],
    "explanation": "C18_full (verification succeeds exactly when the graphs match) is refuted in Lean by a witness pair and confirmed on the real "
                   "code; everything else of the property is proved on the protocol model (c18_partial) and tied to the code by differential runs.",
}

MANIFEST = {
    "category": "proof",
    "technique": "Lean 4 proofs on an executable model of the dump/load/verify protocol (keyset scan, shard rollover, manifest, id-map re-pointing, "
                 "metrics histograms) + differential correspondence and observation monitor against the real retriever over an in-memory graph.Database",
    "text": "Lean theorems for all databases of several well-formed graphs with distinct names (dump_all_graphs / load_all_graphs: every target graph "
            "exactly once in the manifest's order, one id map per graph, nothing leaking between graphs), all batch/shard sizes >= 1, any codec with "
            "dec(enc x)=x and any injective destination id allocator: the keyset scan yields every entity exactly once in id order (short-read and truncation cases explicit), shards partition the "
            "scan (non-empty, <= ShardSize, all but the last full, k*ShardSize gives exactly k files, empty phase gives none), the manifest describes "
            "exactly the files written, load(dump g) is isomorphic to g under the loader's id map (kinds, properties, endpoints, parallel edges as a "
            "multiset). Verify clause in one sentence: Verify accepts the loaded graphs and, for any database, succeeds exactly when its metrics equal the "
            "manifest's (counts and the six histograms as multisets, verify_iff_metrics_equal), which isomorphism implies but which does NOT imply "
            "isomorphism - 'exactly when the graphs match' is the refuted part of C18_full (verify_gap, c18_full_refuted). The model answers are compared line by line with the real "
            "Dump->Load->Verify on generated databases x codecs x boundary sizes every run; a Lean monitor judges raw observations (recomputed "
            "sha256/byte counts/record counts, directory listing, loaded graph).",
    "note": "Partial clause: 'verification succeeds exactly when the graphs match' is false for the code (metrics fingerprint): refuted in Lean "
            "(c18_full_refuted, witness: two self loops vs a 2-cycle) and confirmed on the real code each run. Fixed finding: int64 properties beyond "
            "2^53 were rounded by Load (float64 decoding); Load now decodes with UseNumber (int_round_trip_fixed). Trusted: codecs, encoding/json, SHA-256, the fake database.",
}
