"""C14 — all directed-graph containers present the same graph (container/)."""

# Which definitions the model driver runs: "fixed" = the code as it is (F2 repaired in /repo by 789c790, the live
# definitions of the Lean statements), "old" = the pre-repair definitions (DirectionBoth defect F2 reproduced; only
# for replaying the old shape against a scratch worktree that reverts the fix).
import os
MODEL_MODE = os.environ.get("VERIF_C14_MODE", "fixed")
# hooks/C14-fix3.patch (proposal, NOT in /repo: every read path of the triple store honours DeleteEdge). When it lands:
# default this to "1" and set the two tombstone findings in known_findings.json to fixed; the `_fix3` theorems are
# already proved for that semantics (model suite c14t).
TOMBSTONE_FIX = os.environ.get("VERIF_C14_TOMB", "0") == "1"
# hooks/C14-fix4.patch (SerializedSegment.ToSegment reads s.Edges[nodeIndex]): the live model follows the status of the
# finding in known_findings.json — set that entry to "status": "fixed", "commit": "<hash>" when the patch lands and the
# model driver switches to the repaired ToSegment (suite c14s); nothing else to edit. VERIF_C14_SEG4=1/0 overrides.


def _toseg_fixed():
    ov = os.environ.get("VERIF_C14_SEG4")
    if ov in ("0", "1"):
        return ov == "1"
    import json
    here = os.path.dirname(os.path.dirname(os.path.dirname(os.path.abspath(__file__))))
    try:
        for f in json.load(open(os.path.join(here, "known_findings.json")))["findings"]:
            if f.get("key") == "C14:SerializedSegment.ToSegment:Edges-index-minus-one-panic":
                return f.get("status") == "fixed"
    except Exception:
        pass
    return False


TOSEGMENT_FIX = _toseg_fixed()

import regen


def do_regen(ctx):
    regen.goext("c14api", "C14Api.lean")   # container/*.go, container/util/*.go -> exported entry points returning a graph container


P = "Dawgs.C14.Props."
THEOREMS = {
    "Dawgs.Props.C14": [P + t for t in [
        "adjmap_adj_eq",
        "csr_offsets_inv",
        "csr_adj_eq",
        "ts_adj_eq",
        "both_contains_self_iff_loop",
        "proj_adj_eq",
        "proj_tombstone_partial",
        "proj_tombstone_refuted",
        "numNodes_eq",
        "reach_fuel_sufficient",
        "reach_eq",
        "bfsTree_dist_eq",
        "normalize_iso",
        "normalize_nodes",
        "normalize_preserves_dist",
        "oracle_exact",
        "segment_roundtrip",
        "factories_eq",
        "fetch_eq",
        "handle_noninterference",
        "handle_view_eq",
        "handle_child_eq",
        "tsbfs_leaves_eq",
        "tsdfs_leaves_eq",
        "stateless_bfs_dist_eq",
        "traversal_segments_roundtrip",
        "numEdges_eq",
        "degrees_eq",
        # hooks/C14-fix3.patch (proposal): the statements that become live when it lands
        "proj_adj_eq_fix3",
        "numEdges_eq_fix3",
        "traversals_eq_fix3",
        "dimensions_eq",
        "ts_numEdges_tombstone_refuted",
        "toSegment_wf",
        "toSegment_serialize",
        "serialize_toSegment",
        "toSegment_no_nodes",
        "toSegment_excess_edges",
        "toSegment_missing_edges",
        "c14",
        # the code before 789c790 (F2): refutations and what held then
        "ts_adj_both_refuted_old",
        "proj_adj_both_refuted_old",
        "ts_adj_eq_old_partial",
        "proj_adj_eq_old_partial",
        "c14_refuted_old",
        "adjmap_numEdges_refuted_old",
        "toSegment_panics_old",
        "c14_old_partial",
    ]],
    "Dawgs.Props.C14Api": ["Dawgs.C14.Api.constructors_covered", "Dawgs.C14.Api.covered_exist"],
}

CLASS_KEYS = {
    "ts-both-includes-self": "C14:triplestore.adjacent:DirectionBoth-includes-self",
    "proj-both-returns-start": "C14:triplestore.projection.Pick:DirectionBoth-returns-start",
    "tsbfs-both-returns-start": "C14:TSBFS.Pick:DirectionBoth-returns-start",
    "tsdfs-both-returns-start": "C14:TSDFS.Pick:DirectionBoth-returns-start",
    "proj-ignores-tombstone": "C14:triplestoreProjection.EachAdjacentEdge:ignores-origin-DeleteEdge",
    "readeach-lost-all-segments": "C14:BFSTreeFile.ReadEach:scans-raw-file-not-gzip-stream",
    "toseg-index-panic": "C14:SerializedSegment.ToSegment:Edges-index-minus-one-panic",
    "am-numedges-returns-node-count": "C14:adjacencyMapDigraph.NumEdges:returns-node-count",
    "ts-numedges-ignores-tombstone": "C14:triplestore.NumEdges:ignores-DeleteEdge",
}


# clause of the statement in properties.jsonl -> the theorem(s) that prove it for ALL build histories / graphs / directions / deletion
# sets, with the hypotheses they carry; or "searched only" / "tie only" with the reason. Goes into evidence coverage.clause_map.
CLAUSES = {
    "same node set and count in every container (adjacency map, CSR, triple store, every projection)":
        "numNodes_eq (every container lists each node of the history exactly once; counts agree; a projection lists exactly the non-deleted "
        "nodes for ARBITRARY deleted sets, ids foreign to the store included); normalize_nodes; factories_eq / fetch_eq for graphs built by "
        "BuildAdjacencyMapGraph, util.BuildGraph, FetchDirectedGraph (every map key is a node, empty and nil lists alike). No hypothesis.",
    "same adjacency set per node and direction (outbound, inbound, both)":
        "adjmap_adj_eq, csr_adj_eq (through csr_offsets_inv: offsets/prefix sums/fill loop, proved for every builder state), ts_adj_eq (store with "
        "ANY DeleteEdge tombstones), proj_adj_eq (every deleted-node/deleted-edge set; store built without DeleteEdge). No hypothesis; all three "
        "directions. degrees_eq / dimensions_eq / numEdges_eq add callback counts and NumEdges.",
    "'both' = union of in- and out-neighbours; contains the node itself only if it has a self loop":
        "by definition of the spec adjacency (G.adj both = out ++ in, read as a set) in the four theorems above; spelled out for the containers "
        "in both_contains_self_iff_loop (self is a both-neighbour iff the history added an edge v->v, not tombstoned for the store). No hypothesis.",
    "deletion projections, nested, any argument provider":
        "handle_view_eq (after ANY run of store ops / DeleteEdge / projections derived from the store or from other handles, a handle bound to "
        "(dn,de) presents the store's graph projected by (dn,de): adjacency x3, nodes, NumNodes, NumEdges, EachAdjacentEdge = incident list), "
        "handle_child_eq (child = parent minus (N2,E2); G.project composes), handle_noninterference (deriving never changes another handle). "
        "The Duplex implementation of the argument sets (NewBitmap64With / ThreadSafeDuplex / doubly wrapped) is TIE ONLY: a set is a set in the "
        "model; every provider x provider combination is exercised and the caller-owned bitmaps are re-observed after every op.",
    "REFUTED INSTANCE: projection of a store carrying DeleteEdge tombstones (known finding C14:triplestoreProjection.EachAdjacentEdge:ignores-origin-DeleteEdge)":
        "proj_tombstone_refuted (witness: edge 10 deleted, store out(1) = {}, its empty projection out(1) = {2}); what holds instead: "
        "proj_tombstone_partial (the projection presents the UN-tombstoned edge list projected). Proposed repair hooks/C14-fix3.patch: "
        "proj_adj_eq_fix3 / numEdges_eq_fix3 / traversals_eq_fix3 are proved for that semantics (not live).",
    "REFUTED INSTANCE: triplestore.NumEdges ignores DeleteEdge (known finding C14:triplestore.NumEdges:ignores-DeleteEdge)":
        "ts_numEdges_tombstone_refuted; what holds instead: numEdges_eq (the store counts every triple whatever was deleted).",
    "reachability derived from any container = naive computation on the edge list":
        "reach_eq (adjacency map, CSR, store with tombstones, every projection; all directions; Reach = nodes reachable in >= 1 step, the start "
        "itself only on a cycle), reach_fuel_sufficient (the queue loop ends within NumNodes+1 pops), oracle_exact (the naive layer computation the "
        "monitor uses IS Reachable for every closed graph and bound >= |nodes|). No hypothesis.",
    "BFS distances derived from any container = shortest walk length on the edge list":
        "bfsTree_dist_eq (each reachable node exactly once, with IsDist = length of a shortest walk of >= 1 step; all containers, all directions), "
        "oracle_exact for the monitor's naiveDists. No hypothesis.",
    "ID normalisation agrees with the edge list":
        "normalize_iso (reverse index lists every node once; j is a neighbour of normal node i iff rev[j] is a neighbour of rev[i]), "
        "normalize_nodes (normal ids are exactly 0..n-1), normalize_preserves_dist (Reachable / IsDist carried over). Adjacency map and CSR (the "
        "only containers with Normalize). No hypothesis.",
    "serialised path segments derived from any container agree with the naive computation":
        "tsbfs_leaves_eq / tsdfs_leaves_eq / stateless_bfs_dist_eq: handler calls = (as a multiset) the maximal filter-admitted walks enumerated "
        "naively (maxWalks / maxTerms), store and every projection; HYPOTHESIS Terminates: maxDepth > 0, or a rank function certifying the "
        "filtered graph acyclic (excluded point = the real loops do not terminate). traversal_segments_roundtrip: every segment they produce "
        "satisfies UnmarshalSegment(MarshalSegment seg) = seg (hypothesis: ids < 2^64); segment_roundtrip for any chain (hypotheses: non-empty, "
        "root Edge = 0, ids < 2^64); toSegment_serialize / serialize_toSegment for SerializedSegment (well-formed |Nodes| = |Edges|+1; the "
        "ill-formed shapes in toSegment_no_nodes / _excess_edges / _missing_edges).",
    "REFUTED INSTANCE: BFSTreeFile.ReadEach (known finding C14:BFSTreeFile.ReadEach:scans-raw-file-not-gzip-stream)":
        "searched only: no Lean model of the gzip file; the tie + monitor show 0 of N written segments are read back (corpus c14_F3_readeach.ops). "
        "What IS proved about the file's content: the segments WriteZoneBFSTree marshals are the TSBFS leaves (tsbfs_leaves_eq) and each round-trips "
        "(traversal_segments_roundtrip).",
    "factory / builder surface":
        "constructors_covered, covered_exist (Props/C14Api over the table regenerated from container/*.go every run): every exported function "
        "returning a graph container is an op of the suite; factories_eq, fetch_eq.",
    "searched only (tie)":
        "that the Lean transcriptions are what container/*.go does: line diff model = implementation on every generated case (exact callback "
        "sequences, CSR dense order, offsets via adjacency, projection handle digests after every op) + the spec monitor on every real answer; "
        "exhaustive: all digraphs <= 4 nodes / <= 5 edges, edge multisets, all projection subsets, all nested (N1,E1)x(N2,E2) derivations x "
        "provider combinations, all factory descriptions <= 3 keys, dense ids in all n! orders (n <= 4); random multigraphs with 64-bit ids. "
        "Go's unbounded `for queue.Len() > 0` loops vs the model's fuel (fuel proved sufficient); BFSTreeFile; Duplex provider implementations; "
        "callback multiplicity of CSR `both` and of projections (not part of the property: recorded, judged only within [distinct, incident]).",
    "named assumptions":
        "roaring bitmaps (Add/Or/Contains/Each ascending) = ascending lists; Go maps = association lists (results independent of range order); "
        "gammazero/deque = list; encoding/binary little endian, compress/gzip trusted; ids < 2^64 in Go, naturals in Lean (segment theorems carry "
        "the bound explicitly); TSStatelessBFS weights: small integral float64 in the tie, naturals in the model; single-threaded use.",
}


def finding_key(suite, ops, line, msg):
    toks = msg.split()
    cls = toks[1] if len(toks) > 1 else "reject"
    if cls in CLASS_KEYS:
        return CLASS_KEYS[cls]
    op = ops[line].split() if line < len(ops) else []
    site = ".".join(op[:3]) if op and op[0] in ("adj", "adj1", "reach", "reach1", "bfs", "bfs1", "norm", "nodes", "tsbfs", "tsdfs", "tssl", "dims", "numedges", "snap", "fetch") else (op[0] if op else "?")
    return "C14:%s:%s" % (site, cls)


def nontrivial(ops, impl):
    """>= 2 edges, at least one of {self loop, parallel pair, antiparallel pair, isolated node}, and the
    direction `both` is asked of at least two containers."""
    edges, nodes = [], set()
    both = set()
    for o in ops:
        t = o.split()
        if not t:
            continue
        if t[0] == "edge" and len(t) == 4:
            edges.append((t[2], t[3]))
        elif t[0] == "node" and len(t) == 2:
            nodes.add(t[1])
        elif t[0] in ("adj", "reach", "bfs") and len(t) == 3 and t[2] == "both":
            both.add(t[1])
    if len(edges) < 2 or len(both) < 2:
        return False
    ends = {x for e in edges for x in e}
    shape = any(s == e for s, e in edges) or len(set(edges)) < len(edges) \
        or any((e, s) in set(edges) and s != e for s, e in edges) or bool(nodes - ends)
    return shape


def extra_coverage(ctx, stats):
    def pair(name):
        a, b = stats.get("gen.exhaustive.%s.enumerated" % name, 0), stats.get("gen.exhaustive.%s.closed_form" % name, 0)
        return {"enumerated": a, "closed_form": b, "match": a == b and a > 0}
    dg, mg = pair("digraphs"), pair("multigraphs")
    pj = {"enumerated": stats.get("gen.exhaustive.projection.graphs", 0),
          "closed_form": stats.get("gen.exhaustive.projection.graphs_closed_form", 0),
          "deletion_sets": stats.get("gen.exhaustive.projection.deletion_sets", 0)}
    pj["match"] = pj["enumerated"] == pj["closed_form"] and pj["enumerated"] > 0
    return {
        "exhaustive": bool(dg["match"] and mg["match"] and pj["match"]),
        "exhaustive_scope": {
            "digraphs (loops allowed) on <=K labelled nodes with <=M edges, sum_k sum_m C(k^2,m)": dict(
                dg, K=stats.get("gen.exhaustive.digraphs.max_nodes", 0), M=stats.get("gen.exhaustive.digraphs.max_edges", 0)),
            "multigraphs: every m-multiset of edges, sum_k sum_m C(k^2+m-1,m)": mg,
            "projections: every deleted-node subset x deleted-edge subset of every small digraph": pj,
            "note": "small-scope enumeration supports the tie and the monitor; the for-all statement is carried by the Lean theorems",
        },
        "clause_map": CLAUSES,
        "model_mode": MODEL_MODE, "tosegment_fix_live": TOSEGMENT_FIX, "tombstone_fix_live": TOMBSTONE_FIX,
        "multiplicity_info": "CSR reported a neighbour twice under `both` in %d adjacency answers (parallel/antiparallel/self-loop); recorded, not judged" % stats.get("info.csr.both.duplicate_callback", 0),
    }


SPEC = {
    "id": "C14",
    "title": "all directed-graph containers present the same graph",
    "level": "proof",
    "regen": do_regen,
    "lean_modules": ["Dawgs.Props.C14", "Dawgs.Props.C14Api"],
    "theorems_by_module": THEOREMS,
    "gate_modules": ["Dawgs.Model.C14", "Dawgs.Spec.C14", "Dawgs.Proofs.C14", "Dawgs.Proofs.C14TS", "Dawgs.Proofs.C14Csr", "Dawgs.Proofs.C14Reach",
                     "Dawgs.Proofs.C14Bfs", "Dawgs.Proofs.C14Norm", "Dawgs.Proofs.C14Seg", "Dawgs.Proofs.C14Trav", "Dawgs.Proofs.C14TravInst", "Dawgs.Proofs.C14Edges", "Dawgs.Proofs.C14Dims",
                     "Dawgs.Proofs.C14ToSeg", "Dawgs.Proofs.C14Factory", "Dawgs.Proofs.C14Glue", "Dawgs.Proofs.C14Heap", "Dawgs.Proofs.C14Oracle", "Dawgs.Props.C14Api", "Dawgs.Props.C14"],
    "suites": [{"name": "c14", "model_suite": ("c14" + ("t" if TOMBSTONE_FIX else "") + ("s" if TOSEGMENT_FIX else "")) if MODEL_MODE == "fixed" else "c14old", "monitor_suite": "c14mon",
                "keep_prefix": 2, "shrink_budget": 60, "thorough_seeds": 1}],
    "nontrivial": nontrivial,
    "finding_key": finding_key,
    "extra_coverage": extra_coverage,
    "rule": "cases = (a) every digraph with loops on <=3 (quick) / <=4 (thorough) labelled nodes and <=4 / <=5 edges, (b) every edge multiset "
            "(parallel edges) on <=2 / <=3 nodes, (c) every deleted-node x deleted-edge projection subset of every digraph on <=2 / <=3 nodes with "
            "<=2 / <=3 edges, (d) random multigraphs from splitmix64(VERIF_SEED) with sparse 64-bit ids, self loops, parallel/antiparallel edges, "
            "isolated and re-added nodes, duplicate edge ids, first-class projection handles (derived from the store or from any earlier handle, store grown afterwards), tombstones, segments, TSBFS/TSDFS, WriteZoneBFSTree+ReadEach; each "
            "case is built into the adjacency map, the CSR builder, the triple store and a projection and queried for node sets, adjacency x3 "
            "directions, Reach, BFSTree, Normalize. A case is non-trivial when it has >= 2 edges, at least one of {self loop, parallel pair, "
            "antiparallel pair, isolated node} and asks `both` of >= 2 containers; distinct = distinct op-line sequences (sha1)",
    "expected_branches": [
        "branch.am.both.merged", "branch.am.both.out_only", "branch.am.both.in_only", "branch.am.both.none",
        "branch.edge.self_loop", "branch.edge.parallel", "branch.edge.antiparallel", "branch.nodes.isolated_present",
        "branch.proj.deleted_nodes", "branch.proj.deleted_edges", "branch.proj.nested", "branch.ts.delete_edge",
        "branch.reach.start_on_cycle", "branch.reach.empty", "branch.bfs.distance_ge3", "branch.normalize.am", "branch.normalize.csr",
        "branch.seg.single_node", "branch.tsbfs.both", "branch.tsdfs.in", "branch.traversal.depth_exceeded",
        "branch.traversal.unbounded_depth", "branch.zone.readeach", "branch.adj1.csr", "branch.toseg", "branch.tssl.both", "branch.tssl.in", "branch.numedges.proj", "branch.dims", "gen.shape.proj_deletes_non_node", "branch.handles.reobserved", "branch.snap", "branch.proj.nested", "branch.proj.provider.tsd", "branch.proj.provider.tsd2", "gen.shape.dense_ids", "gen.shape.partly_dense_ids", "branch.factory.build", "branch.factory.nil_list", "branch.factory.empty_list", "branch.factory.fetch.all", "branch.factory.fetch.k1",
    ],
    "trusted_base": [
        "RoaringBitmap / cardinality.Bitmap64 native Add/Or/Contains/Each (modelled as ascending lists), Go maps, gammazero/deque, encoding/binary, compress/gzip",
        "unexported container methods reached through interface assertions (Normalize, DeleteEdge, triplestore.AddNode) — no hook needed",
    ],
    "assumptions": [
        "factory surface: every exported function/method of container and container/util whose result is a graph container is regenerated by tools/extract/goext (mode c14api) on every run and must be an op of the suite or exempt (Props/C14Api: constructors_covered, covered_exist); factory-built graphs are observed through a sorting wrapper because the factories range over a Go map; FetchDirectedGraph runs against a stub graph.Database that supports Filter(nil | KindMatcher) + Query only",
        "projection arguments are passed in every Duplex[uint64] implementation the cardinality package constructs (NewBitmap64With, ThreadSafeDuplex of it, doubly wrapped), parent x child in all combinations in the exhaustive nested family",
        "reachability / BFS distance / normalisation clauses are Lean theorems for ALL build histories (reach_eq, bfsTree_dist_eq, normalize_iso, normalize_nodes, normalize_preserves_dist); the naive oracle the monitor judges the real containers with is itself proved exact (oracle_exact); what remains search-only for these clauses is the transcription (tie) of the Go loops, incl. their unbounded `for queue.Len() > 0` vs the model's fuel (proved sufficient)",
        "projection handles: from the first `proj` of a case on, EVERY answer is followed by FNV-1a digests of the full canonical view (NumNodes, EachNode, NumEdges, EachEdge, per node x direction EachAdjacentNode set and EachAdjacentEdge ids) of every live handle and of the caller-owned bitmaps passed to Projection; impl, model (handles are immutable values) and spec monitor must agree on all of them; `snap H` gives the full text",
        "ids are < 2^64 (the Go code cannot represent others); the Lean theorems hold for all naturals",
        "EachAdjacentNode multiplicity is not part of the property: answers are compared as sets by the monitor and as exact callback sequences by the model tie",
        "TSDFS/TSBFS/TSStatelessBFS theorems need `Terminates` (maxDepth > 0, or a rank function certifying the filtered graph acyclic); an admitted cycle with maxDepth <= 0 is the documented non-termination of the real loops and is never generated",
        "TSStatelessBFS weights: small integral float64 values in the tie (products exact), naturals in the model",
        "Dimensions / Degrees: proved equal across adjacency map, store and (out/in) CSR (degrees_eq, dimensions_eq); for CSR under `both` and for projections the callback count has multiplicity and is only tied + judged by the monitor within [distinct neighbours, incident edges]",
        "a triple store carrying DeleteEdge tombstones: the store's own adjacency is proved (ts_adj_eq); its EachEdge/EachAdjacentEdge/NumEdges, its projections and traversals ignore the tombstones (known findings, stated precisely by proj_tombstone_partial, numEdges_eq, tsContainers)",
        "Reach/BFSTree theorems are stated for the queue loops with fuel NumNodes+1 (proved sufficient, reach_fuel_sufficient); the Go loops are unbounded",
        "BFSTreeFile.ReadEach is exercised only on files below one 4096-byte read buffer, where the current code deterministically yields no record",
    ],
    "explanation": "Lean proofs over all build histories (no sorry; axioms within {propext, Classical.choice, Quot.sound}) for the code as it is + differential tie + spec "
                   "monitor on the real containers; clause -> theorem(s) with their hypotheses, the refuted instances (3 known findings) and what is searched only: "
                   "see clause_map",
}

def run(spec, tier, seed, replay):
    """Generic flow, with one local refinement: flow.first_reject reports only the FIRST rejection of a case, so a
    listed known-defect class early in a case would hide a new violation later in the same case. Prefer a rejection whose
    class is not one of the listed shapes (suggested for lib/flow.py: group ALL distinct classes of a case)."""
    import flow

    def first_reject(mon):
        first = None
        for i, l in enumerate(mon):
            if l.startswith("reject"):
                toks = l.split()
                if len(toks) < 2 or toks[1] not in CLASS_KEYS:
                    return i, l
                if first is None:
                    first = (i, l)
        return first

    flow.first_reject = first_reject
    return flow.run_property(spec, tier, seed, replay)


MANIFEST = {
    "category": "proof",
    "technique": "Lean 4 refinement proofs (adjacency map, CSR builder with prefix-sum invariant, triple store, projection handles, queue BFS, deque traversals) against an edge-list spec + differential correspondence and a spec monitor on the real Go containers",
    "text": "Lean theorems over ALL build histories (arbitrary ids, self loops, parallel/antiparallel edges, isolated and repeated nodes), for the code as it is in /repo: "
            "the adjacency map, the CSR digraph (offset invariant proved through the builder, prefix sums and fill loop), the triple store (any DeleteEdge tombstones) "
            "and every deleted-node/deleted-edge projection of a store built without DeleteEdge present exactly the edge list's node set, node count and adjacency sets "
            "in all three directions (`both` = union; self only with a self loop: both_contains_self_iff_loop); nested projections are immutable values "
            "(handle_view_eq, handle_child_eq, handle_noninterference); Reach = >=1-step reachability and BFSTree = shortest walk lengths from every container, the "
            "queue loops end within NumNodes+1 pops, and the monitor's naive oracle is itself proved exact; Normalize (adjacency map, CSR) is an isomorphism onto 0..n-1 "
            "preserving reachability and distances; MarshalSegment/UnmarshalSegment round-trip (root Edge = 0, ids < 2^64), SerializedSegment.ToSegment inverts the "
            "serialisation on well-formed input; TSDFS/TSBFS/TSStatelessBFS hand their handler exactly the maximal filter-admitted walks of the naive enumeration — under "
            "the hypothesis maxDepth > 0 or an acyclicity certificate (otherwise the real loops do not terminate) — and every segment they produce round-trips; NumEdges, "
            "Degrees and Dimensions agree; the factories (BuildAdjacencyMapGraph, util.BuildGraph, FetchDirectedGraph) present the described graph and the table of "
            "exported constructors is regenerated and decided every run. `C14_full` (def, = C14_for true) is proved (`c14`). Not covered by a theorem and reported "
            "as known findings: projections / NumEdges / traversals of a store that carries DeleteEdge tombstones ignore them (precise statements "
            "proj_tombstone_partial, proj_tombstone_refuted, ts_numEdges_tombstone_refuted; repair proposed, not in /repo), and BFSTreeFile.ReadEach reads nothing back "
            "(tie + monitor only). The models are transcriptions of container/*.go compared with the real code on exhaustive small scopes and random multigraphs every "
            "run; the real answers are judged by the spec monitor. Clause by clause: coverage.clause_map in the evidence.",
    "note": "Searched only (tie): that the transcription is what the Go code does; BFSTreeFile (gzip file); the Duplex implementations the projection arguments arrive in; "
            "callback multiplicity. Pre-repair definitions (F2 DirectionBoth, adjacency-map NumEdges, ToSegment) are kept only for the `_old` refutations and corpus "
            "regressions; all three repairs are in /repo (789c790, bf4c010, 9a299c0). Trusted: Lean kernel, roaring bitmaps, Go maps, deque, encoding/binary, gzip.",
}
