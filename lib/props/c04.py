import collections, os, re
import regen

THEOREMS = {
    "Dawgs.Props.C04": [
        "Dawgs.C04.Props.pgQuote_single_token", "Dawgs.C04.Props.pgQuote_in_context", "Dawgs.C04.Props.pgQuote_shape_independent",
        "Dawgs.C04.Props.pgQuote_needs_scs_on",
        "Dawgs.C04.Props.decode_encode", "Dawgs.C04.Props.decode_correct", "Dawgs.C04.Props.decode_total_or_error",
        "Dawgs.C04.Props.literal_pipeline", "Dawgs.C04.Props.builder_pipeline", "Dawgs.C04.Props.like_escape_literal",
        "Dawgs.C04.Props.key_unescape_escape", "Dawgs.C04.Props.jsonb_key_quoting", "Dawgs.C04.Props.nested_sql_param_bound",
        "Dawgs.C04.Props.interval_literal", "Dawgs.C04.Props.comment_header_all_lines_commented", "Dawgs.C04.Props.comment_header_invisible",
        "Dawgs.C04.Props.statement_tokens", "Dawgs.C04.Props.statement_twin_tokens",
        "Dawgs.C04.Props.number_token_exact_value", "Dawgs.C04.Props.number_literal_value_round_trip", "Dawgs.C04.Props.integer_literal_value",
        "Dawgs.C04.Props.identifier_quoted", "Dawgs.C04.Props.identifier_bare", "Dawgs.C04.Props.identifier_partial",
        "Dawgs.C04.Props.identifier_fixed", "Dawgs.C04.Props.identifier_case_folded", "Dawgs.C04.Props.identifier_quote_all",
        "Dawgs.C04.Props.identifier_verbatim_unsafe_old",
        "Dawgs.C04.Props.lexFast_eq_lex", "Dawgs.C04.Props.values_safe",
        "Dawgs.C04.Props.c04_full_refuted", "Dawgs.C04.Props.c04_partial", "Dawgs.C04.Props.c04_partial_old_refuted", "Dawgs.C04.Props.c04_fixed",
    ],
    # T-tie: kernel-checked side conditions on the regenerated emission-site tables (Generated/C04Sites.lean)
    "Dawgs.Props.C04Sites": [
        "Dawgs.C04.Sites.format_write_sites_covered", "Dawgs.C04.Sites.format_helpers_in_place", "Dawgs.C04.Sites.format_table_nonempty",
        "Dawgs.C04.Sites.translate_sites_classified", "Dawgs.C04.Sites.symbols_never_rewritten", "Dawgs.C04.Sites.rows_all_live", "Dawgs.C04.Sites.user_text_rows_escaped",
        "Dawgs.C04.Sites.const_rows_are_const", "Dawgs.C04.Sites.known_findings_are_rows", "Dawgs.C04.Sites.like_guards",
        "Dawgs.C04.Sites.sites_table_nonempty", "Dawgs.C04.Sites.unguarded_rows_named", "Dawgs.C04.Sites.outside_rows_no_finding", "Dawgs.C04.Sites.guard_calls_in_place",
        "Dawgs.C04.Sites.guard_ascii_table", "Dawgs.C04.Sites.guard_shape", "Dawgs.C04.Sites.builder_accepts_bare",
        "Dawgs.C04.Sites.builder_name_one_token", "Dawgs.C04.Sites.entry_options_exercised", "Dawgs.C04.Sites.exercised_options_exist",
        "Dawgs.C04.Sites.format_number_calls", "Dawgs.C04.Sites.format_float_calls_present",
    ],
}



# clause of the statement (properties.jsonl C04) -> what establishes it. "for all" = a Lean theorem over every string / name /
# digit string, no length bound; hypotheses are named.
CLAUSES = {
    "string literals reach PostgreSQL as ONE correctly delimited string literal":
        "pgQuote_single_token, pgQuote_in_context (for all NUL-free strings; hypotheses: the text before leaves the lexer in no open token [Clean], the text "
        "after does not re-open the constant [contQuote = false: no quote, no newline-white-space-then-quote], standard_conforming_strings = on); "
        "literal_pipeline, builder_pipeline (Cypher token -> decode -> quote -> lexer); interval_literal (duration); statement_tokens (any number of "
        "positions in one statement, hypothesis wfSegs about the formatter's own text); T-tie format_write_sites_covered / format_helpers_in_place: "
        "the quote-doubling write of formatValue is the only way a string value is written",
    "property keys and map keys":
        "key_unescape_escape (UnescapePropertyKeyName inverts the back-tick form, for all names); jsonb_key_quoting (one string constant after ->, ->>, ?, "
        "jsonb_build_object(, ', ', array [ ; same hypotheses as pgQuote_in_context); that keys become pgsql.Literal values: rows of translate_sites_classified "
        "(literal constructions are written by formatValue) + tie",
    "parameter values that are inlined":
        "same formatValue: pgQuote_in_context; nested_sql_param_bound (inner statement with a materialised value: one constant, token structure independent "
        "of the value; hypotheses Clean / contQuote on both levels, NUL-free inner text); numbers: number_token_exact_value, integer_literal_value; "
        "entry_options_exercised (MaterializeParameters run under both values) ",
    "bound parameters":
        "T-tie rows esc=bound (translate_sites_classified, user_text_rows_escaped): the value goes into Result.Parameters, the SQL text carries @pN only; "
        "tie: SQL text identical to the benign twin's and the parameter map carries exactly the supplied value; pgx's NamedArgs count = @name tokens (searched)",
    "kind names":
        "tie only: kinds are mapped to int2 ids by the kind mapper before they reach the SQL AST (literal rows kindIDs -> numbers; measured: 'ok unreached' for every "
        "hostile kind name); no theorem about the mapper (trusted: a registered kind yields an integer)",
    "variable names and result aliases reach PostgreSQL as ONE correctly quoted identifier":
        "identifier_fixed (for every name, bare or back-ticked, exactly one identifier token carrying the name; hypotheses Clean before, formatter's ' from …' or "
        "nothing after), identifier_quoted (back-ticked: any NUL-free name, contDQ after), identifier_bare / identifier_partial (bare: identFollow after), "
        "statement_tokens; generated names: C06 generated_names_never_user_keyed + rows esc=generated / lookup-key; T-tie format_write_sites_covered "
        "(formatIdentifier is the only identifier write; five verbatim writes exempt with reasons), symbols_never_rewritten",
    "token sequence outside those positions = the benign twin's":
        "statement_tokens + statement_twin_tokens (for any number of positions: same formatter tokens in the same places, one token per position; hypothesis "
        "wfSegs), pgQuote_shape_independent, nested_sql_param_bound; for the real statements: the twin comparison of suite c04 on every case (searched)",
    "value read back = value denoted, strings":
        "pgQuote_single_token gives back exactly s; decode_encode, decode_correct, decode_total_or_error (decoder = independent denotation, all tokens); "
        "like_escape_literal (LIKE operands); REFUTED INSTANCES (known findings): regex operand LIKE-escaped (C04:regex_operand:like-escaped-value), LIKE operand "
        "under a function left unescaped (C04:like_operand.function_lhs:unescaped-like-pattern) — named rows of known_findings_are_rows, facts like_guards",
    "value read back = value denoted, identifiers":
        "identifier_quoted (back-ticked names: exact); a bare name that is a reserved key word (pgReserved) is a key word token, not an identifier (monitor rule keyword-as-identifier; six known findings at the bare-name sites); bare names with upper-case letters are case-folded by the server: identifier_case_folded / c04_full_refuted "
        "(REFUTED INSTANCES, six known findings *:case-folded-identifier at projection.alias, projection.variable, count_fast_path.alias, "
        "aggregate_traversal_count.alias, builder.v2.alias, builder.v2.scope); exact for an emitter quoting every identifier: identifier_quote_all / c04_fixed",
    "value read back = value denoted, numbers":
        "number_token_exact_value (digits/decimal point -> one number token -> exact value, for all digit strings), integer_literal_value, "
        "number_literal_value_round_trip (UNDER the named assumption GoShortestRoundTrips64); format_number_calls (FormatFloat(v,'f',-1,64) and base 10 at every call "
        "site, regenerated); signs: twin only (searched)",
    "SQL fragments passed as text to the traversal functions":
        "nested_sql_param_bound (both mechanisms: bound parameter and re-quoted literal); rows kind=nested / param (formattedQuery -> bound) of "
        "translate_sites_classified; tie: nested SQL is lexed and compared recursively in suite c04",
    "the Cypher debug comment header (translate.FromCypher)":
        "comment_header_all_lines_commented, comment_header_invisible (for all NUL-free texts and both values of stripLiterals); tie: the real FromCypher text must "
        "equal commentHeader(real emitter text) ++ statement, under both option values (entry_options_exercised)",
    "builder entry points (names that do not pass the Cypher lexer)":
        "guard_ascii_table, builder_accepts_bare, builder_name_one_token (a name validateCypherSymbol accepts is one identifier token; the guard's rune classes are "
        "regenerated), guard_calls_in_place, unguarded_rows_named, outside_rows_no_finding; tie: every name-/value-taking function of query/v2 and query in suite c04",
    "the decoder rejects what denotes nothing": "decode_total_or_error, decode_correct",
    "refuted for the emitter before the F9 repair (12ac17c)": "identifier_verbatim_unsafe_old, c04_partial_old_refuted (the four *:unquoted-identifier entries are status fixed)",
    "searched only (tie)":
        "that the Lean transcriptions ARE the Go functions: suite c04q compares formatValue, formatIdentifier, NewStringLiteral, decodeCypherStringLiteral (through "
        "Translate), UnescapePropertyKeyName and Go's ParseFloat with the Lean functions on every generated string / decimal text (exact equality); that the "
        "translator puts user text ONLY into the modelled positions with clean surrounding text (wfSegs / Clean / contQuote hold for what the formatter really "
        "writes): suite c04, ~130 position templates x hostile strings x encodings x every boolean option, judged by the proved lexer against a benign twin; kind "
        "names -> ids; bound parameter values unchanged; pgx NamedArgs agreement; the lexer's fidelity to scan.l; signs of numbers; the extractor goext c04",
    "named assumptions":
        "standard_conforming_strings = on at the server (default since 9.1; DAWGS neither sets nor checks it; pgQuote_needs_scs_on shows the quoting is unsafe with off); "
        "GoShortestRoundTrips64 (strconv's shortest digits at 64 bits round back to the double — hypothesis of number_literal_value_round_trip); user text is NUL-free "
        "(the property's quantifier; the code passes NUL through, measured); valid UTF-8; outside the quantifier (observation only): identity property names of the pg "
        "driver's update batches, schema index/constraint names",
}

def do_regen(ctx):
    regen.c04_sites()


def _field(line, name):
    m = re.search(r"(?:^| )%s=(\S*)" % name, line)
    return m.group(1) if m else None


# ---- suite c04: the Lean driver is the monitor; its input is the harness's answer (both SQL texts) ----

def model_input(op, impl):
    return impl if impl.startswith("(r ") else "bad " + impl[:60]


def const_view(line):
    # nothing to diff line by line: the implementation answers with SQL, the model with a verdict on it
    if line.startswith("panic") or line in ("skipped", "bad-op", "harness-crash", "<missing>"):
        return line
    return "-"


def model_view(line):
    return "bad-op" if line == "bad-op" else "-"


def judge(op, impl, model):
    if impl.startswith("panic") or impl in ("harness-crash", "bad-op"):
        return "reject harness-" + impl.split()[0] + " " + impl[:120]
    if model.startswith("reject "):
        return model
    if model.startswith("ok "):
        return "ok"
    return "reject monitor-unavailable " + model[:80]


def nontrivial(ops, impl):
    # the translator accepted the hostile text (both twins translated to SQL)
    return any(r.count("(ok ") >= 2 for r in impl if r.startswith("(r ")) or any(r.startswith("pgq=") for r in impl)


def finding_key(suite, ops, line, msg):
    parts = msg.split()
    cls = parts[1] if len(parts) > 1 else "reject"
    site = _field(msg, "site") or suite["name"]
    if cls == "keyword-as-identifier":
        # a name the USER back-ticked (encoding bt) and the translator wrote without quotes is another failure than a
        # bare name that was never quoted (the registered findings): keyed apart so that the one cannot hide the other
        op = ops[line].split() if 0 <= line < len(ops) else []
        if len(op) > 2 and op[0] == "t" and op[2] == "bt":
            return "C04:%s:%s:backticked-name-written-bare" % (site, cls)
    return "C04:%s:%s" % (site, cls)


def extra_coverage(ctx, stats):
    """Per call site: how many cases reached the SQL text / were renamed away / rejected — measured, not assumed."""
    hist = collections.defaultdict(lambda: collections.Counter())
    p = ctx.path("c04_all.model")
    if os.path.exists(p):
        for l in open(p, errors="replace"):
            if l.startswith("ok ") or l.startswith("reject "):
                site = _field(l, "site") or "-"
                hist[site][" ".join(l.split()[:2])] += 1
    sites = {s: dict(sorted(c.items())) for s, c in sorted(hist.items())}
    reached = sorted(s for s, c in hist.items() if c.get("ok reached", 0) or any(k.startswith("reject") for k in c))
    renamed = sorted(s for s, c in hist.items() if c.get("ok unreached", 0) and not c.get("ok reached", 0) and not any(k.startswith("reject") for k in c))
    # positions outside the property's quantifier: recorded, never rejected
    outside = {}
    ops_p = ctx.path("c04.ops")
    if os.path.exists(p) and os.path.exists(ops_p):
        for op, l in zip(open(ops_p, errors="replace"), open(p, errors="replace")):
            if l.startswith("ok outside-quantifier"):
                site = _field(l, "site") or "-"
                o = outside.setdefault(site, {"site": site, "count": 0, "replay_op": op.strip()[:300],
                                              "how_to_replay": "./check C04 --replay <file with {\"suite\": \"c04\", \"ops\": [\"# case obs\", <replay_op>]}> (prints both SQL texts and the monitor's line)",
                                              "observed": l.split(" tmpl=", 1)[-1].strip()[:400],
                                              "why_outside": "driver batch API argument (graph.NodeUpdate / RelationshipUpdate IdentityProperties), not a position of an accepted query"})
                o["count"] += 1
    return {"per_site": sites, "sites_reaching_sql_text": reached, "sites_never_reaching_sql_text": renamed,
            "observations": {"outside_quantifier": sorted(outside.values(), key=lambda o: o["site"])},
            "clause_map": CLAUSES,
            "full_statement": "def C04_full (Props/C04.lean) = ValuesSafe ∧ IdentOneToken emitIdent identValue: refuted by case folding (c04_full_refuted); "
                              "C04_partial (c04_partial) holds for the code as it is; C04_fixed (c04_fixed) for an emitter quoting every identifier",
            "stated_goals_not_proved": ["kind names -> ids (tie only)", "strconv shortest-digits property (named assumption)", "signs of numbers (twin only)"]}


SPEC = {
    "id": "C04",
    "title": "user-controlled text cannot change the token structure of emitted SQL",
    "level": "proof",
    "fallback_level": "other",
    "regen": do_regen,
    "lean_modules": ["Dawgs.Props.C04", "Dawgs.Props.C04Sites"],
    "theorems_by_module": THEOREMS,
    "gate_modules": ["Dawgs.Model.C04", "Dawgs.Spec.C04", "Dawgs.Proofs.C04", "Dawgs.Props.C04", "Dawgs.Props.C04Sites"],
    "suites": [
        {"name": "c04q", "model_suite": "c04q", "keep_prefix": 1, "thorough_seeds": 1},
        {"name": "c04", "model_suite": "c04", "model_input": model_input, "impl_view": const_view, "model_view": model_view,
         "judge": judge, "keep_prefix": 1, "thorough_seeds": 1},
    ],
    "nontrivial": nontrivial,
    "finding_key": finding_key,
    "extra_coverage": extra_coverage,
    "rule": "suite c04: cases = syntactic position templates (string literal in WHERE/IN/list/property map/RETURN/SET/CREATE/function argument/quantifier, "
            "LIKE and regex operands, every literal type the formatter has a branch for (interval/duration, date/time constructors, lists of strings, nested lists; "
            "nested map literals are rejected by the translator today), property key incl. back-ticked, map key, kind name, variable name, result alias, parameter name, supplied parameter "
            "value bound (string, list, JSONB map incl. nested values and map keys) and materialised, text reaching the SQL handed to the shortest-path functions as bound parameter and as nested literal) x hostile "
            "strings (fixed list of quotes, backslashes, comment openers, dollar quotes, @name, semicolons, NUL-free control characters, non-BMP runes, "
            "64 KiB strings, trailing backslash/quote, one name per ASCII non-identifier character and per Unicode symbol/punctuation/mark/number category; plus random fragment concatenations from splitmix64(VERIF_SEED)) x Cypher encodings (single-quoted, "
            "double-quoted, escape sequences, bare, back-ticked); each case translates the hostile query and a benign twin with the real code and the Lean "
            "lexer compares the two SQL texts; every case runs under both values of every boolean option of the entry points (FromCypher / Cypher emitter stripLiterals, "
            "OutputBuilder MaterializeParameters and StripLiterals) and the FromCypher text must be the modelled comment header followed by the statement; numeric literal tokens (doubles with 8..17+ significant digits, integral doubles around 2^24 / 2^53 / 2^63, 1e21 and 1e-7, "
            "subnormals, the largest double, exponent forms, integers up to 2^63-1) and typed numeric parameter values (float64/float32/int*/uint*, bound and inlined under "
            "MaterializeParameters) must read back (numeric input, nearest float64 for doubles) as the value the token / the Go value denotes; a second family feeds the same texts to every name- and value-taking function of the query builders (query/v2 As, NewScope, "
            "Variable, NamedParameter, kinds, property names, SetProperties/RemoveProperties, values; query Variable, NodeProperty, values) and of the pg driver's "
            "statement builders without passing the Cypher lexer: the builder refuses the text or the emitted SQL is judged the same way (the identity property names of the "
            "driver's upsert batches are outside the quantifier: run for information only, see observations.outside_quantifier); non-trivial = both twins were translated; distinct = distinct op lines. suite c04q: every generated string "
            "through the real formatValue / formatIdentifier / NewStringLiteral / decodeCypherStringLiteral / UnescapePropertyKeyName vs the Lean functions, exact equality",
    "expected_branches": ["translated.num", "numbers", "opt.FromCypher.stripLiterals.true", "opt.FromCypher.stripLiterals.false", "opt.OutputBuilder.StripLiterals.true",
                          "opt.OutputBuilder.MaterializeParameters.true","translated.lit", "translated.key", "translated.ident", "translated.kindname", "translated.param", "translated.paramlist",
                          "rejected.ident", "decode.ok", "decode.err:decode-invalid-escape", "decode.err:decode-dangling", "decode.err:decode-bad-literal"],
    "trusted_base": [
        "the Lean lexer is written from PostgreSQL's scan.l. Modelled: '…' with '' and continuation across a newline, E'…' (backslash escapes), B'…'/X'…'/N'…', "
        "U&'…' and U&\"…\", \"…\" with \"\", $tag$…$tag$, $n, -- to \\n or \\r, nested /* */, operator maximal munch cut by -- and /* with the trailing +/- rule, "
        "@name as pgx rewrites it, NUL as end of text; standard_conforming_strings = on is the modelled default and = off is modelled separately (lexOff) to show "
        "pgQuote is unsafe there — DAWGS neither sets nor checks that server setting. Not modelled: '::' is two ':' tokens, numbers are digits with embedded dots "
        "(no exponent/hex/underscore forms), comments between continued string constants, UESCAPE clauses and Unicode-escape resolution (post-lexing), "
        "dollar-quote close matching is by suffix",
        "pgx NamedArgs rewriter = the '@name' token class (checked per case: number of arguments pgx rewrites = number of distinct @name tokens the lexer sees)",
        "identifiers: the lexer does not know key words; reserved words are excluded by the predicate identSafe only",
        "valid UTF-8 input (Go strings with invalid UTF-8 cannot be represented as Lean strings and are not generated)",
    ],
    "assumptions": [
        "numbers: Go's strconv shortest-digits property at 64 bits (GoShortestRoundTrips64: the digits FormatFloat(v,'f',-1,64) writes round back to v) is a NAMED ASSUMPTION of "
        "number_literal_value_round_trip; digits/decimal point -> token -> exact value is proved; bitSize 64 at every call site is a regenerated fact (format_number_calls); the "
        "Lean float8-input model (nearestF64Bits) is compared with Go's ParseFloat on every generated decimal text (suite c04q, op n); signs are checked through the twin only",
        "the server runs with standard_conforming_strings = on (default since PostgreSQL 9.1); with off, formatValue's quoting is unsafe (theorem pgQuote_needs_scs_on)",
        "user text is NUL-free (the property's quantifier); the real code passes NUL through unchanged — measured per site in branch 'ok excluded-nul'",
        "aliases/variables: one identifier token for every name (identifier_fixed: back-ticked symbols are written as quoted identifiers since the F9 repair, bare symbols "
        "verbatim); the value read back is the Cypher name except that unquoted names are case-folded (identifier_case_folded, known findings); the statement for the "
        "emitter before the repair is refuted (identifier_verbatim_unsafe_old)",
    ],
    "explanation": "Values (literals, keys, inlined parameters, nested SQL) are proved for all strings; the tie runs the real translator on hostile/benign twins per "
                   "position and the proved lexer judges the emitted text. The model's identifier emitter is format.go formatIdentifier (F9 repair); on a tree without that repair "
                   "the tie reports the unquoted-identifier shapes as violations and the c04q differential disagrees on back-ticked symbols. Clause by clause: coverage.clause_map.",
}

MANIFEST = {
    "category": "proof",
    "technique": "Lean 4 theorems over all strings / names / digit strings about a PostgreSQL lexer model and the transcribed quoting, decoding, identifier and number "
                 "formatting functions; regenerated site tables (formatter writes, translator construction sites, builder entry points, options, number calls) checked by "
                 "the kernel; differential tie of every transcribed function; per-position hostile/benign twin translation judged by the proved lexer",
    "text": "Proved for ALL inputs (no length bound), each with the hypotheses named here. Strings: for every NUL-free string, the text formatValue writes is exactly one string "
            "constant whose value is the string, provided the formatter's text before it leaves the lexer in no open token and the text after it does not re-open the "
            "constant, and the server runs with standard_conforming_strings = on (pgQuote_single_token / pgQuote_in_context; pgQuote_needs_scs_on shows the last hypothesis "
            "is needed); the Cypher literal decoder accepts exactly the tokens that denote a string and inverts NewStringLiteral; property / map keys are single constants in "
            "every position the formatter writes them; inner SQL handed to the traversal functions (bound parameter and re-quoted literal) keeps its token structure whatever "
            "the inner value. Identifiers: formatIdentifier writes a back-ticked symbol as a quoted identifier (exact name, any NUL-free name) and a bare symbol verbatim, "
            "exactly one identifier token for every name (identifier_fixed); names accepted by the query/v2 builder's symbol guard are bare names "
            "(builder_name_one_token, guard classes regenerated). A whole statement with any number of user positions has the formatter's own tokens plus exactly one "
            "token per position, so it differs from its benign twin only in those values (statement_tokens, statement_twin_tokens; hypothesis wfSegs about the formatter's "
            "text). The debug comment header of FromCypher is invisible to the lexer for every text and both values of stripLiterals. Numbers: the text written for "
            "digits/decimal point is one number token whose exact value is those digits; that a double reads back as itself additionally ASSUMES strconv's shortest-digits "
            "property at 64 bits (GoShortestRoundTrips64), with bitSize 64 at every call site as a regenerated fact. NOT proved, refuted by witness and listed as the eight "
            "known findings: exact read-back of unquoted names with upper-case letters (six sites), LIKE escaping applied to regex operands, LIKE operands under a "
            "function left unescaped. Tie only: kind names become integer ids; bound parameter values; that the translator's surrounding text satisfies the theorems' "
            "hypotheses (checked on ~130 position templates x hostile strings x every boolean option by the twin comparison). See coverage.clause_map.",
    "note": "Trusted: Lean kernel, the lexer's fidelity to scan.l (simplifications listed in the evidence), pgx's NamedArgs rewriter (count checked per case), the syntactic "
            "extractor goext c04. Named assumptions: standard_conforming_strings = on; GoShortestRoundTrips64; NUL-free valid UTF-8 user text. T-tie: every Write argument of "
            "the formatter, every identifier/alias/LIKE/nested-SQL/parameter/column-list construction site, every builder entry point with its guard, every option parameter "
            "and every number-formatting call is regenerated per run and must be covered by a modelled function, an exempt row with its reason, or a named known finding. "
            "The four unquoted-identifier findings (F9) are fixed in 12ac17c; the model's emitter is the repaired one and the old emitter's refutation is kept (…_old). "
            "Observation (outside the quantifier, not a finding): drivers/pg/query formatConflictMatcher writes the identity property names of update batches between "
            "apostrophes without quote doubling — driver batch API, not query text; recorded in observations.outside_quantifier with a replay.",
}
