import os
from verif import VERIF, REPO, LEAN, GOENV, sh

THEOREMS = {
    "Dawgs.Props.C20": ["Dawgs.C20.Props." + t for t in [
        "clean_spec", "sanitize_safe", "sanitize_rejects",
        "extract_regular_only", "extract_no_overwrite", "extract_confined",
        "frames_authentic", "frames_tamper_rejected", "wrong_key_rejected", "symAead_free",
        "eof_check_contract", "eof_check_err_first_unsound", "frames_authentic_any_reader", "zero_length_frame_rejected", "manifest_decode_total_input",
        "archive_load_no_write_before_failure",
        "verify_before_write", "fragment_mutation_rejected", "manifest_edit_safe", "count_edit_consistent_rejected", "preflight_is_per_graph", "preflight_ids_unique", "extracted_collection_verified",
        "staging_promote_atomic", "unpack_staged_no_partial",
        "unpack_plain_partial_output_old", "unpack_enc_direct_partial_output", "unpack_plain_fixed",
        "c20_core", "c20_full_refuted", "c20_fixed", "c20_partial",
    ]],
    "Dawgs.Tie.C20": ["Dawgs.C20.Tie." + t for t in [
        "load_order", "verify_covers_all", "verify_comparisons", "extracted_validation_keys", "read_sites_n_first", "frame_no_accept_before_open", "json_decoders_total", "extract_guards", "frame_aad_binds", "unpack_stages",
    ]],
}

GENERATED = os.path.join(LEAN, "Dawgs", "Generated", "C20_order.lean")


def regen(ctx):
    """T-tie: delete and regenerate the fact table from the current source of retriever/*.go."""
    try:
        os.remove(GENERATED)
    except FileNotFoundError:
        pass
    rc, out = sh(["go", "run", ".", REPO, GENERATED], cwd=os.path.join(VERIF, "tools", "extract", "c20"), env=GOENV, timeout=600)
    if rc != 0 or not os.path.exists(GENERATED):
        raise RuntimeError("c20 extractor failed: " + out[-800:])


def nontrivial(ops, impl):
    """c20: the case both accepts something (pristine / harmless edit) and rejects a mutation with an empty
    mutation log, or exercises an unpack that fails safely; c20path: names accepted and rejected in the same
    case; c20frames: an accepted honest sequence and a rejected tampered one."""
    acc = rej = False
    for o, r in zip(ops, impl):
        if o.startswith("#") or o.startswith("dump"):
            continue
        if r.startswith("ok"):
            acc = True
        elif r.startswith("err"):
            rej = True
    return acc and rej


API = {"plain": "UnpackTar", "plainforce": "UnpackTar", "encdirect": "UnpackEncryptedCollectionArchive",
       "staged": "Unpack", "stagedforce": "Unpack"}
SHAPE = {
    ("UnpackTar", "partial-output"): "partial-output-on-late-entry-error",
    ("UnpackEncryptedCollectionArchive", "partial-output"): "output-left-on-late-stream-error",
}


def frames_judge(op, impl, model):
    """Suite c20frames: the model is the frame protocol proved authentic over an ideal AEAD (frames_authentic /
    frames_tamper_rejected: it accepts exactly the stream the writer produced, under the header bytes the writer hashed).
    A script the model refuses is therefore a stream that was NOT produced by the writer (other header bytes, other
    frames, other tail); a reader that answers ok to it has accepted tampered input - a failing input of C20, not only
    a disagreement.  The converse (reader refuses what the model accepts) stays an ordinary disagreement."""
    if impl.startswith("panic"):
        return "reject panic " + impl[:80].replace(" ", "_")
    if impl.startswith("ok") and model.strip().startswith("err"):
        return "reject tampered-stream-accepted reader=%s protocol=%s" % (impl[:60].replace(" ", "_"), model.strip()[:60].replace(" ", "_"))
    return "ok"


def finding_key(suite, ops, line, msg):
    words = msg.split()
    cls = words[1] if len(words) > 1 else "reject"
    op = ops[line].split() if 0 <= line < len(ops) else ["?"]
    if op[0] == "with" and len(op) > 2:   # reader behaviour wrapper: the finding is that of the wrapped op
        op = op[2:]
    if op[0] in ("tar", "uarc", "umtail", "uins"):
        api = API.get(op[1].split("+")[0], op[1]) if len(op) > 1 else "?"
        return "C20:%s:%s" % (api, SHAPE.get((api, cls), cls))
    if op[0] == "path":
        return "C20:sanitizeArchivePath:%s" % cls
    if op[0] in ("frames", "framesr"):
        return "C20:encryptedArchiveReader:%s" % cls
    if op[0] in ("arc", "arckey", "arcins"):
        return "C20:Load(archive):%s" % cls
    return "C20:Load:%s" % cls


# Clause map: the statement of properties.jsonl split into clauses -> the theorem(s) that carry each clause for ALL
# inputs, with the hypotheses they carry, or "searched only" / "tie only" with the reason.
CLAUSES = {
    "fragment bytes differ (flipped, truncated, extended, substituted, swapped, removed) => Load fails before any write":
        "fragment_mutation_rejected [hyp: the digest is collision-free on the two byte strings involved] + verify_before_write (every batch is preceded by "
        "verification of ALL fragments: presence, length, digest, decodability, record count); source shape: Tie.load_order, Tie.verify_covers_all, "
        "Tie.verify_comparisons (count / size / digest compared by !=, not by an ordering)",
    "fragment substituted by a re-encoded, RE-HASHED one (manifest digest and sizes updated) whose records are inconsistent => rejected before any write":
        "preflight_is_per_graph (accept => both endpoints of every edge are node ids of the SAME graph; cross-graph and dangling endpoints refused) and "
        "preflight_ids_unique (accept => node ids of each graph pairwise distinct) [hyp of both: the record checker is idCheck started empty per graph - "
        "Tie.verify_covers_all: resolverScope = per-graph]; a re-hashed fragment whose records are CONSISTENT is a different valid collection: the manifest "
        "is not authenticated, no claim (named assumption)",
    "manifest differs: counts, hashes, sizes, paths, codec, totals":
        "manifest_edit_safe (ANY manifest with an entry the directory does not back is refused before a write: count, sha256, compressed_bytes, missing "
        "path, undecodable or unknown codec, graph_count, node/edge totals; a path pointing at another file only passes with identical bytes [hyp: collision-"
        "free digest]) + count_edit_consistent_rejected (count lowered or raised together with the totals) + load_rejects_unbound via c20_core",
    "manifest differs: bytes before / after the JSON value":
        "manifest_decode_total_input [hyp: the JSON value parser reads a prefix]: the extended file decodes iff the tail is JSON white space only; "
        "Tie.json_decoders_total (Unmarshal on the whole slice)",
    "manifest differs but stays self-consistent (white space, unbound fields, path aliases, entries reordered) => may load, graph must be the original":
        "searched only: every such edit of the generator must give `ok` with a graph equal to the original up to ids and creation order (monitor); the model "
        "of Load does not read the unbound fields (listed in manifest_edit_safe's docstring), there is no Lean JSON model",
    "archive frames differ: truncated, extended, reordered, duplicated, spliced across archives, frames inserted, type flipped":
        "frames_authentic / frames_tamper_rejected (accepted stream = exactly the written one, header hash included) [hyp: symbolic AEAD law openIt<->sealIt, "
        "Aead.Free (sealing injective in key, AAD, plaintext), no forgery: every ciphertext valid under the key was produced by the writer, one archive per key]; "
        "frames_authentic_any_reader + eof_check_contract (whatever chunking a contract-abiding io.Reader uses; err-first order refuted: "
        "eof_check_err_first_unsound); zero_length_frame_rejected [hyp: sealed ciphertexts carry a tag of tagLen > 0 bytes]; source shape: Tie.frame_aad_binds, "
        "Tie.read_sites_n_first, Tie.frame_no_accept_before_open",
    "archive bytes differ at byte level (magic, header length, header JSON, base64 key, length fields, ciphertext bits)":
        "searched only: every byte substitution / truncation length / appended tail of real archives (exhaustive in the thorough tier) must give an error with an "
        "empty mutation log; the byte framing, JSON header and base64 are not modelled (the model starts at whole frames with a tail flag)",
    "key material: an encrypted archive opens only with the matching private key":
        "wrong_key_rejected [hyp: Aead.Free; that another private key yields another AEAD key is the KEM's correctness, trusted]; malformed key files "
        "(truncated, wrong type / format / KEM, public key in place of private, not base64): searched only; a key file followed by extra bytes parses to the "
        "same key (decoder takes the first value: recorded in Tie.json_decoders_total, judged as harmless)",
    "before any node or relationship is written (directory load)":
        "verify_before_write, load_batch_implies / load_no_batch_of_fail (c20_core clause a); Tie.load_order ties the statement order of Load; the fake "
        "database's write-attempt log must be empty on every rejected input (monitor)",
    "before any node or relationship is written (archive load)":
        "archive_load_no_write_before_failure on the Lean composition loadArchive (envelope reader readFramesVia -> tar stream of the chunks -> extraction and "
        "collection validation into the private temp directory -> directory load of the unpacked collection): a failure of ANY stage leaves the trace without "
        "a batch; success => the result IS the directory load of the unpacked collection (verify_before_write applies verbatim) and, under the AEAD hypotheses "
        "[Aead.Free, no forgery, contract-abiding probe], the accepted stream is exactly the written one; [abstract: tar parser `untar`, directory view of the "
        "temp dir, JSON value parser; the real reader is lazy, the composition is its outcome]. Tie: every `arc...` case - `err` must come with an empty write "
        "log, an accepted archive load must show the write count of the case's directory load (monitor state)",
    "no partial output left in the destination: Unpack (staged, forced)":
        "staging_promote_atomic (every intermediate state: destination old / absent between the two renames / complete and validated; failure => initial "
        "state) + unpack_staged_no_partial, for every validator and frame outcome; extracted_collection_verified [hyp: manifest validates] (accept => every "
        "manifest file was extracted under its own path with the manifest's size and digest); Tie.unpack_stages, Tie.extracted_validation_keys",
    "no partial output left in the destination: plain UnpackTar":
        "unpack_plain_fixed (live: staged since commit 1a3806b; Tie.unpack_stages + Tie.extract_guards pin the staged shape); "
        "unpack_plain_partial_output_old keeps the refutation for the pre-repair definition",
    "no partial output left in the destination: direct UnpackEncryptedCollectionArchive":
        "REFUTED: unpack_enc_direct_partial_output (witness), c20_full_refuted; known finding "
        "C20:UnpackEncryptedCollectionArchive:output-left-on-late-stream-error replayed every run; what holds: c20_partial (whatever is left is a complete "
        "regular entry at a sanitised path inside the destination); c20_fixed proves the clause for the staged replacement (hooks/C20-fix2.patch proposed)",
    "never creates or overwrites a file outside the output directory, whatever entry names":
        "sanitize_safe (ALL strings: accepted => non-empty, relative, no backslash, no empty / . / .. component, Clean(out/p) = Clean(out)/p for every "
        "absolute out) + sanitize_rejects + clean_spec (path.Clean model: shape and idempotence) + extract_confined; valid UTF-8 names only (assumption)",
    "... whatever link types or sizes the archive declares":
        "extract_regular_only (only complete bodies of typeflag '0' / NUL entries, at sanitised paths; links, devices, fifos, directories, short or oversize "
        "bodies create nothing that stays) + extract_no_overwrite (O_EXCL + duplicate-name refusal; for every extra refusal of the OS); Tie.extract_guards",
    "searched only (tie)":
        "that the Lean transcriptions are what the Go code does: c20path (sanitizeArchivePath, path.Clean, filepath.Join, lookup-key agreement on every "
        "generated and every short string), c20frames (real HPKE reader vs model on every frame script x reader behaviour) are line-diffed; Load, the "
        "extraction loop and the unpack protocols are judged on observables (write log, sentinel tree, destination listing, graph equality) - no line diff; "
        "byte-level archive / manifest / fragment mutations, tar parsing, codecs, JSON, malformed keys, invalid UTF-8 names; the fact tables of Tie.* are "
        "syntactic (go/ast) and are cross-checked by seeded regressions (rounds 1-4 in corpus/C20)",
    "named assumptions":
        "symbolic ideal AEAD with a fresh key per archive (HPKE / ML-KEM / AES-GCM trusted); SHA-256 collision-free on the inputs of one run; the manifest is "
        "NOT authenticated: a consistently re-written collection (re-hashed fragments with valid records, dropped graphs) is a different valid input; the input "
        "directory does not change between the verification pass and the load pass; unix path semantics, valid UTF-8 names in the proofs; frame index does not "
        "wrap; a reader error other than EOF aborts",
}


def extra_coverage(ctx, stats):
    """Small-scope enumerations: measured count next to the closed formula (exhaustive = they agree)."""
    L = 4 if ctx.tier == "quick" else 6
    seeds = 1 if ctx.tier == "quick" else 2
    want_paths = sum(7 ** k for k in range(L + 1)) * seeds
    got_paths = stats.get("gen.gen.exhaustive_paths", 0)
    Lf = 4 if ctx.tier == "quick" else 5
    want_scripts = (sum(7 ** k for k in range(1, Lf + 1)) + sum(7 ** k for k in range(1, (3 if ctx.tier == "quick" else Lf) + 1))) * seeds
    got_scripts = stats.get("gen.gen.exhaustive_scripts", 0)
    return {
        "clause_map": CLAUSES,
        "refuted_instances": ["no-partial-output for the direct UnpackEncryptedCollectionArchive (unpack_enc_direct_partial_output, c20_full_refuted)"],
        "small_scope": {
            "paths_over_7_symbols_up_to_len_%d" % L: {"enumerated": got_paths, "formula": want_paths},
            "frame_sequences_over_7_frames_up_to_len_%d" % Lf: {"enumerated": got_scripts, "formula": want_scripts},
        },
        "exhaustive": got_paths == want_paths and got_scripts == want_scripts,
        "byte_mutations": {k: stats.get("gen.gen." + k, 0) for k in ("sub", "sub_digit", "trunc", "append", "swapcopy", "man_file", "man_consistent", "semantic_edge", "semantic_dup", "uarc", "mtail", "umtail", "reader_ops", "arcins", "uins", "arc_sub", "arc_trunc", "tar_name_type", "tar_enc")},
    }


SPEC = {
    "extra_coverage": extra_coverage,
    "id": "C20",
    "title": "corrupt, tampered or hostile dump input is rejected before it can do harm",
    "level": "proof",
    "regen": regen,
    "lean_modules": ["Dawgs.Props.C20", "Dawgs.Tie.C20"],
    "theorems_by_module": THEOREMS,
    "gate_modules": ["Dawgs.Model.C20", "Dawgs.Spec.C20", "Dawgs.Proofs.C20", "Dawgs.Props.C20", "Dawgs.Tie.C20",
                     "Dawgs.Generated.C20_order", "Driver.C20", "Driver.C20Mon"],
    "suites": [
        {"name": "c20path", "model_suite": "c20path", "monitor_suite": "c20pathmon", "keep_prefix": 2},
        {"name": "c20frames", "model_suite": "c20frames", "judge": frames_judge, "keep_prefix": 2},
        {"name": "c20", "monitor_suite": "c20mon", "keep_prefix": 2, "shrink_budget": 60, "thorough_seeds": 1},
    ],
    "nontrivial": nontrivial,
    "finding_key": finding_key,
    "rule": "c20: per codec {none,gzip,zstd} a real Dump of a 2-graph database through an in-memory graph.Database, then every "
            "single-byte substitution (quick: all bytes of manifest.json for one codec + every 5th/7th byte elsewhere; thorough: every byte of "
            "every file x 4 xor masks), every truncation length (quick: ~150 per file), appended garbage, fragment swap/duplication/removal, "
            "single manifest field edits (counts, hashes, paths, codec, phases, unbound fields), CONSISTENT multi-field edits (fragment count with the graph "
            "totals and metrics lowered/raised by 1..k, digest/size pairs, path swaps, whole-entry swaps) under Load batch sizes 1/2/3/1000 from a directory "
            "and re-packed through ArchiveReader, byte mutations of the encrypted archive given to Load, "
            "wrong/malformed keys, random small dumps; manifest.json extended / prefixed (brace, NUL, text, second document, BOM, white space) for directory "
            "load, archive load and Unpack, key files followed by extra bytes; frames nobody sealed (every type, declared length 0, 1..15, 16, 17, limit, limit+1) inserted at every frame boundary of real "
            "archives (Load, Unpack, direct API) and of the c20frames scripts; the archive stream cases again through six io.Reader behaviours (plain, data "
            "together with EOF, one byte, half reads, (0,nil) first, transient error); re-hashed (semantically consistent) tampering over 3-graph dumps in five id spellings "
            "(decimal, element id, UUID, zero padded, ids shared between graphs): every edge endpoint re-pointed to a node of another graph or to "
            "no node, duplicate node ids, directory and ArchiveReader input; hostile encrypted archives built with the public key whose manifest spells "
            "a fragment path in 8 ways that sanitise to the same entry x fragment altered 5 ways x {Unpack, Unpack force, direct API}; each mutation = fresh temp dir + fresh fake DB + real Load; tar: hostile names x entry types "
            "x {UnpackTar, UnpackEncryptedCollectionArchive, Unpack} x destination {absent,empty,full} inside a hashed sentinel tree. "
            "c20path: hostile-name generator + all strings over {. / a space \\ : C} up to length 4 (6 thorough) through sanitizeArchivePath and the Lean model. "
            "c20frames: all frame sequences up to length 4 (5) over the frames of two real archives + random perturbations, real reader vs Lean model. "
            "A case is non-trivial when it contains both an accepted and a rejected input; distinct = distinct op-line sequences (sha1).",
    "expected_branches": ["branch.load.ok", "branch.load.err", "errclass.checksum", "errclass.bytecount", "errclass.manifest-validate",
                          "errclass.count", "arcmans.built", "uarc.built", "op.edge", "op.dupnode", "errclass.dangling-endpoint", "errclass.duplicate-id", "reader.dataerr", "reader.onebyte", "reader.half", "reader.zero", "reader.timeout", "op.mtail", "op.umtail", "op.arcins", "op.uins", "errclass.frame-decrypt", "errclass.frame-missing-final", "errclass.frame-trailing", "branch.key.rejected-at-parse",
                          "branch.key.parsed", "branch.unpack.plain.err", "branch.unpack.staged.err", "branch.unpack.staged.ok",
                          "branch.unpack.encdirect.err", "unpackclass.path-traversal", "unpackclass.path-absolute", "unpackclass.path-backslash",
                          "unpackclass.not-regular", "unpackclass.duplicate", "unpackclass.write", "unpackclass.create",
                          "branch.path.ok", "branch.path.err.traversal", "branch.path.err.invalid", "branch.path.err.absolute",
                          "branch.path.err.backslash", "branch.path.err.empty", "branch.frames.ok", "branch.frames.err.decrypt",
                          "branch.frames.err.missing-final", "branch.frames.err.trailing", "branch.frames.err.bad-type", "branch.frames.err.short-frame"],
    "trusted_base": [
        "crypto primitives (HPKE / ML-KEM-1024 / HKDF / AES-256-GCM): modelled as a symbolic ideal AEAD whose key is fresh per archive",
        "SHA-256: modelled as collision-free on the inputs of one run (hypothesis of the theorems that need it)",
        "archive/tar parsing, gzip/zstd codecs, encoding/json: modelled as partial decoders; exercised by the mutation tie",
        "the operating system's O_EXCL / rename semantics",
        "tools/extract/c20 (go/ast fact extractor, purely syntactic; its behavioural consequences are cross-checked by the mutation tie)",
        "harness/c20_fakedb.go: in-memory graph.Database recording every write attempt",
    ],
    "assumptions": [
        "names are valid UTF-8 in the Lean model (Go byte tests coincide with character tests there); invalid UTF-8 names are only searched",
        "unix path semantics (filepath.IsAbs = path.IsAbs); a cleaned name such as `C:x` (from `./C:x`) is accepted and would matter on Windows only",
        "the input directory does not change between the verification pass and the load pass of one Load call (no TOCTOU model)",
        "frame index does not wrap (2^64 frames)",
        "byte-level mutation coverage is exhaustive only for the small dumps of the thorough tier; it supports the tie, it is not the proof",
    ],
    "explanation": "Lean: path.Clean / sanitizeArchivePath for all strings, extraction loop, frame protocol over a symbolic AEAD, Load ordering, "
                   "staging protocol; plain UnpackTar is modelled as the staged protocol it now is (F11 repaired; the old unstaged definition keeps its "
                   "refutation as unpack_plain_partial_output_old); the direct UnpackEncryptedCollectionArchive still leaves output behind on a late "
                   "error: modelled as it is, refuted by witness, proved for the staged variant.",
}

MANIFEST = {
    "category": "proof",
    "technique": "Lean 4 proofs on transcribed models (path sanitiser and path.Clean for all strings, extraction loop, frame protocol over a symbolic ideal "
                 "AEAD and over the io.Reader contract, Load ordering and record preflight, manifest decoding, extracted-collection validation, staging "
                 "protocol) + go/ast fact tables re-proved by decide + exhaustive byte-mutation / hostile-archive / reader-behaviour correspondence with the Go code",
    "text": "Per clause (coverage.clause_map in the evidence): (names) for ALL valid-UTF-8 strings whatever sanitizeArchivePath accepts is a non-empty relative "
            "path with only ordinary components whose join with any absolute output directory is literally inside it; the extraction loop creates complete "
            "bodies of regular entries only, never overwrites, only at sanitised paths, for every extra refusal of the OS. (frames) over a symbolic ideal AEAD "
            "with freeness and no-forgery hypotheses an accepted frame stream is exactly the written one - truncation, extension, reordering, duplication, "
            "splicing, inserted frames (zero-length included, given a non-empty tag) and a wrong key are refused - whatever chunking a contract-abiding "
            "io.Reader uses. (load) every BatchOperation of the Load model is preceded by verification of ALL fragments; changed fragment bytes are refused "
            "under a collision-free digest; any manifest entry the directory does not back (count, digest, size, path, codec, totals - also lowered "
            "consistently) is refused before a write; re-hashed fragments with cross-graph / dangling endpoints or duplicate ids are refused by the per-graph "
            "preflight; manifest.json must be the whole file up to JSON white space (for a prefix-reading parser). (unpack) the staged Unpack and, since "
            "commit 1a3806b, plain UnpackTar never expose or leave a partial destination, and an accepted collection has every manifest file under its own "
            "path with the manifest's size and digest. REFUTED: the direct UnpackEncryptedCollectionArchive leaves its extraction behind on a late stream "
            "error (known finding, replayed every run; proved for the staged replacement). Source shapes (statement order of Load, comparison operators, "
            "resolver scope, O_EXCL, typeflag allow-list, AAD, n-before-err, no return before Open, decoder shapes, staging order) are re-extracted every run.",
    "note": "Hypotheses are part of the claim: symbolic AEAD (law, freeness, no forgery, fresh key per archive), SHA-256 collision-free on the inputs of a "
            "run, valid UTF-8 names, unix paths, prefix-reading JSON parser, unchanged input directory during one Load. The manifest is not authenticated: "
            "a consistently re-written collection is a different valid input. Searched only: byte-level mutations of archives / manifests / fragments "
            "(exhaustive on small dumps in the thorough tier), tar / codec / JSON parsing, malformed key files, self-consistent manifest edits (graph must "
            "equal the original), invalid UTF-8 names; the archive load is proved on the Lean composition loadArchive (tar parser and directory view abstract). Load / unpack models are tied on observables, path and frame models by line diff.",
}
