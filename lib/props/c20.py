import os
from verif import VERIF, REPO, LEAN, GOENV, sh

THEOREMS = {
    "Dawgs.Props.C20": ["Dawgs.C20.Props." + t for t in [
        "clean_spec", "sanitize_safe", "sanitize_rejects",
        "extract_regular_only", "extract_no_overwrite", "extract_confined",
        "frames_authentic", "frames_tamper_rejected", "wrong_key_rejected", "symAead_free",
        "eof_check_contract", "eof_check_err_first_unsound", "frames_authentic_any_reader", "zero_length_frame_rejected", "manifest_decode_total_input",
        "verify_before_write", "fragment_mutation_rejected", "manifest_edit_safe", "count_edit_consistent_rejected", "preflight_is_per_graph", "extracted_collection_verified",
        "staging_promote_atomic", "unpack_staged_no_partial",
        "unpack_plain_partial_output_old", "unpack_enc_direct_partial_output", "unpack_plain_fixed",
        "c20_core", "c20_full_refuted", "c20_fixed", "c20_partial",
    ]],
    "Dawgs.Tie.C20": ["Dawgs.C20.Tie." + t for t in [
        "load_order", "verify_covers_all", "verify_comparisons", "extracted_validation_keys", "read_sites_n_first", "frame_no_accept_before_open", "json_decoders_total", "extract_guards", "frame_aad_binds", "unpack_stages",
    ]],
}

GENERATED = os.path.join(LEAN, "Dawgs", "Generated", "C20_order.lean")


def regen(ctx):
    """T-tie: delete and regenerate the fact table from the current source of retriever/*.go."""
    try:
        os.remove(GENERATED)
    except FileNotFoundError:
        pass
    rc, out = sh(["go", "run", ".", REPO, GENERATED], cwd=os.path.join(VERIF, "tools", "extract", "c20"), env=GOENV, timeout=600)
    if rc != 0 or not os.path.exists(GENERATED):
        raise RuntimeError("c20 extractor failed: " + out[-800:])


def nontrivial(ops, impl):
    """c20: the case both accepts something (pristine / harmless edit) and rejects a mutation with an empty
    mutation log, or exercises an unpack that fails safely; c20path: names accepted and rejected in the same
    case; c20frames: an accepted honest sequence and a rejected tampered one."""
    acc = rej = False
    for o, r in zip(ops, impl):
        if o.startswith("#") or o.startswith("dump"):
            continue
        if r.startswith("ok"):
            acc = True
        elif r.startswith("err"):
            rej = True
    return acc and rej


API = {"plain": "UnpackTar", "plainforce": "UnpackTar", "encdirect": "UnpackEncryptedCollectionArchive",
       "staged": "Unpack", "stagedforce": "Unpack"}
SHAPE = {
    ("UnpackTar", "partial-output"): "partial-output-on-late-entry-error",
    ("UnpackEncryptedCollectionArchive", "partial-output"): "output-left-on-late-stream-error",
}


def finding_key(suite, ops, line, msg):
    words = msg.split()
    cls = words[1] if len(words) > 1 else "reject"
    op = ops[line].split() if 0 <= line < len(ops) else ["?"]
    if op[0] == "with" and len(op) > 2:   # reader behaviour wrapper: the finding is that of the wrapped op
        op = op[2:]
    if op[0] in ("tar", "uarc", "umtail", "uins"):
        api = API.get(op[1].split("+")[0], op[1]) if len(op) > 1 else "?"
        return "C20:%s:%s" % (api, SHAPE.get((api, cls), cls))
    if op[0] == "path":
        return "C20:sanitizeArchivePath:%s" % cls
    if op[0] in ("frames", "framesr"):
        return "C20:encryptedArchiveReader:%s" % cls
    if op[0] in ("arc", "arckey", "arcins"):
        return "C20:Load(archive):%s" % cls
    return "C20:Load:%s" % cls


def extra_coverage(ctx, stats):
    """Small-scope enumerations: measured count next to the closed formula (exhaustive = they agree)."""
    L = 4 if ctx.tier == "quick" else 6
    seeds = 1 if ctx.tier == "quick" else 2
    want_paths = sum(7 ** k for k in range(L + 1)) * seeds
    got_paths = stats.get("gen.gen.exhaustive_paths", 0)
    Lf = 4 if ctx.tier == "quick" else 5
    want_scripts = (sum(7 ** k for k in range(1, Lf + 1)) + sum(7 ** k for k in range(1, (3 if ctx.tier == "quick" else Lf) + 1))) * seeds
    got_scripts = stats.get("gen.gen.exhaustive_scripts", 0)
    return {
        "small_scope": {
            "paths_over_7_symbols_up_to_len_%d" % L: {"enumerated": got_paths, "formula": want_paths},
            "frame_sequences_over_7_frames_up_to_len_%d" % Lf: {"enumerated": got_scripts, "formula": want_scripts},
        },
        "exhaustive": got_paths == want_paths and got_scripts == want_scripts,
        "byte_mutations": {k: stats.get("gen.gen." + k, 0) for k in ("sub", "sub_digit", "trunc", "append", "swapcopy", "man_file", "man_consistent", "semantic_edge", "semantic_dup", "uarc", "mtail", "umtail", "reader_ops", "arcins", "uins", "arc_sub", "arc_trunc", "tar_name_type", "tar_enc")},
    }


SPEC = {
    "extra_coverage": extra_coverage,
    "id": "C20",
    "title": "corrupt, tampered or hostile dump input is rejected before it can do harm",
    "level": "proof",
    "regen": regen,
    "lean_modules": ["Dawgs.Props.C20", "Dawgs.Tie.C20"],
    "theorems_by_module": THEOREMS,
    "gate_modules": ["Dawgs.Model.C20", "Dawgs.Spec.C20", "Dawgs.Proofs.C20", "Dawgs.Props.C20", "Dawgs.Tie.C20",
                     "Dawgs.Generated.C20_order", "Driver.C20", "Driver.C20Mon"],
    "suites": [
        {"name": "c20path", "model_suite": "c20path", "monitor_suite": "c20pathmon", "keep_prefix": 2},
        {"name": "c20frames", "model_suite": "c20frames", "keep_prefix": 2},
        {"name": "c20", "monitor_suite": "c20mon", "keep_prefix": 2, "shrink_budget": 60, "thorough_seeds": 1},
    ],
    "nontrivial": nontrivial,
    "finding_key": finding_key,
    "rule": "c20: per codec {none,gzip,zstd} a real Dump of a 2-graph database through an in-memory graph.Database, then every "
            "single-byte substitution (quick: all bytes of manifest.json for one codec + every 5th/7th byte elsewhere; thorough: every byte of "
            "every file x 4 xor masks), every truncation length (quick: ~150 per file), appended garbage, fragment swap/duplication/removal, "
            "single manifest field edits (counts, hashes, paths, codec, phases, unbound fields), CONSISTENT multi-field edits (fragment count with the graph "
            "totals and metrics lowered/raised by 1..k, digest/size pairs, path swaps, whole-entry swaps) under Load batch sizes 1/2/3/1000 from a directory "
            "and re-packed through ArchiveReader, byte mutations of the encrypted archive given to Load, "
            "wrong/malformed keys, random small dumps; manifest.json extended / prefixed (brace, NUL, text, second document, BOM, white space) for directory "
            "load, archive load and Unpack, key files followed by extra bytes; frames nobody sealed (every type, declared length 0, 1..15, 16, 17, limit, limit+1) inserted at every frame boundary of real "
            "archives (Load, Unpack, direct API) and of the c20frames scripts; the archive stream cases again through six io.Reader behaviours (plain, data "
            "together with EOF, one byte, half reads, (0,nil) first, transient error); re-hashed (semantically consistent) tampering over 3-graph dumps in five id spellings "
            "(decimal, element id, UUID, zero padded, ids shared between graphs): every edge endpoint re-pointed to a node of another graph or to "
            "no node, duplicate node ids, directory and ArchiveReader input; hostile encrypted archives built with the public key whose manifest spells "
            "a fragment path in 8 ways that sanitise to the same entry x fragment altered 5 ways x {Unpack, Unpack force, direct API}; each mutation = fresh temp dir + fresh fake DB + real Load; tar: hostile names x entry types "
            "x {UnpackTar, UnpackEncryptedCollectionArchive, Unpack} x destination {absent,empty,full} inside a hashed sentinel tree. "
            "c20path: hostile-name generator + all strings over {. / a space \\ : C} up to length 4 (6 thorough) through sanitizeArchivePath and the Lean model. "
            "c20frames: all frame sequences up to length 4 (5) over the frames of two real archives + random perturbations, real reader vs Lean model. "
            "A case is non-trivial when it contains both an accepted and a rejected input; distinct = distinct op-line sequences (sha1).",
    "expected_branches": ["branch.load.ok", "branch.load.err", "errclass.checksum", "errclass.bytecount", "errclass.manifest-validate",
                          "errclass.count", "arcmans.built", "uarc.built", "op.edge", "op.dupnode", "errclass.dangling-endpoint", "errclass.duplicate-id", "reader.dataerr", "reader.onebyte", "reader.half", "reader.zero", "reader.timeout", "op.mtail", "op.umtail", "op.arcins", "op.uins", "errclass.frame-decrypt", "errclass.frame-missing-final", "errclass.frame-trailing", "branch.key.rejected-at-parse",
                          "branch.key.parsed", "branch.unpack.plain.err", "branch.unpack.staged.err", "branch.unpack.staged.ok",
                          "branch.unpack.encdirect.err", "unpackclass.path-traversal", "unpackclass.path-absolute", "unpackclass.path-backslash",
                          "unpackclass.not-regular", "unpackclass.duplicate", "unpackclass.write", "unpackclass.create",
                          "branch.path.ok", "branch.path.err.traversal", "branch.path.err.invalid", "branch.path.err.absolute",
                          "branch.path.err.backslash", "branch.path.err.empty", "branch.frames.ok", "branch.frames.err.decrypt",
                          "branch.frames.err.missing-final", "branch.frames.err.trailing", "branch.frames.err.bad-type", "branch.frames.err.short-frame"],
    "trusted_base": [
        "crypto primitives (HPKE / ML-KEM-1024 / HKDF / AES-256-GCM): modelled as a symbolic ideal AEAD whose key is fresh per archive",
        "SHA-256: modelled as collision-free on the inputs of one run (hypothesis of the theorems that need it)",
        "archive/tar parsing, gzip/zstd codecs, encoding/json: modelled as partial decoders; exercised by the mutation tie",
        "the operating system's O_EXCL / rename semantics",
        "tools/extract/c20 (go/ast fact extractor, purely syntactic; its behavioural consequences are cross-checked by the mutation tie)",
        "harness/c20_fakedb.go: in-memory graph.Database recording every write attempt",
    ],
    "assumptions": [
        "names are valid UTF-8 in the Lean model (Go byte tests coincide with character tests there); invalid UTF-8 names are only searched",
        "unix path semantics (filepath.IsAbs = path.IsAbs); a cleaned name such as `C:x` (from `./C:x`) is accepted and would matter on Windows only",
        "the input directory does not change between the verification pass and the load pass of one Load call (no TOCTOU model)",
        "frame index does not wrap (2^64 frames)",
        "byte-level mutation coverage is exhaustive only for the small dumps of the thorough tier; it supports the tie, it is not the proof",
    ],
    "explanation": "Lean: path.Clean / sanitizeArchivePath for all strings, extraction loop, frame protocol over a symbolic AEAD, Load ordering, "
                   "staging protocol; plain UnpackTar is modelled as the staged protocol it now is (F11 repaired; the old unstaged definition keeps its "
                   "refutation as unpack_plain_partial_output_old); the direct UnpackEncryptedCollectionArchive still leaves output behind on a late "
                   "error: modelled as it is, refuted by witness, proved for the staged variant.",
}

MANIFEST = {
    "category": "proof",
    "technique": "Lean 4 proofs on transcribed models (path sanitiser for all strings, extraction loop, frame protocol over a symbolic ideal AEAD, Load "
                 "ordering, staging protocol) + go/ast fact table re-proved by decide + exhaustive byte-mutation / hostile-archive correspondence with the Go code",
    "text": "Lean theorems, for ALL entry names: whatever sanitizeArchivePath accepts is a non-empty relative path without `..`, `.` or empty components "
            "whose join with any absolute output directory is literally inside it (Go's path.Clean modelled and compared on every generated name); the "
            "extraction loop creates regular files only, never overwrites (O_EXCL + duplicate refusal) and only at sanitised paths; for ALL frame "
            "sequences over a symbolic ideal AEAD an accepted sequence is exactly the written one (so truncation, extension, reordering, duplication, "
            "cross-archive splicing and a wrong key are rejected); in the model of Load every BatchOperation is preceded by successful verification "
            "of ALL fragments, a fragment whose bytes changed is rejected under collision-free digests, and any manifest whose count/hash/size/path/"
            "codec fields disagree with the directory is rejected before a write; the staged Unpack never exposes a partial destination. The statement "
            "order of Load, O_EXCL, the typeflag allow-list, the AAD composition and the staging order are re-extracted from the source on every run. "
            "Clause (c) holds for plain UnpackTar since the F11 repair (staging + promote; live theorem unpack_plain_fixed, source shape re-extracted "
            "every run) and is REFUTED for the direct UnpackEncryptedCollectionArchive only (known finding, replayed every run; proved for the staged Unpack).",
    "note": "Trusted: crypto primitives (symbolic AEAD), SHA-256 collision-freeness, archive/tar + codecs + JSON (partial decoders), OS O_EXCL/rename. "
            "Byte-level mutations are a search (exhaustive on small dumps in the thorough tier), not part of the proof. Unix paths only.",
}
