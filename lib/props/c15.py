import os

# Which DFS variant of the Lean model is compared with the implementation: "current" (the code as it is,
# F5 included) or "fixed" (after hooks/C15-fix.patch has been committed to /repo). Flip this constant when
# the fix lands (and set the known_findings.json entry to status "fixed"); VERIF_C15_MODE overrides it.
MODEL_MODE = "fixed"
_mode = os.environ.get("VERIF_C15_MODE", MODEL_MODE)

F5_KEY = "C15:componentReachDFS:incomplete-reach-cached-after-visited-skip"
DFS_VERBS = ("reach", "reachslice", "orreach", "xorreach")

THEOREMS = {
    "Dawgs.Props.C15": [
        "Dawgs.C15.Props.spec_bfs_is_reachability",
        "Dawgs.C15.Props.sccCert_sound",
        "Dawgs.C15.Props.tarjan_terminates",
        "Dawgs.C15.Props.tarjan_partition",
        "Dawgs.C15.Props.tarjan_correct_partial",
        "Dawgs.C15.Props.tarjan_correct",
        "Dawgs.C15.Props.tarjan_scc",
        "Dawgs.C15.Props.bidir_reachable_correct",
        "Dawgs.C15.Props.reach_cache_exact_fixed",
        "Dawgs.C15.Props.reach_cache_exact_refuted",
        "Dawgs.C15.Props.reach_cache_sound_partial",
        "Dawgs.C15.Props.reach_dfs_terminates",
        "Dawgs.C15.Props.reach_answers_exact_fixed",
        "Dawgs.C15.Props.answers_history_independent_fixed",
        "Dawgs.C15.Props.answers_history_independent_refuted",
        "Dawgs.C15.Props.reach_query_terminates_current",
        "Dawgs.C15.Props.c15_full_refuted",
        "Dawgs.C15.Props.c15_fixed_of_certificate",
        "Dawgs.C15.Props.c15_fixed_of_tarjan",
        "Dawgs.C15.Props.c15_fixed",
    ],
}


def _dfs_query(op):
    """(direction) of an op line that goes through componentReachDFS with a cache, else None."""
    t = op.split()
    if t and t[0] in DFS_VERBS and len(t) >= 3 and t[2] in ("in", "out"):
        return t[2]
    return None


def nontrivial(ops, impl):
    # >= 2 components, >= 2 cached-direction DFS queries in the same direction, and a cache hit was observed
    k = 0
    hits = 0
    dirs = {"in": 0, "out": 0}
    for o, r in zip(ops, impl):
        if o.startswith("graph ") and " k=" in r:
            try:
                k = int(r.split(" k=")[1])
            except ValueError:
                k = 0
        d = _dfs_query(o)
        if d:
            dirs[d] += 1
        if o == "stats" and "hits=" in r:
            try:
                hits = int(r.split("hits=")[1].split()[0])
            except ValueError:
                pass
    return k >= 2 and max(dirs.values()) >= 2 and hits >= 1


def finding_key(suite, ops, line, msg):
    """F5 = a reach answer that LACKS members, for a query that goes through componentReachDFS, after at
    least one earlier DFS query in the same direction (a fresh cache cannot show it). Everything else gets
    its own key (entry point + defect class) and is therefore reported as a VIOLATION."""
    parts = msg.split()
    cls = parts[1] if len(parts) > 1 else "reject"
    op = ops[line] if line < len(ops) else ""
    verb = op.split()[0] if op.split() else "?"
    d = _dfs_query(op)
    if cls == "reach-missing" and d and any(_dfs_query(o) == d for o in ops[:line]):
        return F5_KEY
    site = {"scc": "StronglyConnectedComponents", "canreach": "ComponentReachable"}.get(verb, verb)
    return "C15:%s:%s" % (site, cls)


def extra_coverage(ctx, stats):
    return {
        "stated_goals_not_proved": [],
        "full_statements_refuted_for_live_code": ["reach_cache_exact false", "answers_history_independent false", "C15_full = C15_stmt false"],
        "full_statements_proved_for_repaired_code": ["reach_cache_exact true", "answers_history_independent true", "C15_stmt true (c15_fixed)"],
        "proved_for_both_variants": ["tarjan_correct (tarjan_correct_full)", "bidir_reachable_correct", "reach_dfs_terminates", "reach_cache_sound_partial"],
        "model_variant": _mode,
        "exhaustive_small_scope": {"graphs_n1": stats.get("gen.exhaustive_graphs_n1", 0), "graphs_n2": stats.get("gen.exhaustive_graphs_n2", 0),
                                   "graphs_n3": stats.get("gen.exhaustive_graphs_n3", 0), "graphs_n4": stats.get("gen.exhaustive_graphs_n4", 0),
                                   "expected": "2^(n*n) per seed: 2, 16, 512, 65536"},
    }


SPEC = {
    "id": "C15",
    "title": "reachability answers equal true graph reachability regardless of query history",
    "level": "proof",
    "fallback_level": "other",
    "lean_modules": ["Dawgs.Props.C15"],
    "theorems_by_module": THEOREMS,
    "gate_modules": ["Dawgs.Model.C15", "Dawgs.Spec.C15", "Dawgs.Proofs.C15", "Dawgs.Proofs.C15Tarjan", "Dawgs.Proofs.C15Lift", "Dawgs.Proofs.C15Sound", "Dawgs.Proofs.C15TarjanFull", "Dawgs.Props.C15"],
    "suites": [{"name": "c15", "model_suite": "c15fixed" if _mode == "fixed" else "c15", "monitor_suite": "c15mon",
                "keep_prefix": 2, "thorough_seeds": 2, "shrink_budget": 200}],
    "nontrivial": nontrivial,
    "finding_key": finding_key,
    "rule": "cases = corpus (F5 witnesses) + random structured digraphs (G(n,p), dense DAGs, cycle blocks, layered DAGs, multi-edge/self-loop walks; "
            "<= 7 nodes quick / <= 10 thorough; shuffled insertion order, sparse and >32-bit ids) + EVERY digraph with self loops on <= 3 (quick) / <= 4 "
            "(thorough) nodes, each x cache capacity in {1,2,3,8} (sometimes 0/-2) x a script of scc + 6-12 mixed CanReach/Reach/ReachSlice/OrReach/XorReach "
            "calls in both directions (and DirectionBoth) from splitmix64(VERIF_SEED); a case is non-trivial when the graph has >= 2 components, "
            ">= 2 DFS queries share a cached direction and the cache reported >= 1 hit; distinct = distinct op-line sequences (sha1)",
    "expected_branches": ["branch.reach.root_cache_hit", "branch.reach.neighbour_cache_hit", "branch.reach.eviction",
                          "branch.reach.visited_skip", "branch.reach.visited_skip_nonroot", "branch.reach.cut_cursor_completed",
                          "branch.scc.multi_component", "branch.scc.nontrivial_component",
                          "branch.canreach.true", "branch.canreach.false", "branch.reach.non_member"],
    "trusted_base": ["cardinality.Duplex bitmaps modelled as Nat bit sets / sorted lists; CSR adjacency modelled as 'neighbours in dense-index order, de-duplicated' (C14 covers the container)",
                     "gammazero/deque modelled as a list",
                     "model variant compared with the implementation: " + _mode],
    "assumptions": ["node ids are uint64 in the tie; Lean model uses Nat",
                    "single-threaded use of ReachabilityCache (the SIEVE locks are C16's subject)",
                    "full Tarjan correctness for ALL graphs is a stated goal (tarjan_correct_full); per case it is established by the verified certificate checker checkSCC run on the implementation's (= model's) output"],
    "extra_coverage": extra_coverage,
    "explanation": "Proved for all inputs (Lean, no sorry, axioms within {propext, Classical.choice, Quot.sound}): spec BFS = reachability; SCC certificate "
                   "checker sound; the transcribed iterative Tarjan terminates, returns a partition and is CORRECT on every well-formed digraph "
                   "(tarjan_correct); bidirectional ComponentReachable exact and terminating on every digraph and direction; componentReachDFS terminates and "
                   "never reports/caches an unreachable component (both variants); the REPAIRED DFS keeps every cached binding exact and answers exactly for "
                   "every contract-satisfying cache, capacity and history, hence history independence; lifted to the original graph: c15_fixed = the whole "
                   "property for the repaired code. Refuted by concrete witness for the code as it is: reach_cache_exact, answers_history_independent, "
                   "C15_full (DESIGN F5; corpus + known_findings.json; fix = hooks/C15-fix.patch).",
}

MANIFEST = {
    "category": "proof",
    "technique": "Lean 4 invariant proofs over a transcription of algo/scc.go + algo/reach.go (bidirectional BFS, reach DFS over the proved SIEVE contract, verified SCC certificate checker) + differential correspondence with the Go code + BFS monitor on every answer",
    "text": "Lean theorems over ALL digraphs, directions, cache capacities and query histories for a line-by-line transcription of algo/scc.go and "
            "algo/reach.go over the proved C16 SIEVE contract: iterative Tarjan correct (partition, mutual reachability, acyclic condensation) via a "
            "verified certificate checker; bidirectional ComponentReachable exact; reach DFS terminates and is sound; for the repaired DFS every cached "
            "entry stays exact under every query, eviction choice and capacity, answers are history independent, and the whole property (every public "
            "answer = plain BFS on the original graph) is a theorem (c15_fixed). For the code as it is the full statements are refuted by a two-query "
            "witness (known finding F5, fix patch proposed). Model = implementation on every generated case (all digraphs <= 4 nodes x capacities, "
            "random <= 10 nodes x scripts of 6-12 mixed calls, cache statistics included), and a BFS monitor judges every implementation answer.",
    "note": "Trusted: Lean kernel; the transcription (checked by the differential tie); roaring bitmaps, deque, CSR container (C14) modelled as lists / "
            "Nat bit sets. The live code violates the reach-cache part (F5) until hooks/C15-fix.patch lands; then set MODEL_MODE = 'fixed' in "
            "lib/props/c15.py and the known_findings entry to 'fixed'.",
}
