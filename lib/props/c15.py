import os
import regen

# Which DFS variant of the Lean model is compared with the implementation. The F5 fix (cache only cursors whose
# exploration was not cut by the shared visited set) is in /repo since 04b3fb8, so the live model is "fixed";
# "current" is the pre-fix DFS, kept in the model for the refutation theorems and for replaying the old defect
# (VERIF_C15_MODE=current).
MODEL_MODE = "fixed"


def do_regen(ctx):
    # value provenance of every returned bitmap / every mutating bitmap call in algo/*.go -> Generated/C15Fresh.lean
    regen.goext("c15", "C15Fresh.lean")

_mode = os.environ.get("VERIF_C15_MODE", MODEL_MODE)

F5_KEY = "C15:componentReachDFS:incomplete-reach-cached-after-visited-skip"
DFS_VERBS = ("reach", "reachslice", "orreach", "xorreach")

THEOREMS = {
    "Dawgs.Props.C15": [
        "Dawgs.C15.Props.spec_bfs_is_reachability",
        "Dawgs.C15.Props.sccCert_sound",
        "Dawgs.C15.Props.tarjan_terminates",
        "Dawgs.C15.Props.tarjan_partition",
        "Dawgs.C15.Props.tarjan_correct_partial",
        "Dawgs.C15.Props.tarjan_correct",
        "Dawgs.C15.Props.tarjan_scc",
        "Dawgs.C15.Props.bidir_reachable_correct",
        "Dawgs.C15.Props.reach_cache_exact_fixed",
        "Dawgs.C15.Props.reach_cache_exact_refuted",
        "Dawgs.C15.Props.reach_cache_sound_partial",
        "Dawgs.C15.Props.reach_dfs_terminates",
        "Dawgs.C15.Props.reach_answers_exact_fixed",
        "Dawgs.C15.Props.answers_history_independent_fixed",
        "Dawgs.C15.Props.answers_history_independent_refuted",
        "Dawgs.C15.Props.reach_query_terminates_current",
        "Dawgs.C15.Props.c15_full_refuted",
        "Dawgs.C15.Props.reach_cache_refines_nocache",
        "Dawgs.C15.Props.public_answers_refine_nocache",
        "Dawgs.C15.Props.public_answers_history_independent",
        "Dawgs.C15.Props.results_fresh_fact",
        "Dawgs.C15.Props.caller_edits_noninterference",
        "Dawgs.C15.Props.component_graph_topological",
        "Dawgs.C15.Props.component_graph_acyclic",
        "Dawgs.C15.Props.c15_fixed_of_certificate",
        "Dawgs.C15.Props.c15_fixed_of_tarjan",
        "Dawgs.C15.Props.c15_fixed",
    ],
}


def _dfs_query(op):
    """(direction) of an op line that goes through componentReachDFS with a cache, else None."""
    t = op.split()
    if t and t[0] in DFS_VERBS and len(t) >= 3 and t[2] in ("in", "out"):
        return t[2]
    return None


def nontrivial(ops, impl):
    # >= 2 components, >= 2 cached-direction DFS queries in the same direction, and a cache hit was observed
    k = 0
    hits = 0
    dirs = {"in": 0, "out": 0}
    for o, r in zip(ops, impl):
        if o.startswith("graph ") and " k=" in r:
            try:
                k = int(r.split(" k=")[1])
            except ValueError:
                k = 0
        d = _dfs_query(o)
        if d:
            dirs[d] += 1
        if o == "stats" and "hits=" in r:
            try:
                hits = int(r.split("hits=")[1].split()[0])
            except ValueError:
                pass
    return k >= 2 and max(dirs.values()) >= 2 and hits >= 1


def finding_key(suite, ops, line, msg):
    """F5 = a reach answer that LACKS members, for a query that goes through componentReachDFS, after at
    least one earlier DFS query in the same direction (a fresh cache cannot show it). Everything else gets
    its own key (entry point + defect class) and is therefore reported as a VIOLATION."""
    parts = msg.split()
    cls = parts[1] if len(parts) > 1 else "reject"
    op = ops[line] if line < len(ops) else ""
    verb = op.split()[0] if op.split() else "?"
    d = _dfs_query(op)
    if cls == "reach-missing" and d and any(_dfs_query(o) == d for o in ops[:line]):
        return F5_KEY
    site = {"scc": "StronglyConnectedComponents", "canreach": "ComponentReachable"}.get(verb, verb)
    return "C15:%s:%s" % (site, cls)


# property clause -> theorem that proves it for ALL graphs / histories / capacities (live code) | what is only searched
CLAUSES = {
    "components partition the node set": "tarjan_partition, tarjan_scc (IsSCC.cover/disjoint/nonempty)",
    "same component <=> mutually reachable": "tarjan_scc (IsSCC.same_iff) = tarjan_correct + sccCert_sound, on the stack-machine transcription itself",
    "component graph acyclic": "tarjan_scc (IsSCC.acyclic, condensation of the partition) and component_graph_topological / component_graph_acyclic "
                               "(the digraph NewComponentGraph builds: every edge goes to a smaller component id)",
    "can-reach = BFS": "bidir_reachable_correct (component level) + c15_fixed / public_answers_refine_nocache (original graph)",
    "reach set of component = BFS": "reach_cache_exact_fixed, reach_answers_exact_fixed (component level) + c15_fixed (original graph)",
    "or-reach / xor-reach = BFS": "c15_fixed / public_answers_refine_nocache (OrReach/XorReach are the set formulas over the exact reach set)",
    "independent of order and number of earlier queries": "answers_history_independent_fixed, public_answers_history_independent",
    "independent of cache capacity": "same theorems (cap : Int, <= 0 clamps to 1); reach_cache_refines_nocache: equal to the cache-free DFS",
    "results are fresh values (caller edits cannot change later answers)": "caller_edits_noninterference, given results_fresh_fact (provenance table "
                                                                           "regenerated from algo/*.go every run)",
    "searched only (tie)": "that the Lean transcription is what the Go code does: line diff model = implementation on every generated case "
                           "(cache statistics included), BFS monitor on every implementation answer, mutate probe; roaring bitmap / deque / CSR / "
                           "Go aliasing semantics beyond the extracted provenance table; ReachSlice results alias internal membership bitmaps by "
                           "documented design (callers must not edit them)",
}


def extra_coverage(ctx, stats):
    return {
        "stated_goals_not_proved": [],
        "refuted_for_the_pre_fix_dfs": ["reach_cache_exact false", "answers_history_independent false", "C15_full = C15_stmt false"],
        "proved_for_the_live_code": ["reach_cache_exact true", "answers_history_independent true", "C15_stmt true (c15_fixed)",
                                     "public_answers_refine_nocache", "public_answers_history_independent", "caller_edits_noninterference"],
        "clause_map": CLAUSES,
        "proved_for_both_variants": ["tarjan_correct (tarjan_correct_full)", "bidir_reachable_correct", "reach_dfs_terminates", "reach_cache_sound_partial"],
        "model_variant": _mode,
        "exhaustive_small_scope": {"graphs_n1": stats.get("gen.exhaustive_graphs_n1", 0), "graphs_n2": stats.get("gen.exhaustive_graphs_n2", 0),
                                   "graphs_n3": stats.get("gen.exhaustive_graphs_n3", 0), "graphs_n4": stats.get("gen.exhaustive_graphs_n4", 0),
                                   "dags_n5": stats.get("gen.exhaustive_dags_n5", 0),
                                   "expected": "2^(n*n) digraphs per seed: 2, 16, 512, 65536 (n=4 thorough only); 2^10 = 1024 labelled DAGs on 5 nodes"},
    }


SPEC = {
    "id": "C15",
    "title": "reachability answers equal true graph reachability regardless of query history",
    "level": "proof",
    "fallback_level": "other",
    "lean_modules": ["Dawgs.Props.C15"],
    "theorems_by_module": THEOREMS,
    "gate_modules": ["Dawgs.Model.C15", "Dawgs.Spec.C15", "Dawgs.Proofs.C15", "Dawgs.Proofs.C15Tarjan", "Dawgs.Proofs.C15Lift", "Dawgs.Proofs.C15Sound", "Dawgs.Proofs.C15TarjanFull", "Dawgs.Proofs.C15Round3", "Dawgs.Props.C15"],
    "regen": do_regen,
    "suites": [{"name": "c15", "model_suite": "c15fixed" if _mode == "fixed" else "c15", "monitor_suite": "c15mon",
                "keep_prefix": 2, "thorough_seeds": 2, "shrink_budget": 200}],
    "nontrivial": nontrivial,
    "finding_key": finding_key,
    "rule": "cases = corpus (F5 witnesses) + random structured digraphs (G(n,p), dense DAGs, cycle blocks, layered DAGs, multi-edge/self-loop walks; "
            "<= 7 nodes quick / <= 10 thorough; shuffled insertion order, sparse and >32-bit ids) + EVERY digraph with self loops on <= 3 (quick) / <= 4 "
            "(thorough) nodes + EVERY labelled DAG on 5 nodes, each x cache capacity in {1,2,3,8} (sometimes 0/-2) x a script: either 6-12 mixed "
            "CanReach/Reach/ReachSlice/OrReach/XorReach calls in both directions (and DirectionBoth), or a SWEEP (every node asked in one direction, "
            "ancestors first or last, then re-asks) - both with `mutate` probes that overwrite every bitmap the cache handed out so far; from "
            "splitmix64(VERIF_SEED); a case is non-trivial when the graph has >= 2 components, >= 2 DFS queries share a cached direction and the cache "
            "reported >= 1 hit; distinct = distinct op-line sequences (sha1)",
    "expected_branches": ["branch.reach.root_cache_hit", "branch.reach.neighbour_cache_hit", "branch.reach.eviction",
                          "branch.reach.visited_skip", "branch.reach.visited_skip_nonroot", "branch.reach.cut_cursor_completed",
                          "branch.scc.multi_component", "branch.scc.nontrivial_component",
                          "branch.canreach.true", "branch.canreach.false", "branch.reach.non_member",
                          "branch.reach.cut_component_requeried", "branch.reach.exact_child_into_cut_cursor", "branch.reach.cache_hit_in_cut_cursor",
                          "branch.reach.evicted_component_requeried", "branch.mutate.bitmap_edited", "branch.capacity.clamped",
                          "branch.capacity.below_components", "branch.capacity.holds_all", "dir.both", "dir.in", "dir.out"],
    "trusted_base": ["cardinality.Duplex bitmaps modelled as Nat bit sets / sorted lists; CSR adjacency modelled as 'neighbours in dense-index order, de-duplicated' (C14 covers the container)",
                     "gammazero/deque modelled as a list",
                     "model variant compared with the implementation: " + _mode],
    "assumptions": ["node ids are uint64 in the tie; Lean model uses Nat",
                    "single-threaded use of ReachabilityCache (the SIEVE locks are C16's subject)",
                    "ReachSliceOfComponentContainingMember hands out the cache's own membership bitmaps (documented); the mutate probe and "
                    "caller_edits_noninterference cover the fresh results only (ReachOf..., OrReach/XorReach accumulators)"],
    "extra_coverage": extra_coverage,
    "explanation": "Proved for all inputs (Lean, no sorry, axioms within {propext, Classical.choice, Quot.sound}), for the code as it is in /repo: spec BFS "
                   "= reachability; the transcribed iterative Tarjan terminates and is correct on every well-formed digraph (partition, same component "
                   "<=> mutually reachable, acyclic condensation; the component digraph NewComponentGraph builds is topologically numbered); bidirectional "
                   "ComponentReachable exact and terminating for every digraph and direction; componentReachDFS terminates, keeps every cached binding exact "
                   "for every contract-satisfying cache, capacity and history, and equals the cache-free DFS; every public answer (CanReach, ReachOf..., "
                   "ReachSliceOf..., OrReach, XorReach) equals plain BFS on the original graph after any history and under any capacity (c15_fixed, "
                   "public_answers_refine_nocache, public_answers_history_independent); caller-side edits of returned values cannot change later answers "
                   "given the provenance table regenerated from algo/*.go (results_fresh_fact, caller_edits_noninterference). The pre-fix DFS (finding "
                   "F5, fixed in 04b3fb8) stays in the model only to keep its refutation (reach_cache_exact_refuted, c15_full_refuted) and the corpus "
                   "regression. See clause_map in this file for clause -> theorem.",
}

MANIFEST = {
    "category": "proof",
    "technique": "Lean 4 invariant proofs over a transcription of algo/scc.go + algo/reach.go (bidirectional BFS, reach DFS over the proved SIEVE contract, verified SCC certificate checker) + differential correspondence with the Go code + BFS monitor on every answer",
    "text": "Lean theorems over ALL digraphs, directions, cache capacities and query histories for a line-by-line transcription of algo/scc.go and "
            "algo/reach.go (as they are in /repo, F5 fix included) over the proved C16 SIEVE contract: the explicit-stack Tarjan is correct (partition, "
            "same component <=> mutually reachable, acyclic and topologically numbered component graph); bidirectional ComponentReachable is exact; the "
            "reach DFS terminates, keeps every cached entry exact under every query, eviction choice and capacity and equals the cache-free DFS; every "
            "public answer (can-reach, reach set, slices, or-reach, xor-reach) equals plain BFS on the original graph independent of query order, count "
            "and capacity (c15_fixed, public_answers_history_independent); results are fresh values, so caller-side edits cannot change later answers "
            "(provenance table extracted from the sources every run). Model = implementation on every generated case (all digraphs <= 4 nodes and all "
            "DAGs on 5 nodes x capacities, random <= 10 nodes, mixed and sweep scripts with mutate probes, cache statistics included); a BFS monitor "
            "judges every implementation answer.",
    "note": "Trusted: Lean kernel; the transcription (checked by the differential tie); roaring bitmaps, deque, CSR container (C14) and Go aliasing "
            "beyond the extracted provenance table, modelled as lists / Nat bit sets. ReachSliceOfComponentContainingMember shares the cache's own "
            "membership bitmaps by documented design: callers must treat them as read-only. Finding F5 (incomplete reach set cached after a "
            "visited-skip) was found by this check, fixed in /repo 04b3fb8; the pre-fix DFS is kept in the model for its refutation theorems and "
            "the corpus cases guard against its return.",
}
