import json, os, re, time
import regen
import flow
import verif

THEOREMS = {
    "Dawgs.Props.C05": [
        "Dawgs.C05.Props.generic_terminates",
        "Dawgs.C05.Props.generic_stops_at_first_error",
        "Dawgs.C05.Props.copy_equal_and_fresh",
        "Dawgs.C05.Props.optimize_isolated",
        "Dawgs.C05.Props.fold_perm_invariant",
        "Dawgs.C05.Props.map_insert_order_free",
        "Dawgs.C05.Props.set_insert_order_free",
        "Dawgs.C05.Props.lookup_order_free",
        "Dawgs.C05.Props.max_fold_order_free",
        "Dawgs.C05.Props.sorted_order_free",
        "Dawgs.C05.Props.assert_kinds_idempotent",
        "Dawgs.C05.Props.unchecked_put_registers_twice",
    ],
    "Dawgs.Props.C05Facts": [
        "Dawgs.C05.Facts.table_nonempty",
        "Dawgs.C05.Facts.no_order_sensitive_range",
        "Dawgs.C05.Facts.justified_all_present",
        "Dawgs.C05.Facts.parameter_map_copied",
        "Dawgs.C05.Facts.caller_query_only_copied",
        "Dawgs.C05.Facts.generic_shape",
        "Dawgs.C05.Facts.kind_mapper_locked",
        "Dawgs.C05.Facts.kind_mapper_check_then_act",
        "Dawgs.C05.Facts.kind_mapper_single_writer",
    ],
    # the first-match loop of PruneDefinitions over the alias map is justified by C06's invariant
    "Dawgs.Props.C06": ["Dawgs.C06.Props.prune_alias_choice_unique"],
}

# panics of the unchanged tree on ASTs that neither the parser nor the builders of /repo/query produce (assembled by
# hand or by mutating a parsed model: nil optionals, comparisons without partials, patterns without nodes, …)
HAND_PANIC_SITES = [
    "translate.Builder.PopOperand", "translate.consumePatternConstraints", "translate.Translator.translateRelationshipPatternToStep",
    "translate.Translator.translateNonTraversalPatternPart", "translate.Translator.buildTailProjection",
    "translate.Translator.buildInlineProjection", "translate.Projections.Current", "translate.Translator.previousValidFrame",
    "translate.Translator.buildMultiPartQuery", "translate.Translator.buildDeletions", "translate.Translator.prepareFilterExpression",
    "translate.Translator.translateFilterExpression",
]


def do_regen(ctx):
    regen.c05_facts()


def _field(line, name):
    m = re.search(r"(?:^| )%s=(\S*)" % name, line)
    return m.group(1) if m else None


QUIET = ("ok", "err", "parse-error", "builder-error", "kmrace-clean")


def judge(op, impl, model):
    if impl.startswith("panic"):
        return "reject harness-panic " + impl[:160]
    if impl in ("skipped", "bad-op"):
        return "reject " + impl
    cls = _field(impl, "cls")
    if cls in QUIET:
        return "ok"
    m = re.search(r" min=(\"(?:[^\"\\]|\\.)*\")", impl)
    d = re.search(r" detail=(\"(?:[^\"\\]|\\.)*\")", impl)
    origin = (_field(impl, "label") or "-").split(":")[0]
    if cls == "panic" and origin in ("hand", "mutant"):
        # Hand-assembled or mutated model values (nil optionals etc.) are produced neither by the parser nor by the
        # query builders: they are outside the quantifier of C05. A panic there is information, not a violation.
        return "ok info-panic-outside-quantifier site=%s" % _field(impl, "site")
    return "reject %s site=%s origin=%s min=%s %s" % (cls, _field(impl, "site"), origin, m.group(1) if m else "-", (d.group(1) if d else "")[:300])


def finding_key(suite, ops, line, msg):
    cls = msg.split()[1] if len(msg.split()) > 1 else "reject"
    site = _field(msg, "site") or "?"
    origin = _field(msg, "origin") or "?"
    if cls == "panic-ns-collision":
        return "C05:InferExpressionType:nil-parameter-panic"
    if cls == "params-mutated:nil-slice-to-empty":
        return "C05:MapStringAnyToJSONB:mutates-caller-parameter-value"
    if cls == "kindmapper-contract":
        return "C05:InMemoryKindMapper.AssertKinds:kind-registered-twice"
    if cls == "kindmapper-race":
        return "C05:InMemoryKindMapper.Put:unsynchronised-maps"
    if cls == "panic":
        if origin in ("hand", "mutant"):
            return "C05:%s:panic-on-hand-assembled-ast" % site
        return "C05:%s:panic" % site
    return "C05:translate:" + cls


def nontrivial(ops, impl):
    for r in impl:
        if r.startswith("cls=") and _field(r, "runs") == "26" and _field(r, "st") in ("ok", "err"):
            return True      # the full battery ran: 10 sequential + 16 concurrent translations, inputs compared
        if r.startswith("res=") and ("X" in r or "err" in r) and r.count(",") >= 2:
            return True      # a walk with at least three callbacks
    return False


def extra_coverage(ctx, stats):
    return {
        "translations_run": stats.get("translations", 0),
        "max_translation_batch_ms": stats.get("max_ms", 0),
        "time_budget_per_translation_s": 10,
        "sequential_runs_per_case": 10,
        "concurrent_runs_per_case": 16,
        "traces_validated_against_impl": stats.get("walk.ok", 0) + stats.get("walk.err", 0) + stats.get("walk.conserr", 0),
        "panic_freedom": "search only (corpus + generated + mutated + builder + hand-assembled ASTs); not proved",
    }


SPEC = {
    "id": "C05",
    "title": "translation is a total, deterministic, side-effect-free function",
    "level": "other",
    "fallback_level": "other",
    "regen": do_regen,
    "lean_modules": ["Dawgs.Props.C05", "Dawgs.Props.C05Facts", "Dawgs.Props.C06"],
    "theorems_by_module": THEOREMS,
    "gate_modules": ["Dawgs.Model.C05", "Dawgs.Proofs.C05", "Dawgs.Props.C05", "Dawgs.Props.C05Facts", "Driver.C05"],
    "suites": [
        {"name": "walkc05", "model_suite": "walkc05", "keep_prefix": 1, "thorough_seeds": 1},
        {"name": "c05", "judge": judge, "keep_prefix": 1, "thorough_seeds": 1, "timeout": 3000},
    ],
    "nontrivial": nontrivial,
    "finding_key": finding_key,
    "panic_is_violation": True,
    "rule": "suite c05 (search): cases = every Cypher text of the repository corpora (with their cypher_params) + generated queries (300 quick / 3000 thorough) + "
            "reflection mutants of each (1 / 6 per query: nil-ed optional, dropped / duplicated / swapped list item, flipped flag) + 27 queries assembled with the "
            "builders of /repo/query (supported and unsupported shapes) + 32 hand-assembled cypher model values with nil optionals + 9 parameter-shape cases + the "
            "kind-mapper race probe + 24 (200) kind-mapper contract cases (16 goroutines translate the same CREATE naming FRESH kinds against one mapper: outputs byte-equal, "
            "afterwards one id per kind, one kind per id, ids dense; every third case is the single-threaded repeated label (n:K:K)) + 10 fixed and 40 (600) generated "
            "multi-path shapes (2-3 path variables, each referenced at least twice through nodes()/relationships()/size() in RETURN or only in the tail WHERE). Battery per case: the SAME AST object and parameter map translated 10x sequentially and 16x concurrently against ONE kind mapper "
            "shared by the whole run, each under recover with a 10 s budget; all 26 outcomes (status, error text, SQL, result parameters) byte-compared; ToSexp(AST) and "
            "ToSexp(params) compared before/after. Non-trivial = the full battery of 26 translations ran (the query translates or is rejected with an error). "
            "suite walkc05 (tie): the REAL walk.Generic instantiated on the harness's tree type with scripted visitors (Consume / SetDone / SetError at the k-th callback, "
            "cursor constructor refusing a label) vs the Lean model: all trees <= 4 (5) nodes x every single action at every callback index, + random trees <= 16 nodes x "
            "up to 3 actions; non-trivial = at least three callbacks. distinct = distinct op lines (sha1)",
    "expected_branches": ["class.ok", "class.err", "kind.mutant", "kind.builder", "kind.hand", "kind.params", "kind.kindmapper", "gen.pathshapes", "walk.with_consume", "walk.err", "walk.conserr"],
    "trusted_base": ["tools/extract/gotyped c05 (go/types classification of map ranges and of parameter/query uses)",
                     "harness/c05.go battery (recover, time budget, byte comparison, reflection S-expressions of inputs)",
                     "Go race detector in the thorough tier"],
    "assumptions": ["panic-freedom and bounded time of the translator are covered by search only, not by proof",
                    "deepness of cypher.Copy field by field is C11's theorem (copy_equal_and_fresh over the regenerated schema); C05 uses the minimal address model and checks AST immutability at run time",
                    "concurrency: one InMemoryKindMapper is shared by the whole run; the race probe asserts NEW kinds from 16 goroutines (locked since the fix)"],
    "extra_coverage": extra_coverage,
    "explanation": "Lean proof for walk termination / error discipline, copy isolation (minimal models shared with C11) and iteration-order independence of every "
                   "map range (typed extractor + generic permutation lemma); search only for panic-freedom, bounded time, run-to-run and concurrent determinism and input immutability",
}

MANIFEST = {
    "category": "other",
    "technique": "Lean 4 proofs of the structural ingredients (walker terminates and stops at the first error for every AST and visitor; deep copy is isolated; every map "
                 "iteration in the translator is order-independent, by a typed extractor + permutation lemma + kernel-checked table) combined with a differential tie of the "
                 "walker model to the real walk.Generic and a 26-fold repeated/concurrent translation search under recover, time budget and (thorough) the race detector",
    "text": "PARTIAL. Proved in Lean for all inputs: walk.Generic performs at most 2 iterations per AST node and never calls back after a callback left an error, which it "
            "returns (model tied to the real generic walker on exhaustive small trees and random scripts); writes into a deep copy cannot reach the original (Optimize uses the "
            "caller's query only through cypher.Copy, Translate only through Optimize — extracted facts); every `range` over a map in translate/, optimize/, format/, pgutil and "
            "the supporting packages is map-insert, set-insert, sorted-before-use, lookup-only or a commutative fold (order-free by fold_perm_invariant), except three justified "
            "loops; NewTranslator copies the caller's parameter map and nothing writes through it; the in-memory kind mapper gives every kind exactly one id under every "
            "interleaving of AssertKinds / Put (assert_kinds_idempotent over the lock-level LTS; check-then-act in one critical section is an extracted fact). NOT proved: absence of panics and hangs in the 22k-line translator, run-to-run "
            "and concurrent determinism of the whole, deep immutability of parameter values — these are searched: every corpus, generated, mutated, builder-built and "
            "hand-assembled AST is translated 10x sequentially and 16x concurrently against one shared kind mapper with byte comparison and before/after comparison of the inputs.",
    "note": "Five defects found by this check are fixed (known_findings.json, status fixed): F10 nil-parameter panic (shared with C06); panics on two ordinary parsed queries "
            "(quantifier without WHERE; quantifier in a query part without MATCH); MapStringAnyToJSONB rewriting nil slices inside the caller's nested map parameters; "
            "pgutil.InMemoryKindMapper without a lock (concurrent CREATE with new kinds = fatal concurrent map writes) — the lock table is now a plain obligation "
            "(kind_mapper_locked). Nil-dereference / index panics on hand-assembled or mutated ASTs that parser and builders never produce are outside the quantifier and are "
            "counted in the evidence as information only. Trusted: Lean kernel, extractors, harness.",
}


def run(spec, tier, seed, replay):
    """generic flow, then (thorough tier) the same search once more under the race detector"""
    rc = flow.run_property(spec, tier, seed, replay)
    if replay or tier != "thorough":
        return rc
    ctx = verif.Ctx("C05", tier, seed)
    t0 = time.time()
    ok, out = verif.build_harness(ctx, race=True)
    race = {"built": ok}
    if ok:
        ops = ctx.path("race.ops")
        verif.harness(ctx, "c05", "gen", ["-seed", str(seed), "-tier", "quick", "-ops", ops], race=True)
        rcode, out = verif.harness(ctx, "c05", "run", ["-ops", ops, "-out", ctx.path("race.impl")], race=True, timeout=3000)
        reports = out.count("WARNING: DATA RACE")
        race.update({"exit_code": rcode, "data_race_reports_in_harness_process": reports, "cases": sum(1 for l in verif.read_lines(ops) if l.startswith("# case"))})
        if reports or rcode not in (0,):
            first = out[out.find("WARNING: DATA RACE"):][:3000] if reports else out[-2000:]
            verif.report_finding(ctx, "C05:translate:data-race", "race detector reports a data race during concurrent translation against the shared kind mapper",
                                 {"kind": "input", "suite": "c05", "race_report": first, "how_to_replay": "build the harness with -race and run suite c05"})
    race["wall_s"] = round(time.time() - t0, 1)
    p = os.path.join(verif.VERIF, "evidence", "C05.json")
    ev = json.load(open(p))
    ev["coverage"]["race_pass"] = race
    ev["violations"] = ev.get("violations", 0) + len(ctx.violations)
    ev["wall_s"] = round(ev["wall_s"] + race["wall_s"], 2)
    open(p, "w").write(json.dumps(ev, indent=1))
    print("race pass:", race, flush=True)
    return 1 if (rc or ctx.violations) else 0
