import json, os, re, time
import regen
import flow
import verif

THEOREMS = {
    "Dawgs.Props.C05": [
        "Dawgs.C05.Props.generic_terminates",
        "Dawgs.C05.Props.generic_stops_at_first_error",
        "Dawgs.C05.Props.copy_equal_and_fresh",
        "Dawgs.C05.Props.optimize_isolated",
        "Dawgs.C05.Props.fold_perm_invariant",
        "Dawgs.C05.Props.map_insert_order_free",
        "Dawgs.C05.Props.set_insert_order_free",
        "Dawgs.C05.Props.lookup_order_free",
        "Dawgs.C05.Props.max_fold_order_free",
        "Dawgs.C05.Props.sorted_order_free",
        "Dawgs.C05.Props.assert_kinds_idempotent",
        "Dawgs.C05.Props.unchecked_put_registers_twice",
        "Dawgs.C05.Props.assert_kinds_repeatable",
        "Dawgs.C05.Props.assert_kinds_old_order_depends_on_state",
        "Dawgs.C05.Props.kind_ids_never_change",
    ],
    "Dawgs.Props.C05Facts": [
        "Dawgs.C05.Facts.table_nonempty",
        "Dawgs.C05.Facts.no_order_sensitive_range",
        "Dawgs.C05.Facts.exempt_have_reasons",
        "Dawgs.C05.Facts.justified_all_present",
        "Dawgs.C05.Facts.parameter_map_copied",
        "Dawgs.C05.Facts.caller_query_only_copied",
        "Dawgs.C05.Facts.generic_shape",
        "Dawgs.C05.Facts.sort_comparators_total",
        "Dawgs.C05.Facts.no_nondeterminism_sources",
        "Dawgs.C05.Facts.no_shared_mutable_state",
        "Dawgs.C05.Facts.inputs_not_written",
        "Dawgs.C05.Facts.library_values_not_written",
        "Dawgs.C05.Facts.unguarded_partial_sites_known",
        "Dawgs.C05.Facts.parameter_value_index_guarded",
        "Dawgs.C05.Facts.parameter_value_types_generated",
        "Dawgs.C05.Facts.kind_mapper_locked",
        "Dawgs.C05.Facts.kind_mapper_check_then_act",
        "Dawgs.C05.Facts.kinds_interned_atomically",
        "Dawgs.C05.Facts.assert_kinds_order",
        "Dawgs.C05.Facts.kind_mapper_single_writer",
    ],
    # the first-match loop of PruneDefinitions over the alias map is justified by C06's invariant
    "Dawgs.Props.C06": ["Dawgs.C06.Props.prune_alias_choice_unique"],
}

# panics of the unchanged tree on ASTs that neither the parser nor the builders of /repo/query produce (assembled by
# hand or by mutating a parsed model: nil optionals, comparisons without partials, patterns without nodes, …)
HAND_PANIC_SITES = [
    "translate.Builder.PopOperand", "translate.consumePatternConstraints", "translate.Translator.translateRelationshipPatternToStep",
    "translate.Translator.translateNonTraversalPatternPart", "translate.Translator.buildTailProjection",
    "translate.Translator.buildInlineProjection", "translate.Projections.Current", "translate.Translator.previousValidFrame",
    "translate.Translator.buildMultiPartQuery", "translate.Translator.buildDeletions", "translate.Translator.prepareFilterExpression",
    "translate.Translator.translateFilterExpression",
]


TRUSTED_DET = ("TRUSTED STEP (Go semantics): a sequential Go program that contains none of the listed constructs and keeps no state outside "
               "its arguments computes a function of its inputs")
TRUSTED_WRITES = ("TRUSTED STEP: the typed syntactic classification of tools/extract/gotyped sees every write (an input is not reached through "
                  "an alias of a different static type, e.g. a model value held in an `any`)")

# clause of the statement (properties.jsonl, C05) -> proved for ALL inputs (hypotheses named) | kernel-checked table + ONE trusted step | searched only
CLAUSES = {
    "total: returns a result or an error, never panics":
        "SEARCHED ONLY for the translator (every translation under recover: corpora, generated, mutated, builder-built, totality shapes). "
        "PROVED only for the walker: generic_stops_at_first_error (every visitor: no callback after one that left an error, and that error is "
        "returned; tie: Facts.generic_shape + differential suite walkc05). NARROWED by a kernel-checked table: of the partial operations of "
        "translate/ (single-value type assertions, slice indexes / slices) the unguarded ones are exactly the pinned list "
        "(Facts.unguarded_partial_sites_known); Go coverage shows on every run which of them the search executed. Nil dereferences, map/ "
        "conversion panics, the `len-mentioned` guards and explicit panic() calls are not classified at all",
    "bounded time: never hangs":
        "SEARCHED ONLY (10 s budget per translation, measured maximum in the evidence). PROVED only for the walker: generic_terminates — at most "
        "2 + 2*nodes iterations for every finite AST and every visitor, PROVIDED each callback returns (the translator's callbacks are not "
        "modelled; their loops and recursions are not classified)",
    "repeat: byte-identical SQL and equal parameters":
        "KERNEL-CHECKED TABLES + ONE TRUSTED STEP. Tables (regenerated from the sources every run, translate/ optimize/ format/ pgsql/ cypher/ "
        "walk/): Facts.no_order_sensitive_range (every map range has an order-free shape or is one of 3 exempt loops with reason: "
        "exempt_have_reasons, justified_all_present; the PruneDefinitions exemption is C06's prune_alias_choice_unique, hypotheses: alias keys "
        "Nodup and the other order is a permutation), Facts.sort_comparators_total, Facts.no_nondeterminism_sources (no select / go / clock / "
        "random / sync.Map / reflective or iterator map traversal / %p / unsafe / environment), Facts.no_shared_mutable_state (NEW: no "
        "package-level variable is written, address-taken or aliased; all mutable state hangs off the per-call Translator). Lean lemmas the "
        "shapes instantiate, for ALL lists: fold_perm_invariant (hypothesis: the step is right-commutative on the elements present), "
        "map_insert_order_free (hypothesis: keys pairwise distinct — true of a Go map's entries), set_insert_order_free, lookup_order_free, "
        "max_fold_order_free, sorted_order_free (hypotheses: the order is transitive, total, antisymmetric — what sort_comparators_total pins). "
        "Kind ids inside the SQL: assert_kinds_repeatable (no hypothesis: ids come back in the order of the kinds, a second call changes "
        "nothing and returns the same list) given Facts.assert_kinds_order (the source is the position-wise version). " + TRUSTED_DET +
        ". The end-to-end byte comparison of 10 sequential runs per case is confirmation by search",
    "concurrent against a shared kind mapper: same SQL and parameters":
        "KERNEL-CHECKED TABLES + ONE TRUSTED STEP for isolation, LEAN PROOF for the one shared object. Isolation: Facts.no_shared_mutable_state "
        "+ Facts.no_nondeterminism_sources (no goroutine is started, nothing but the mapper is shared) + the same trusted step as for repeat. "
        "Kind mapper, for EVERY interleaving of any number of goroutines with any kind lists: assert_kinds_idempotent (hypothesis: the mapper "
        "starts consistent, KMInv; atomicity granularity = one lock acquisition per mapKinds / Put) — one id per kind, ids distinct and "
        "dense, every returned AssertKinds has all its kinds registered; kind_ids_never_change (NEW; hypothesis: the kind is registered) — an id "
        "once handed out is that kind's id in every continuation of the history, so concurrent and later calls read the same id; "
        "unchecked_put_registers_twice shows the re-check inside the lock is necessary. Premises as source facts: Facts.kind_mapper_locked "
        "(= C05_kindmapper_full), kind_mapper_check_then_act, kind_mapper_single_writer, kinds_interned_atomically (graph.StringKind uses one "
        "atomic LoadOrStore; shared with C12). TRUSTED STEP: sync.RWMutex / sync.Map give the atomicity the LTS assumes (Go memory model). "
        "16 concurrent translations per case, fresh-kind CREATEs, parse-inside-the-goroutine cases and (thorough) the race detector are search",
    "caller's AST unchanged":
        "KERNEL-CHECKED TABLES + ONE TRUSTED STEP. optimize_isolated (hypotheses: every address of the caller's tree is below the allocation "
        "counter, every write goes through an address of the COPY) with copy_equal_and_fresh (all cells of a copy are new; minimal address "
        "model — that cypher.Copy is deep field by field is C11's theorem over the regenerated schema); Facts.caller_query_only_copied "
        "(Optimize uses its argument only for the nil test and cypher.Copy; Translate passes the query only to Optimize); "
        "Facts.inputs_not_written (translate/ format/ pgsql/ contain no assignment, delete, mutating method or reflective setter on a cypher "
        "model value at all). " + TRUSTED_WRITES + ". ToSexp(AST) before / between / after the 26 runs is confirmation by search",
    "caller's parameter map unchanged":
        "KERNEL-CHECKED TABLES + ONE TRUSTED STEP for the map and for graph-package values, SEARCHED for other nested values. "
        "Facts.parameter_map_copied (NewTranslator reads the map and keeps an entry-by-entry copy; no write through a `parameters` field), "
        "Facts.inputs_not_written (every write into a map[string]any goes into a map made in that function, the result map, or a field that "
        "only ever holds such maps), Facts.library_values_not_written (every method called on a graph value is non-mutating by the C12 API "
        "table). " + TRUSTED_WRITES + ". The copy is SHALLOW: that nested parameter VALUES (slices, maps, pointers other than the "
        "graph types) are not written is covered by the structural before/after comparison only (nil-vs-empty included; this found "
        "MapStringAnyToJSONB, fixed 0d591b4)",
    "searched only (tie)":
        "that Model/C05.lean's walker is walk.Generic: differential suite walkc05 (all trees <= 4/5 nodes x every action at every callback + "
        "random trees) plus Facts.generic_shape; that the kind-mapper LTS is pgutil.InMemoryKindMapper: lock table facts + the km / kmrace "
        "harness cases; that cypher.Copy is deep (C11); the extractors' classifications themselves (a loop shape, a write target, a guard) — "
        "checked against the code only by the seeded-defect rounds; the whole battery (26 runs per case, byte comparison) as the end-to-end "
        "confirmation of every clause",
    "named assumptions":
        "ASTs come from the parser or the builders of /repo/query (hand-assembled / mutated values with nil optionals are outside the quantifier: "
        "panics there are reported as information); the shared mapper is pgutil.InMemoryKindMapper (the database-backed SchemaManager is "
        "read-only in AssertKinds' fast path and was only read, not modelled); exported package variables of the six packages are not "
        "reassigned by code OUTSIDE them (the table scans the six packages); cypher.GreedyRangeQuantifier is one pointer shared by all parsed "
        "ASTs (frontend) and is covered by inputs_not_written like any model value; Go semantics for the two trusted steps; kinds and ids are "
        "Nat in the LTS (int16 ids in Go: overflow after 32767 kinds not modelled)",
}


def param_values_table():
    """harness/c05params.go (one `{"type", "form", func…}` entry per line) -> Generated/C05_paramvalues.lean: the dynamic types and forms
    of the parameter values the harness puts into every parameter position; the runner checks each declaration against the value itself."""
    rows = re.findall(r'^\t\{"([^"]+)", "([^"]+)", func\(\) any', open(os.path.join(verif.HARNESS, "c05params.go")).read(), re.M)
    npos = len(re.findall(r'^\t\{"[a-z\-]+", "[A-Z][^"]*"\},$', open(os.path.join(verif.HARNESS, "c05params.go")).read(), re.M))
    out = ["-- GENERATED by lib/props/c05.py from harness/c05params.go — do not edit", "namespace Dawgs.Generated.C05", "",
           "/-- (dynamic type, form) of every generated parameter value; form = nil / empty / nonempty / value (suffixes after '-' dropped) -/",
           "def generatedParamValues : List (String × String) := ["]
    out.append(",\n".join('  ("%s", "%s")' % (t, f.split("-")[0]) for t, f in rows))
    out += ["]", "", "def generatedParamPositions : Nat := %d" % npos, "", "end Dawgs.Generated.C05", ""]
    open(os.path.join(verif.LEAN, "Dawgs", "Generated", "C05_paramvalues.lean"), "w").write("\n".join(out))


def do_regen(ctx):
    regen.c05_facts()
    param_values_table()
    regen.goext("c12api", "C12Api.lean")   # graph/*.go: which methods write through their receiver (shared with C12)


def _field(line, name):
    m = re.search(r"(?:^| )%s=(\S*)" % name, line)
    return m.group(1) if m else None


QUIET = ("ok", "err", "parse-error", "builder-error", "kmrace-clean")


def judge(op, impl, model):
    if impl.startswith("panic"):
        return "reject harness-panic " + impl[:160]
    if impl in ("skipped", "bad-op"):
        return "reject " + impl
    cls = _field(impl, "cls")
    if cls in QUIET:
        return "ok"
    m = re.search(r" min=(\"(?:[^\"\\]|\\.)*\")", impl)
    d = re.search(r" detail=(\"(?:[^\"\\]|\\.)*\")", impl)
    origin = (_field(impl, "label") or "-").split(":")[0]
    if cls == "panic" and origin in ("hand", "mutant"):
        # Hand-assembled or mutated model values (nil optionals etc.) are produced neither by the parser nor by the
        # query builders: they are outside the quantifier of C05. A panic there is information, not a violation.
        return "ok info-panic-outside-quantifier site=%s" % _field(impl, "site")
    return "reject %s site=%s origin=%s min=%s %s" % (cls, _field(impl, "site"), origin, m.group(1) if m else "-", (d.group(1) if d else "")[:300])


def finding_key(suite, ops, line, msg):
    cls = msg.split()[1] if len(msg.split()) > 1 else "reject"
    site = _field(msg, "site") or "?"
    origin = _field(msg, "origin") or "?"
    if cls == "panic-ns-collision":
        return "C05:InferExpressionType:nil-parameter-panic"
    if cls == "params-mutated:nil-slice-to-empty":
        return "C05:MapStringAnyToJSONB:mutates-caller-parameter-value"
    if cls == "kindmapper-id-order":
        return "C05:InMemoryKindMapper.AssertKinds:id-order-depends-on-state"
    if cls == "kindmapper-contract":
        return "C05:InMemoryKindMapper.AssertKinds:kind-registered-twice"
    if cls == "kindmapper-race":
        return "C05:InMemoryKindMapper.Put:unsynchronised-maps"
    if cls == "panic":
        if origin in ("hand", "mutant"):
            return "C05:%s:panic-on-hand-assembled-ast" % site
        return "C05:%s:panic" % site
    return "C05:translate:" + cls


def nontrivial(ops, impl):
    for r in impl:
        if r.startswith("cls=") and _field(r, "runs") == "26" and _field(r, "st") in ("ok", "err"):
            return True      # the full battery ran: 10 sequential + 16 concurrent translations, inputs compared
        if r.startswith("res=") and ("X" in r or "err" in r) and r.count(",") >= 2:
            return True      # a walk with at least three callbacks
    return False


def extra_coverage(ctx, stats):
    return {
        "clause_map": CLAUSES,
        "full_statement": "def Dawgs.C05.Props.C05_full (abstract implementation; NOT proved for the Go translator, its doc comment lists what carries "
                          "each conjunct); def Dawgs.C05.Facts.C05_kindmapper_full (proved: kind_mapper_locked)",
        "stated_goals_not_proved": ["C05_full for translate.Translate: totality and bounded time are searched only; determinism and side-effect "
                                    "freedom rest on kernel-checked tables plus one trusted step each"],
        "translations_run": stats.get("translations", 0),
        "max_translation_batch_ms": stats.get("max_ms", 0),
        "time_budget_per_translation_s": 10,
        "sequential_runs_per_case": 10,
        "concurrent_runs_per_case": 16,
        "traces_validated_against_impl": stats.get("walk.ok", 0) + stats.get("walk.err", 0) + stats.get("walk.conserr", 0),
        "panic_freedom": "search only (corpus + generated + mutated + builder ASTs; hand-assembled ones are outside the quantifier); not proved",
    }


SPEC = {
    "id": "C05",
    "title": "translation is a total, deterministic, side-effect-free function",
    "level": "other",
    "fallback_level": "other",
    "regen": do_regen,
    "lean_modules": ["Dawgs.Props.C05", "Dawgs.Props.C05Facts", "Dawgs.Props.C06"],
    "theorems_by_module": THEOREMS,
    "gate_modules": ["Dawgs.Model.C05", "Dawgs.Proofs.C05", "Dawgs.Props.C05", "Dawgs.Props.C05Facts", "Driver.C05"],
    "suites": [
        {"name": "walkc05", "model_suite": "walkc05", "keep_prefix": 1, "thorough_seeds": 1},
        {"name": "c05", "judge": judge, "keep_prefix": 1, "thorough_seeds": 1, "timeout": 3000},
    ],
    "nontrivial": nontrivial,
    "finding_key": finding_key,
    "panic_is_violation": True,
    "rule": "suite c05 (search): cases = every Cypher text of the repository corpora (with their cypher_params) + generated queries (300 quick / 3000 thorough) + "
            "reflection mutants of each (1 / 6 per query: nil-ed optional, dropped / duplicated / swapped list item, flipped flag) + 27 queries assembled with the "
            "builders of /repo/query (supported and unsupported shapes) + 32 hand-assembled cypher model values with nil optionals + the "
            "kind-mapper race probe + 24 (200) kind-mapper contract cases (16 goroutines translate the same CREATE naming FRESH kinds against one mapper: outputs byte-equal, "
            "afterwards one id per kind, one kind per id, ids dense; label lists mixing already registered and fresh kinds in every order, first call vs "
            "sequential repeat vs the 16 concurrent calls; the single-threaded repeated label (n:K:K); and never-seen kind names whose query text every goroutine PARSES itself behind the barrier, "
            "so that the first interning of the name is concurrent too; one id per kind NAME, compared by String()) + 10 fixed and 40 (600) generated "
            "multi-path shapes (2-3 path variables, each referenced at least twice through nodes()/relationships()/size() in RETURN or only in the tail WHERE). + 16 totality shapes + 12 fixed and 40 (600) generated property maps whose keys differ only in case (ASCII and Unicode case pairs; node / relationship / "
            "CREATE / SET += positions; values as parameters so that the walk order shows in the parameter numbering) + 16 parameter-shape cases including library values "
            "(*graph.Properties fresh with nil Map, with nil tracking sets, after Set/Delete, nil pointer; graph.Kinds, []graph.ID(nil), *time.Time, empty vs nil slices and maps) "
            "compared structurally before / after the sequential phase and after the concurrent phase, nil-vs-empty included + the parameter VALUE matrix of harness/c05params.go: "
            "15 parameter positions (IN list, id list, property / kinds comparison, pattern / CREATE / SET property and property map, UNWIND, relationship property, function "
            "argument, projection, SKIP/LIMIT) x 92 values: one of every dynamic type the type switches of pgsql.ValueToDataType / NegotiateValue know (table regenerated from "
            "the source, Facts.parameter_value_types_generated) in nil / empty non-nil / non-empty form for slices and maps, nil / non-nil for pointers, []any also with one, "
            "several, mixed, nested-empty, nil elements, plus unsupported types. Battery per case: the SAME AST object and parameter map translated 10x sequentially and 16x concurrently against ONE kind mapper "
            "shared by the whole run, each under recover with a 10 s budget; all 26 outcomes (status, error text, SQL, result parameters) byte-compared; ToSexp(AST) and "
            "ToSexp(params) compared before/after. Non-trivial = the full battery of 26 translations ran (the query translates or is rejected with an error). "
            "suite walkc05 (tie): the REAL walk.Generic instantiated on the harness's tree type with scripted visitors (Consume / SetDone / SetError at the k-th callback, "
            "cursor constructor refusing a label) vs the Lean model: all trees <= 4 (5) nodes x every single action at every callback index, + random trees <= 16 nodes x "
            "up to 3 actions; non-trivial = at least three callbacks. distinct = distinct op lines (sha1)",
    "expected_branches": ["class.ok", "class.err", "kind.mutant", "kind.builder", "kind.hand", "kind.params", "ptype.[]any.empty", "ptype.[]any.nil", "ptype.[]string.empty", "ptype.map[string]any.empty", "kind.kindmapper", "gen.pathshapes", "walk.with_consume", "walk.err", "walk.conserr"],
    "trusted_base": ["tools/extract/gotyped c05 (go/types classification of map ranges and of parameter/query uses)",
                     "harness/c05params.go (declared type/form of each value checked by the runner against the value)", "harness/c05.go battery (recover, time budget, byte comparison, reflection S-expressions of inputs)",
                     "Go race detector in the thorough tier"],
    "assumptions": ["panic-freedom and bounded time of the translator are covered by search only, not by proof",
                    "deepness of cypher.Copy field by field is C11's theorem (copy_equal_and_fresh over the regenerated schema); C05 uses the minimal address model and checks AST immutability at run time",
                    "concurrency: one InMemoryKindMapper is shared by the whole run; the race probe asserts NEW kinds from 16 goroutines (locked since the fix)"],
    "extra_coverage": extra_coverage,
    "explanation": "Lean proofs: walker termination / error discipline, copy isolation, order-independence lemmas, kind-mapper contract over the lock-level LTS. Kernel-checked "
                   "typed tables: every map range order-insensitive or exempt with reason, no other nondeterminism source, no package-level state written or aliased "
                   "(no_shared_mutable_state), no write into AST / caller's parameter map, kind "
                   "mapper lock discipline, unguarded partial operations pinned; kind ids never change once handed out (kind_ids_never_change). Trusted: Go semantics for the last step of determinism and side-effect freedom. Searched only: "
                   "panic-freedom (nil dereferences, unverified guards), bounded time, end-to-end byte determinism and input immutability as confirmation. coverage.clause_map: clause -> theorem / table + trusted step / search",
}

MANIFEST = {
    "category": "other",
    "technique": "Lean 4 proofs of the structural ingredients + kernel-checked side conditions (`decide`) over TYPED fact tables regenerated from the sources "
                 "(go/types extractor) for determinism, isolation and side-effect freedom + differential tie of the walker model + a 26-fold repeated/concurrent "
                 "translation search under recover, time budget, coverage measurement of the unguarded partial operations and (thorough) the race detector",
    "text": "PARTIAL (category other). Clause by clause (coverage.clause_map): "
            "TOTAL and BOUNDED TIME — searched only; proved just for walk.Generic (at most two iterations per AST node provided each callback returns; never a "
            "callback after one that left an error, which is what it returns; model tied to the real walker) and narrowed by a kernel-checked list of the 23 "
            "expressions in translate/ that are unguarded partial operations, with Go coverage showing which of them each run executes under recover. "
            "REPEAT = BYTE-IDENTICAL — kernel-checked tables plus ONE trusted step: every `range` over a map in translate/, optimize/, format/, pgsql/, cypher/, walk/, "
            "pgutil has an order-insensitive shape (each shape a Lean lemma over all lists: fold_perm_invariant with its commutation hypothesis and 5 instances) or is "
            "one of three exempt loops with a stated reason; every caller-ordered sort is a total order; there is no select, go statement, clock, random, sync.Map, "
            "reflective / iterator map traversal, %p, unsafe or environment read; NEW: no package-level variable is written, address-taken or leaves through an alias, "
            "i.e. all mutable state is per call (no_shared_mutable_state); AssertKinds returns ids position-wise and a repeated call returns the same list "
            "(assert_kinds_repeatable). Trusted step: a sequential Go program without these constructs and without state outside its arguments is a function of its inputs. "
            "CONCURRENT = SAME — the same isolation tables and step, and for the single shared object a Lean proof over EVERY interleaving of any number of goroutines: "
            "a consistent in-memory kind mapper keeps exactly one id per kind (assert_kinds_idempotent) and an id once handed out never changes in any continuation "
            "(kind_ids_never_change, new); the premises are source facts (every method touching the maps holds the lock; check and allocation in one critical "
            "section; graph.StringKind interns through one atomic LoadOrStore); trusted: sync primitives provide that atomicity. "
            "CALLER'S AST UNCHANGED — tables plus one trusted step: Optimize touches the caller's query only through cypher.Copy and Translate only through Optimize; writes "
            "into a deep copy cannot reach the original (optimize_isolated; deepness of Copy is C11's theorem); no assignment, delete, mutating method or reflective setter "
            "anywhere in translate/, format/, pgsql/ targets a cypher model value. CALLER'S PARAMETER MAP UNCHANGED — NewTranslator copies the map entry by entry; every "
            "write into a map[string]any goes into a map made locally, the result map or a field that only holds such maps; every method called on a graph-package value "
            "is non-mutating by the C12 API table. Trusted step for both: the typed classification sees every write. Nested parameter values other than graph types are "
            "covered only by the run-time deep comparison. "
            "SEARCH (confirmation of every clause, sole support of the first two): per case the SAME AST object and parameter map translated 10x sequentially and 16x "
            "concurrently against one shared mapper, all outcomes byte-compared, inputs compared before / between / after; corpus, generated, mutated, builder-built ASTs, "
            "multi-path shapes, case-colliding property maps, library-typed parameter values, fresh-kind CREATEs incl. first interning inside the goroutines.",
    "note": "The full statement is visible as def C05_full (abstract implementation) and is NOT proved for the Go translator. All six defects this check found are fixed in /repo "
            "(known_findings.json: nil-parameter panic, two quantifier panics 96c29d3, MapStringAnyToJSONB writing a caller value 0d591b4, unsynchronised kind mapper 8bba343, "
            "AssertKinds id order 576f2e1); none is pending. Panics on hand-assembled or mutated ASTs that parser and builders never produce are outside the quantifier and "
            "counted as information only. Trusted: Lean kernel, the extractors (go/ast, go/types), the harness, Go's semantics for the steps named above.",
}


# unguarded partial operations that the quick generators do not execute, with the reason they cannot fail
UNREACHED_NOTES = {
    ("translate/expansion.go", "rewriteBoundEndpointSeedReference"):
        "case *pgsql.T: asserts the result of the recursive call on the dereferenced value to pgsql.T; the function's own `case pgsql.T` returns "
        "exactly that type (self-consistent); executed only when a pointer-typed node sits inside a bound-endpoint constraint",
    ("translate/path_functions.go", "resolvePathCompositeFieldReferences"):
        "case *pgsql.T: asserts the result of the recursive call on the dereferenced value to pgsql.T, which the `case pgsql.T` arm of the same function returns",
    ("translate/function.go", "Translator.translateCoalesceFunction"):
        "arguments has length numArgs = len(functionInvocation.Arguments) and idx ranges over that slice, so numArgs-idx-1 is in bounds",
}


def totality_pass(tier, seed):
    """Which of the unguarded partial operations of translate/ (Generated/C05_ranges.lean) does the search execute?
    Go coverage instrumentation of package translate, suite c05 (quick generators), every translation under recover."""
    out = {"measured": False}
    t0 = time.time()
    gen = os.path.join(verif.LEAN, "Dawgs", "Generated", "C05_ranges.lean")
    try:
        txt = open(gen).read()
        a = txt.index("def unguardedPartialSites")
        body = txt[a:txt.index("]\n\n", a)]
        sites = re.findall(r'\("([^"]+)", (\d+), "([^"]+)", "(\w+)", "((?:[^"\\]|\\.)*)"', body)
        counts = dict((k, int(v)) for k, v in re.findall(r'\("([a-z\-]+:[a-z\-]+)", (\d+)\)', txt[txt.index("def partialSiteCounts"):]))
    except Exception as e:
        out["error"] = "cannot read the generated table: %r" % (e,)
        return out
    work = os.path.join(verif.VERIF, "work", "C05cov")
    import shutil
    shutil.rmtree(work, ignore_errors=True)
    os.makedirs(os.path.join(work, "cov"))
    cover_bin = verif.HARNESS_BIN + "-cover"
    rc, o = verif.sh(["go", "build", "-cover", "-coverpkg=.,github.com/specterops/dawgs/cypher/models/pgsql/translate,github.com/specterops/dawgs/cypher/models/pgsql", "-tags", "verif", "-o", cover_bin, "."],
                     cwd=verif.HARNESS, env=verif.GOENV, timeout=1800)
    if rc != 0:
        out["error"] = "coverage build failed: " + o[-400:]
        return out
    ops = os.path.join(work, "ops")
    verif.sh([verif.HARNESS_BIN, "c05", "gen", "-seed", str(seed), "-tier", "quick", "-ops", ops], env=verif.GOENV, timeout=600)
    env = dict(verif.GOENV, GOCOVERDIR=os.path.join(work, "cov"))
    verif.sh([cover_bin, "c05", "run", "-ops", ops, "-out", os.path.join(work, "impl")], env=env, timeout=3000)
    prof = os.path.join(work, "cov.txt")
    verif.sh(["go", "tool", "covdata", "textfmt", "-i=" + os.path.join(work, "cov"), "-o=" + prof], cwd=verif.HARNESS, env=verif.GOENV, timeout=600)
    blocks = {}
    try:
        for l in open(prof):
            m = re.match(r"(.+):(\d+)\.\d+,(\d+)\.\d+ \d+ (\d+)", l)
            if m:
                parts = m.group(1).split("/")
                blocks.setdefault(parts[-2] + "/" + parts[-1], []).append((int(m.group(2)), int(m.group(3)), int(m.group(4))))
    except Exception as e:
        out["error"] = "no coverage profile: %r" % (e,)
        return out
    reached, unreached, unexplained = [], [], []
    for f, line, fn, kind, expr in sites:
        line = int(line)
        inb = [c for (l0, l1, c) in blocks.get(f, []) if l0 <= line <= l1]
        if inb:
            hit = max(inb)
        else:
            prev = [(l0, c) for (l0, l1, c) in blocks.get(f, []) if l0 <= line]
            hit = max(prev)[1] if prev else 0
        if hit:
            reached.append("%s:%d %s" % (f, line, fn))
        else:
            note = UNREACHED_NOTES.get((f, fn))
            unreached.append({"site": "%s:%d %s %s %s" % (f, line, fn, kind, expr[:60]), "why_it_cannot_fail": note or "UNEXPLAINED"})
            if not note:
                unexplained.append("%s:%d %s" % (f, line, fn))
    panics = sum(1 for l in verif.read_lines(os.path.join(work, "impl")) if l.startswith("cls=panic") and "label=text" in l or "label=builder" in l and l.startswith("cls=panic"))
    out.update({"measured": True, "partial_operations_by_kind_and_guard": counts, "unguarded_sites": len(sites), "unguarded_sites_reached": len(reached),
                "unguarded_sites_unreached": unreached, "unguarded_sites_unexplained": unexplained,
                "panics_on_parser_or_builder_input_in_this_pass": panics, "wall_s": round(time.time() - t0, 1)})
    return out


def run(spec, tier, seed, replay):
    """generic flow, then the totality measurement, then (thorough tier) the same search once more under the race detector"""
    rc = flow.run_property(spec, tier, seed, replay)
    if replay:
        return rc
    tot = totality_pass(tier, seed)
    p = os.path.join(verif.VERIF, "evidence", "C05.json")
    ev = json.load(open(p))
    ev["coverage"]["totality"] = tot
    if tot.get("unguarded_sites_unexplained"):
        ev["coverage"].setdefault("coverage_warnings", []).append("unguarded partial operations neither executed nor explained: " + ", ".join(tot["unguarded_sites_unexplained"]))
    ev["wall_s"] = round(ev["wall_s"] + tot.get("wall_s", 0), 2)
    open(p, "w").write(json.dumps(ev, indent=1))
    print("totality pass: %d unguarded sites, %d executed by the search, %d not (%d unexplained), %.1fs" % (
        tot.get("unguarded_sites", 0), tot.get("unguarded_sites_reached", 0), len(tot.get("unguarded_sites_unreached", [])),
        len(tot.get("unguarded_sites_unexplained", [])), tot.get("wall_s", 0)), flush=True)
    if tier != "thorough":
        return rc
    ctx = verif.Ctx("C05", tier, seed)
    t0 = time.time()
    ok, out = verif.build_harness(ctx, race=True)
    race = {"built": ok}
    if ok:
        ops = ctx.path("race.ops")
        verif.harness(ctx, "c05", "gen", ["-seed", str(seed), "-tier", "quick", "-ops", ops], race=True)
        rcode, out = verif.harness(ctx, "c05", "run", ["-ops", ops, "-out", ctx.path("race.impl")], race=True, timeout=3000)
        reports = out.count("WARNING: DATA RACE")
        race.update({"exit_code": rcode, "data_race_reports_in_harness_process": reports, "cases": sum(1 for l in verif.read_lines(ops) if l.startswith("# case"))})
        if reports or rcode not in (0,):
            first = out[out.find("WARNING: DATA RACE"):][:3000] if reports else out[-2000:]
            verif.report_finding(ctx, "C05:translate:data-race", "race detector reports a data race during concurrent translation against the shared kind mapper",
                                 {"kind": "input", "suite": "c05", "race_report": first, "how_to_replay": "build the harness with -race and run suite c05"})
    race["wall_s"] = round(time.time() - t0, 1)
    p = os.path.join(verif.VERIF, "evidence", "C05.json")
    ev = json.load(open(p))
    ev["coverage"]["race_pass"] = race
    ev["violations"] = ev.get("violations", 0) + len(ctx.violations)
    ev["wall_s"] = round(ev["wall_s"] + race["wall_s"], 2)
    open(p, "w").write(json.dumps(ev, indent=1))
    print("race pass:", race, flush=True)
    return 1 if (rc or ctx.violations) else 0
