import json, re

THEOREMS = {
    "Dawgs.Props.C01": [],
}

_OK = re.compile(r"ok km=(\(list.*?\)) params=(\(map.*?\)|nil) cy=(.*?) sql=\"(?:[^\"\\]|\\.)*\" stmt=(.*)$")


def model_input(op, impl):
    m = _OK.match(impl)
    if not m:
        return "skip"
    nums = op.rsplit('"', 1)[1].split()
    if len(nums) != 4:
        return "skip"
    return "sem %s %s %s %s %s %s %s %s" % (nums[0], nums[1], nums[2], nums[3], m.group(1), m.group(2), m.group(3), m.group(4))


def impl_view(impl):
    return "-"


def model_view(model):
    return "-"


def _rt_class(detail):
    d = detail.lower().replace("_", " ")
    for pat, cls in (("type bigint", "integer-cast-of-non-integer-text"), ("type numeric", "numeric-cast-of-non-numeric-text"),
                     ("type boolean", "boolean-cast-of-non-boolean-text"), ("jsonb non-number", "jsonb-number-cast-of-non-number"),
                     ("jsonb non-boolean", "jsonb-boolean-cast-of-non-boolean"), ("array length", "jsonb-array-length-of-non-array"),
                     ("extract elements", "jsonb-array-elements-of-non-array"), ("more than one row", "scalar-subquery-many-rows"),
                     ("division by zero", "division-by-zero"), ("same node", "shortest-path-self-endpoint")):
        if pat in d:
            return cls
    return re.sub(r"[^a-z]+", "-", d[:40]).strip("-")


def judge(op, impl, model):
    if impl.startswith("panic"):
        return "reject harness-panic " + impl[:80]
    if not impl.startswith("ok "):
        return "ok"
    v = model.strip()
    w = v.split()
    if not w or w[0] in ("skip", "agree", "unmodelled"):
        return "ok"
    if w[0] == "differ":
        if len(w) > 1 and w[1] == "unexplained":
            return "reject unexplained-difference " + " ".join(w[2:])[:1500].replace(" ", "_")
        m = re.search(r" explained=(\S+)", v)
        names = m.group(1).split(",")[0].split("+") if m else ["?"]
        return "reject deviation:%s %s" % (names[0], " ".join(w[2:])[:1500].replace(" ", "_"))
    if w[0] == "sql-runtime-error":
        m = re.search(r"usql=\d+ (\S+) graph=", v)
        return "reject sql-runtime-error:%s %s" % (_rt_class(m.group(1) if m else v), " ".join(w[1:])[:1200].replace(" ", "_"))
    if w[0] == "sql-typing":
        return "reject sql-type-error:%s %s" % (re.sub(r"[^a-z=<>!]+", "-", w[1].lower())[:50].strip("-"), " ".join(w[1:])[:600].replace(" ", "_"))
    if w[0] == "sql-name":
        return "ok"                # unbound names are C03's findings (the statement does not even bind)
    if w[0] == "bad-op":
        return "reject driver-could-not-read bad-op"
    return "reject %s %s" % (w[0], " ".join(w[1:])[:300].replace(" ", "_"))


def nontrivial(ops, impl):
    # translated statement with at least one relationship step or a second frame
    return any(r.startswith("ok ") and (r.count("(pgsql.CommonTableExpression ") >= 2 or "pgsql.Join " in r) for r in impl)


def finding_key(suite, ops, line, msg):
    parts = msg.split()
    return "C01:" + (parts[1] if len(parts) > 1 else "reject")


def extra_coverage(ctx, stats):
    hist, unmodelled, quirks = {}, {}, {}
    graphs = agree = 0
    try:
        for l in open(ctx.path("c01_all.model")):
            l = l.strip()
            if not l or l == "#":
                continue
            w = l.split()
            k = w[0] + ("-" + w[1] if w[0] == "differ" and len(w) > 1 else "")
            hist[k] = hist.get(k, 0) + 1
            if w[0] == "unmodelled" and len(w) > 1:
                unmodelled[w[1]] = unmodelled.get(w[1], 0) + 1
            m = re.search(r"graphs=(\d+) agree=(\d+)", l)
            if m:
                graphs += int(m.group(1)); agree += int(m.group(2))
            m = re.search(r" explained=(\S+)", l)
            if m:
                for cls in m.group(1).split(","):
                    for q in cls.split("+"):
                        quirks[q] = quirks.get(q, 0) + 1
    except OSError:
        pass
    return {"semantic_outcomes_per_query": dict(sorted(hist.items())), "unmodelled_by_construct": dict(sorted(unmodelled.items())),
            "graph_evaluations": graphs, "graph_evaluations_agreeing": agree, "deviations_needed_to_explain": dict(sorted(quirks.items())),
            "fragment_proved": "S1 (see MANIFEST text)", "fragment_searched": "every translatable corpus / generated query both evaluators model (per-construct unmodelled counts above)"}


SPEC = {
    "id": "C01",
    "title": "Cypher-to-PostgreSQL translation preserves read-query results",
    "level": "translation_validation",
    "fallback_level": "other",
    "lean_modules": ["Dawgs.Props.C01"],
    "theorems_by_module": THEOREMS,
    "gate_modules": ["Dawgs.Model.Graph", "Dawgs.Model.Cypher", "Dawgs.Model.CyEval", "Dawgs.Model.SqlVal", "Dawgs.Model.SqlEval", "Dawgs.Props.C01"],
    "suites": [{"name": "c01", "model_suite": "c01sem", "model_input": model_input, "impl_view": impl_view, "model_view": model_view,
                "judge": judge, "keep_prefix": 1, "thorough_seeds": 1}],
    "nontrivial": nontrivial,
    "finding_key": finding_key,
    "extra_coverage": extra_coverage,
    "panic_is_violation": False,
    "rule": "",
    "expected_branches": ["translated"],
    "trusted_base": [],
    "assumptions": [],
}

MANIFEST = {"category": "translation_validation", "technique": "", "text": "", "note": ""}
