import json, re

THEOREMS = {
    "Dawgs.Props.C01": [
        "Dawgs.C01.Props.tr_some", "Dawgs.C01.Props.tr_sound_S1", "Dawgs.C01.Props.tr_no_runtime_error", "Dawgs.C01.Props.tr_cypher_defined",
        "Dawgs.C01.Props.tr_rejects_or_sound", "Dawgs.C01.Props.c01_partial", "Dawgs.C01.Props.kind_match_encode", "Dawgs.C01.Props.string_eq_guard",
        "Dawgs.C01.Props.where_pred_sound", "Dawgs.C01.Props.ofCy_sound", "Dawgs.C01.Props.graphOK_of_check", "Dawgs.C01.Props.exG_ok",
        "Dawgs.C01.Props.tr2_some", "Dawgs.C01.Props.tr_sound_S2", "Dawgs.C01.Props.tr_sound_S2b", "Dawgs.C01.Props.tr2_cypher_defined",
        "Dawgs.C01.Props.tr2_no_runtime_error", "Dawgs.C01.Props.c01_partial_S2",
        "Dawgs.C01.Props.ofCy2_sound", "Dawgs.C01.Props.graphOK2_of_check", "Dawgs.C01.Props.exG2_ok",
        "Dawgs.C01.Props.tr3_some", "Dawgs.C01.Props.tr_sound_S2c", "Dawgs.C01.Props.c01_partial_S3", "Dawgs.C01.Props.ofCyChain_sound",
        "Dawgs.C01.Props.tr4_some", "Dawgs.C01.Props.tr_sound_S1c", "Dawgs.C01.Props.c01_partial_S4", "Dawgs.C01.Props.ofCyCount1_sound",
        "Dawgs.C01.Props.tr5_some", "Dawgs.C01.Props.tr_sound_S2n", "Dawgs.C01.Props.c01_partial_S5", "Dawgs.C01.Props.ofCyCount2_sound",
        "Dawgs.C01.Props.ofCyLimit2_sound", "Dawgs.C01.Props.tr6_some", "Dawgs.C01.Props.limit_refused_iff", "Dawgs.C01.Props.tr_sound_S2L",
        "Dawgs.C01.Props.tr_noerr_S2L", "Dawgs.C01.Props.tr_sound_S2L_forced",
        "Dawgs.C01.Props.ofCyWith_sound", "Dawgs.C01.Props.tr7_some", "Dawgs.C01.Props.tr_sound_S3a", "Dawgs.C01.Props.tr_total_S3a",
        "Dawgs.C01.Props.ofCyWithHop_sound", "Dawgs.C01.Props.tr_sound_S3b", "Dawgs.C01.Props.tr_total_S3b",
        "Dawgs.C01.Props.ofCyOrder_sound", "Dawgs.C01.Props.keyOK_of_check", "Dawgs.C01.Props.tr8_some", "Dawgs.C01.Props.tr_sound_S1o", "Dawgs.C01.Props.tr_total_S1o",
        "Dawgs.C01.Props.ofCyDistinct_sound", "Dawgs.C01.Props.keysScalar_of_check", "Dawgs.C01.Props.tr9_some", "Dawgs.C01.Props.tr_sound_S1d", "Dawgs.C01.Props.tr_total_S1d",
        "Dawgs.C01.Props.ofCyCross_sound", "Dawgs.C01.Props.crossScalar_of_check", "Dawgs.C01.Props.tr10_some", "Dawgs.C01.Props.tr_sound_S2x", "Dawgs.C01.Props.tr_noerr_S2x",
    ],
}

_OK = re.compile(r"ok km=(\(list.*?\)) params=(\(map.*?\)|nil) cy=(.*?) sql=\"(?:[^\"\\]|\\.)*\" stmt=(.*)$")


def model_input(op, impl):
    m = _OK.match(impl)
    if not m:
        return "skip"
    nums = [t for t in op.rsplit('"', 1)[1].split() if not t.startswith("p=")]   # p=<hex>: query parameters, read by the harness
    if len(nums) != 4:
        return "skip"
    return "sem %s %s %s %s %s %s %s %s" % (nums[0], nums[1], nums[2], nums[3], m.group(1), m.group(2), m.group(3), m.group(4))


def impl_view(impl):
    return "-"


def model_view(model):
    return "-"


def _rt_class(detail):
    d = detail.lower().replace("_", " ")
    for pat, cls in (("type bigint", "integer-cast-of-non-integer-text"), ("type numeric", "numeric-cast-of-non-numeric-text"),
                     ("type boolean", "boolean-cast-of-non-boolean-text"), ("jsonb non-number", "jsonb-number-cast-of-non-number"),
                     ("jsonb non-boolean", "jsonb-boolean-cast-of-non-boolean"), ("array length", "jsonb-array-length-of-non-array"),
                     ("extract elements", "jsonb-array-elements-of-non-array"), ("more than one row", "scalar-subquery-many-rows"),
                     ("division by zero", "division-by-zero"), ("same node", "shortest-path-self-endpoint")):
        if pat in d:
            return cls
    return re.sub(r"[^a-z]+", "-", d[:40]).strip("-")


def judge(op, impl, model):
    if impl.startswith("panic"):
        return "reject harness-panic " + impl[:80]
    if impl.startswith("range-differs"):
        # a variable-length bound outside the int64 range: the reference (bounds read from the text) refuses, the translator accepted the query
        return "reject range-bound-out-of-range-accepted " + impl[:200].replace(" ", "_")
    if impl.startswith("lit-differs"):
        # harness/littie.go: a numeric literal of the statement is not written with its value in the SQL text that PostgreSQL gets
        return "reject sql-text-literal-differs-from-statement " + impl[:300].replace(" ", "_")
    if not impl.startswith("ok "):
        return "ok"
    v = model.strip()
    w = v.split()
    if not w or w[0] in ("skip", "agree", "unmodelled"):
        return "ok"
    if w[0] == "differ":
        if len(w) > 1 and w[1] == "unexplained":
            # one registered defect has no deviation switch in the reference semantics (it would need the pattern's own earlier bindings in
            # matchSteps): keyed by the enabling shape of the query; every other unexplained difference keeps the catch-all key
            import cyshape
            mq = re.match(r'q ("(?:[^"\\]|\\.)*")', op)
            feats = cyshape.features(json.loads(mq.group(1))) if mq else set()
            if "varlen-in-pattern-that-repeats-a-node-variable" in feats:
                return "reject rows-differ:expansion-in-pattern-that-repeats-a-node-variable " + " ".join(w[2:])[:1500].replace(" ", "_")
            if "quantifier-in-where-of-optional-match-with-rel-pattern" in feats:
                return "reject rows-differ:quantifier-in-where-of-optional-match-over-a-relationship-pattern " + " ".join(w[2:])[:1500].replace(" ", "_")
            return "reject unexplained-difference " + " ".join(w[2:])[:1500].replace(" ", "_")
        m = re.search(r" explained=(\S+)", v)
        names = m.group(1).split(",")[0].split("+") if m else ["?"]
        if names[0] == "multiplicity-only":
            # same set of rows, different multiplicities, and no deviation switch explains it: keyed by the enabling shape of the query
            import cyshape
            mq = re.match(r'q ("(?:[^"\\]|\\.)*")', op)
            feats = cyshape.features(json.loads(mq.group(1))) if mq else set()
            shape = ("chain-through-node-carried-by-with" if {"with", "pattern-uses-earlier-binding", "rel-pattern"} <= feats
                     else "exact-length-expansion-in-pattern-with-node-bound-by-earlier-clause" if "exact-length-expansion-uses-earlier-binding" in feats
                     else "expansion-in-pattern-that-repeats-a-node-variable" if "varlen-in-pattern-that-repeats-a-node-variable" in feats
                     else "optional-match-after-relationship-pattern" if "optional-match-after-rel-pattern" in feats
                     else "unrecognised-query-shape")
            return "reject multiplicity-only-difference:%s %s" % (shape, " ".join(w[2:])[:1500].replace(" ", "_"))
        if names[0] == "path-in-reverse-order":
            # a symptom, not a switch of the reference semantics: keyed by the enabling shape of the query, so that the same symptom on
            # another shape is not covered by the registered finding
            import cyshape
            mq = re.match(r'q ("(?:[^"\\]|\\.)*")', op)
            feats = cyshape.features(json.loads(mq.group(1))) if mq else set()
            shape = ("path-variable-renamed-in-with" if "path-variable-renamed-in-with" in feats else "unrecognised-query-shape")
            return "reject path-in-reverse-order:%s %s" % (shape, " ".join(w[2:])[:1500].replace(" ", "_"))
        return "reject deviation:%s %s" % (names[0], " ".join(w[2:])[:1500].replace(" ", "_"))
    if w[0] == "sql-runtime-error":
        m = re.search(r"usql=\d+ (\S+) graph=", v)
        return "reject sql-runtime-error:%s %s" % (_rt_class(m.group(1) if m else v), " ".join(w[1:])[:1200].replace(" ", "_"))
    if w[0] == "sql-typing":
        cls = re.sub(r"[^a-z]+", "-", re.sub(r"comparison_\S+_between", "comparison_between", w[1].lower()))[:60].strip("-")
        return "reject sql-type-error:%s %s" % (cls, " ".join(w[1:])[:600].replace(" ", "_"))
    if w[0] == "sql-name":
        return "ok"                # unbound names are C03's findings (the statement does not even bind)
    if w[0] == "bad-op":
        return "reject driver-could-not-read bad-op"
    return "reject %s %s" % (w[0], " ".join(w[1:])[:300].replace(" ", "_"))


def tie_judge(op, impl, model):
    if impl.startswith("panic"):
        return "reject harness-panic " + impl[:80]
    if impl.startswith("range-differs"):
        # a variable-length bound outside the int64 range: the reference (bounds read from the text) refuses, the translator accepted the query
        return "reject range-bound-out-of-range-accepted " + impl[:200].replace(" ", "_")
    if impl.startswith("lit-differs"):
        # harness/littie.go: a numeric literal of the statement is not written with its value in the SQL text that PostgreSQL gets
        return "reject sql-text-literal-differs-from-statement " + impl[:300].replace(" ", "_")
    if not impl.startswith("ok "):
        return "reject tie:fragment-query-not-translated " + impl[:200].replace(" ", "_")
    v = model.strip()
    w = v.split()
    if not w:
        return "reject driver-could-not-read empty"
    if w[0] == "tie-ok":
        return "ok"
    if w[0] == "outside-fragment":
        # the S1 generator of the harness only emits fragment queries: a query the recogniser declines is a generator / recogniser bug
        return "reject tie:generated-fragment-query-not-recognised " + v[:300].replace(" ", "_")
    if w[0] == "tie-differs-real-statement-not-closed":
        # the real statement differs from the model statement AND does not pass C03's verified binder: a scoping defect of the real translator
        # inside the proved fragment; keyed by the enabling shape of the query (lib/cyshape.py), an unregistered shape is never a known finding
        import cyshape
        mq = re.match(r'q ("(?:[^"\\]|\\.)*")', op)
        feats = cyshape.features(json.loads(mq.group(1))) if mq else set()
        shape = ("variable-carried-then-renamed-in-one-with" if "with-variable-carried-then-renamed" in feats else "unrecognised-query-shape")
        return "reject tie:real-statement-not-closed:%s %s" % (shape, v[:1500].replace(" ", "_"))
    if w[0] == "tie-differs":
        return "reject tie:model-translator-differs-from-real-translator " + v[:1500].replace(" ", "_")
    if w[0] == "tie-proof-mismatch":
        return "reject tie:evaluators-disagree-inside-proved-fragment " + v[:1500].replace(" ", "_")
    return "reject driver-could-not-read " + v[:100].replace(" ", "_")


def nontrivial(ops, impl):
    # translated statement with at least one relationship step or a second frame
    return any(r.startswith("ok ") and (r.count("(pgsql.CommonTableExpression ") >= 2 or "pgsql.Join " in r) for r in impl)


def finding_key(suite, ops, line, msg):
    parts = msg.split()
    return "C01:" + (parts[1] if len(parts) > 1 else "reject")


def _tie_counts(ctx):
    out = {"tie_ok": 0, "tie_other": 0, "graphs": 0, "graphs_satisfying_GraphOK": 0, "agree": 0, "sql_model_unmodelled": 0,
           "graphs_outside_hypothesis": 0, "outside_hypothesis_agreeing": 0}
    try:
        for l in open(ctx.path("c01tie_all.model")):
            l = l.strip()
            if not l or l == "#":
                continue
            if not l.startswith("tie-ok"):
                out["tie_other"] += 1
                continue
            out["tie_ok"] += 1
            m = re.search(r"graphs=(\d+) hyp=(\d+) agree=(\d+) usql=(\d+) outside-hyp=(\d+) outside-hyp-agree=(\d+)", l)
            if m:
                for k, v in zip(("graphs", "graphs_satisfying_GraphOK", "agree", "sql_model_unmodelled", "graphs_outside_hypothesis",
                                 "outside_hypothesis_agreeing"), m.groups()):
                    out[k] += int(v)
    except OSError:
        pass
    return out


def extra_coverage(ctx, stats):
    hist, unmodelled, quirks = {}, {}, {}
    graphs = agree = 0
    try:
        for l in open(ctx.path("c01_all.model")):
            l = l.strip()
            if not l or l == "#":
                continue
            w = l.split()
            k = w[0] + ("-" + w[1] if w[0] == "differ" and len(w) > 1 else "")
            hist[k] = hist.get(k, 0) + 1
            if w[0] == "unmodelled" and len(w) > 1:
                unmodelled[w[1]] = unmodelled.get(w[1], 0) + 1
            m = re.search(r"graphs=(\d+) agree=(\d+)", l)
            if m:
                graphs += int(m.group(1)); agree += int(m.group(2))
            m = re.search(r" explained=(\S+)", l)
            if m:
                for cls in m.group(1).split(","):
                    for q in cls.split("+"):
                        quirks[q] = quirks.get(q, 0) + 1
    except OSError:
        pass
    return {"semantic_outcomes_per_query": dict(sorted(hist.items())), "unmodelled_by_construct": dict(sorted(unmodelled.items())),
            "graph_evaluations": graphs, "graph_evaluations_agreeing": agree, "deviations_needed_to_explain": dict(sorted(quirks.items())),
            "fragment_proved": FRAGMENT_PROVED, "fragment_searched": FRAGMENT_SEARCHED,
            "tie1_model_translator_equals_real_translator": _tie_counts(ctx)}


FRAGMENT_PROVED = ("stage S1 (all graphs with unique node ids / injective kind map / no stored JSON null, all queries): "
                   "MATCH (n[:K...]) [WHERE p] RETURN items [ORDER BY id(n) [ASC|DESC] [SKIP k] [LIMIT k]]; "
                   "p ::= n.k = 'str' | n.k = int | n.k <> int | n.k IS [NOT] NULL | id(n) (= <> < <= > >=) int | n:K1:K2 | p AND p | p OR p | NOT p | (p); "
                   "items ::= n | n.k | id(n) [AS a]. "
                   "stage S1c (same graphs as S1; BOTH statement shapes): MATCH (n[:K...]) [WHERE p] RETURN count(n) [AS c] with p as in S1 — the count-store fast path "
                   "`select count(*)::int8 [as c] from node n0 [where kinds]` (emitted when the MATCH has no user predicate and the optimiser is on) and the node frame + "
                   "`select count(s0.n0)::int8 [as c] from s0` both return the one row the reference semantics returns, the number of matching nodes. "
                   "stage S2b (all graphs that additionally have unique relationship ids, only relationship kinds known to the kind map and no relationship property stored as JSON "
                   "null; all queries; BOTH join orders of the emitted statement; the frame PRUNED to the bindings that are read (what the optimised translator emits) or complete): "
                   "MATCH (a[:K...])-[r[:T1|T2...]]->(b[:K...]) [WHERE c1 AND ... AND cn] RETURN items, one directed fixed hop, no ORDER BY / SKIP / LIMIT / DISTINCT, a, r, b pairwise "
                   "distinct names, any non-empty list of items over them; every conjunct ci is a predicate p of the S1 language over exactly ONE of a, r, b (for r a kind atom r:T means "
                   "type(r) = T); conjuncts that read two variables are outside THIS stage (a.x = b.y: stage S2x below; a.x = 1 OR b.y = 2: no stage); items ::= x | id(x) | x.k [AS alias] for x in {a, r, b}; "
                   "the rows agree as a BAG (List.Perm), not as a list. "
                   "stage S2x (graphs as S2b in which every property key compared by a two-variable conjunct holds a string / number / boolean or is absent on every node — CrossScalar, decidable, checked on every generated graph; BOTH join orders; pruned or complete frame; rows agree as a BAG): an S2b query whose WHERE has, next to any number of single-variable conjuncts, AT LEAST ONE conjunct x.k = y.k' or x.k <> y.k' with {x, y} = {a, b}. The statement compares the stored values AS JSONB in the frame's WHERE: `((n0.properties -> 'k') = (n1.properties -> 'k2'))`; the conjuncts over b are then NOT in the join condition of n1 but in the same parenthesised WHERE term (the translator attaches both to the right node, and a term that mentions n0 cannot sit in the join condition of n1); that term stands before the relationship's constraints when n0 is joined first and after them when n1 is; inside it the group of b-conjuncts and the group of two-variable conjuncts are ordered by which group's LAST member comes later in the source (Query.bFirst), each group in source order. jsonb = / <> and openCypher = / <> agree on scalars (1 = 1.0, a string never equals a number, a missing property gives null in both) and not on arrays / objects — outside the hypothesis NOTHING is claimed. Conjuncts comparing a or b with r, two properties of the same variable, ordering comparisons between two properties and two-variable disjunctions are outside. "
                   "stage S2n (same graphs, join orders and pruning as S2b): MATCH (a[:K...])-[r[:T|...]]->(b[:K...]) [WHERE single-variable conjuncts] RETURN count(x) [AS c], x one "
                   "of a, r, b — one row, the number of matches. "
                   "stage S2L (same graphs, join orders and pruning as S2b; the LIMIT written on the statement only, or — limit pushdown — on the statement AND on the hop frame): "
                   "an S2b query followed by LIMIT k (integer literal >= 0), no ORDER BY, no SKIP. openCypher does not fix WHICH k rows such a query returns, and the reference "
                   "evaluator refuses it (`nondeterministic-limit-inside-ties`) exactly when 0 < k < number of rows of the base query (limit_refused_iff); the theorem is therefore "
                   "stated against the BASE query (the query without LIMIT): the statement's rows are a SUB-BAG of the base query's rows of exactly min(k, number of base rows) rows, "
                   "and they are the first k rows of a list that depends on the join order only; when the reference semantics does define the LIMIT query (k = 0 or k >= number of "
                   "base rows) the rows agree with it as a bag (tr_sound_S2L_forced). "
                   "stage S1o (graphs as S1 that additionally satisfy KeyOK for the sort key; rows in the SAME ORDER): ORDER BY ON A PROPERTY — MATCH (n[:K...]) [WHERE p] RETURN items ORDER BY n.k "
                   "[ASC|DESC] [SKIP i] [LIMIT j], items and p as in S1, no item other than n itself named like the variable. The statement sorts by the JSONB value "
                   "`order by ((s0.n0).properties -> 'k')` (Null < String < Number < Boolean < Array < Object, missing property last), openCypher orders String < Boolean < Number < null: the KNOWN "
                   "DEVIATION order-by-uses-jsonb-cross-type-order. KeyOK k = every value of k in the graph is a scalar (string / number / boolean) AND no node has a boolean value while another has a "
                   "number — exactly the condition under which the two orders of the values present coincide; decidable (keyOKb), checked on every generated graph. The theorem claims the rows whenever the "
                   "reference semantics answers; it refuses only a SKIP / LIMIT that cuts inside a block of equal keys (tr_total_S1o). "
                   "stage S1d (graphs as S1 in which every property key the RETURN reads holds a string / number / boolean or is absent on every node — KeysScalar, decidable, checked on every generated graph): RETURN DISTINCT — MATCH (n[:K...]) [WHERE p] RETURN DISTINCT items, items and p as in S1, no ORDER BY / SKIP / LIMIT. The statement is the S1 statement with `select distinct`; it compares returned property values as jsonb, openCypher compares them as Cypher values: on scalars the two notions of equal row coincide (1 = 1.0 in both, a missing property equals a missing property in both), on arrays / objects they do not (list equivalence with nulls inside, map equivalence undefined in the reference) — that is why the hypothesis is there, and outside it NOTHING is claimed. Both models keep the first row of every class in scan order, so the theorem gives list equality of the two models; about the real systems only the bag is a claim (no ORDER BY). The reference semantics always answers (tr_total_S1d). "
                   "stage S3a (same graphs as S1; rows in the SAME ORDER): ONE WITH between a node MATCH and the RETURN, plain projection items only — "
                   "MATCH (n[:K...]) [WHERE p] WITH w1, ..., wk RETURN r1, ..., rm with p as in S1, wi ::= n | n AS m | n.k AS x, rj ::= m | m.k | id(m) [AS a] for a node name m the WITH exports "
                   "| x [AS a] for a value name x it exports; no aggregation, DISTINCT, ORDER BY / SKIP / LIMIT or WHERE on the WITH; the exported names pairwise distinct, a value alias is "
                   "not the matched variable's name. The statement is nested: `with s0 as (with s1 as (<node frame>) select <wi over s1> from s1) select <rj over s0> from s0`, the hand-over frame s0 "
                   "showing the variable under its own name as n0, renamed copies as n1, n2, ... and values as i0, i1, ... in item order. "
                   "stage S3b (graphs as S2b; rows in the SAME ORDER): a MATCH AFTER the WITH — MATCH (n[:K...]) [WHERE p] WITH n MATCH (n)-[r[:T|...]]->(b[:K...]) RETURN items, items ::= x | id(x) | x.k [AS alias] "
                   "over n, r, b, each of the three read by some item, n / r / b distinct names, no WHERE on the second MATCH, no kinds on the re-mentioned n. Statement: `with s0 as (<hand-over of n>), "
                   "s2 as (select (e0.*)::edgecomposite as e0, s0.n0 as n0, (n1.*)::nodecomposite as n1 from s0 join edge e0 on (s0.n0).id = e0.start_id join node n1 on [kinds and] n1.id = e0.end_id "
                   "[where e0.kind_id = any (...)]) select <items over s2> from s2` — the step frame of S2c for step number 0. "
                   "stage S2c (same graphs; both join orders of the first hop): chains of TWO or THREE directed fixed hops "
                   "MATCH (n0[:K...])-[e0[:T|...]]->(n1[:K...])-[e1[:T|...]]->(n2[:K...]) [-[e2[:T|...]]->(n3[:K...])] [WHERE c1 AND ... AND cn] RETURN items, no ORDER BY / SKIP / LIMIT / DISTINCT, "
                   "all variable names distinct, every variable read by some item, items ::= x | id(x) | x.k [AS alias]; every conjunct ci an S1 predicate over exactly ONE pattern variable "
                   "(node or relationship; conjuncts reading two variables are outside); bag agreement. openCypher's relationship uniqueness within the "
                   "MATCH is part of the reference semantics; the emitted `e_i.id != (s.e_j).id` guards are proved to match it exactly for these shapes. The statement emits every conjunct in the frame "
                   "that introduces its variable (n0, e0, n1: frame s0 as in S2b; n_(i+1): ON condition of its join in frame s_i, before the kinds; e_i: WHERE of frame s_i, before kind and guards) — "
                   "proved to give exactly the matches Cypher keeps when it evaluates the WHERE after the whole pattern (chainMatchesSql_eq)")
FRAGMENT_SEARCHED = ("every query of the corpora / generator the REAL translator translates and both Lean evaluators model: relationships (directed, undirected, "
                     "chains, multi-pattern, multi-MATCH), WITH pipelines, UNWIND, aggregation (count/collect/sum/min/max/avg), DISTINCT, ORDER BY on properties, "
                     "variable-length expansion, paths, OPTIONAL MATCH, quantifiers, pattern predicates, string / list / arithmetic operators; per-construct unmodelled counts are in this record")

SPEC = {
    "id": "C01",
    "title": "Cypher-to-PostgreSQL translation preserves read-query results",
    "level": "translation_validation",
    "fallback_level": "other",
    "lean_modules": ["Dawgs.Props.C01"],
    "theorems_by_module": THEOREMS,
    "gate_modules": ["Dawgs.Model.Graph", "Dawgs.Model.Cypher", "Dawgs.Model.CyEval", "Dawgs.Model.SqlVal", "Dawgs.Model.SqlEval", "Dawgs.Model.C01", "Dawgs.Model.C01S2", "Dawgs.Model.C01Chain", "Dawgs.Model.C01Count", "Dawgs.Model.C01Limit", "Dawgs.Model.C01With", "Dawgs.Model.C01Order", "Dawgs.Model.C01Distinct", "Dawgs.Model.C01Cross", "Dawgs.Model.C02",
                     "Dawgs.Proofs.C01", "Dawgs.Proofs.C01Sql", "Dawgs.Proofs.C01Pred", "Dawgs.Proofs.C01Query", "Dawgs.Proofs.C01Cy", "Dawgs.Proofs.C01Sound",
                     "Dawgs.Proofs.C01Frag", "Dawgs.Proofs.C01At", "Dawgs.Proofs.C01S2Sql", "Dawgs.Proofs.C01S2Cy", "Dawgs.Proofs.C01S2Sound", "Dawgs.Proofs.C01ChainSql", "Dawgs.Proofs.C01ChainCy", "Dawgs.Proofs.C01ChainSound", "Dawgs.Proofs.C02", "Dawgs.Proofs.C01Count", "Dawgs.Proofs.C01CountHop", "Dawgs.Proofs.C01Limit", "Dawgs.Proofs.C01With", "Dawgs.Proofs.C01WithHop", "Dawgs.Proofs.C01Order", "Dawgs.Proofs.C01Distinct", "Dawgs.Proofs.C01Cross", "Dawgs.Props.C01"],
    "suites": [{"name": "c01tie", "model_suite": "c01tie", "model_input": model_input, "impl_view": impl_view, "model_view": model_view,
                "judge": tie_judge, "keep_prefix": 1, "thorough_seeds": 1},
               {"name": "c01", "model_suite": "c01sem", "model_input": model_input, "impl_view": impl_view, "model_view": model_view,
                "judge": judge, "keep_prefix": 1, "thorough_seeds": 1}],
    "nontrivial": nontrivial,
    "finding_key": finding_key,
    "extra_coverage": extra_coverage,
    "panic_is_violation": False,
    "rule": "tie 1 (suite c01tie): structured random queries of the PROVED fragment S1 (kinds x predicates x items x order/skip/limit) and S2b (kinds of a / r / b x 0-4 WHERE conjuncts, "
            "each an S1 predicate of depth <= 2 over one of a, r, b x 1-4 items over any of a, r, b) S2c (chains of 2-3 hops x kinds x items over all variables, without WHERE and — family s2cw — with 1-4 WHERE conjuncts, each an S1 predicate of depth <= 2 over one node or relationship variable) S3a (node MATCH x optional predicate x 1-4 WITH items (own name / renamed copy / property value) x 1-4 RETURN items over the exported names; family s3a), S3b (node MATCH x predicate x WITH n x hop kinds x items over n, r, b; family s3b), S1o (S1 query x ORDER BY n.k over name / a / zz / f x direction spelling x SKIP / LIMIT; family s1o; graphs outside keyOKb are evaluated and counted only, a reference refusal `nondeterministic-...-inside-ties` is not compared), S1d (S1 query without ORDER BY x RETURN DISTINCT over 1-3 items drawn from n, id(n), n.name, n.a, n.zz, n.f; family s1d; graphs on which a returned key holds a non-scalar are evaluated and counted only), S2x (an S2b query whose 1-4 WHERE conjuncts include at least one a.k (= | <>) b.k' or b.k (= | <>) a.k' over name / a / zz / f, mixed with single-variable conjuncts in any order; family s2x; graphs outside CrossScalar are evaluated and counted only) S1c (count(n) over a node pattern x kinds x optional predicate x alias), S2n (count(x) over a hop x kinds x 0-3 conjuncts x alias) and S2L (an S2b query + LIMIT k, k in {0,1,2,3,5,50}, no ORDER BY: the real statement must be the model statement WITH the LIMIT pushed into the hop frame; prediction checked against the base query: sub-bag of exactly min(k, n) rows; splitmix64(VERIF_SEED)) are translated by the REAL "
            "translator; the reflection S-expression of Result.Statement must be EQUAL to the model translator's statement (and carry no parameters) — for a hop the model has TWO "
            "statements, one per join order (`S2.Query.trWith km false / true`): which one the translator picks is a selectivity heuristic over its Go syntax tree that scores only "
            "pointer-typed nodes, which the reflection rendering does not determine, so the direction is NOT modelled; the theorems hold for both and the tie accepts either (the "
            "record counts how often the model's own approximation `flipOpt` names the order taken) — and on every generated graph satisfying "
            "the stage's hypothesis (GraphOK for S1 / S1c / S3a, GraphOK and keyOKb for S1o, GraphOK and scalarKeyB for every returned key for S1d, GraphOK2 and scalarKeyB for every compared key for S2x, GraphOK2 for S2b / S2c / S2n / S2L / S3b) the two evaluators must agree (S2L: the statement's rows must be a sub-bag of min(k, n) rows of the base query's rows). tie 2 (suite c01, SEARCH not proof): the REFERENCE reading of a query does not inherit what the DAWGS frontend listener makes of the text where that can be avoided: the direction of every ORDER BY item is read from the TEXT (harness/sortdir.go: the generated parser alone, an oC_SortItem is descending iff a keyword child spells DESC / DESCENDING in any letter case) and overrides SortItem.Ascending in the S-expression given to Cy.eval, and so are the bounds of every variable-length relationship pattern (rangesFromText: `*` / `*n` = exactly n / `*n..` / `*..m` / `*n..m` from the oC_RangeLiteral of the generated parser's tree), while the translator under test gets the frontend's model unchanged; generators spell the direction in every grammar form (asc / ASCENDING / desc / DESCENDING / mixed case / default). a variable-length bound that is an integer literal OUTSIDE the int64 range makes the reference refuse the query (rangesFromTextR); a translator that accepts it has dropped the bound: answer `range-differs`, key range-bound-out-of-range-accepted (family exact-range has bounds at 2^63-1, 2^63 and 10^20). tie 3 (every translated query of suites c01 and c01tie; harness/littie.go): Sql.eval evaluates the statement's syntax TREE, PostgreSQL gets the TEXT written from it — for numbers the two are tied: every numeric value held by a pgsql.Literal of the tree (scalar or array element) must be written in the text as a numeric token that denotes the same number (integers exactly, floating point values as text that float8 input reads back as the same double; string literals are cut out first); otherwise the answer is `lit-differs` and the judge rejects it (key sql-text-literal-differs-from-statement). Pattern property maps given as a PARAMETER (`(a $p)`, `-[r $p]->`): the op line carries the parameter values (p=<hex JSON>), the translator gets them, the reference reads the literal map they stand for, and Sql.eval evaluates `properties @> @pi0::jsonb` with the jsonb value of Result.Parameters (jsonb containment modelled for an object on the right whose values are scalars; other operand forms are `unmodelled`). FOCUSED FAMILIES (harness/focused.go: every spelling of the sort direction in RETURN and WITH, single and mixed keys, with SKIP / LIMIT (family sort-keyword); a parameter property map at every element position of a hop, a chain and several MATCH clauses, next to a second parameter map or a literal map (family param-map: every OTHER element must stay unconstrained); an expansion of exact length in each spelling (`*n`, `*n..n`) next to a proper range, alone, with either endpoint bound by an earlier clause, followed by a fixed hop into a bound or fresh node, as named path / relationship list, and with a PROPERTY MAP written on the variable-length pattern (`*1{..}`, `*2{..}`, `*2..2{..}`, `*1..3{..}`, `*2..3{..}`; literal maps here, `$param` maps in family param-map) in both directions, as named path, inside a pattern predicate, before a fixed hop and into a bound node — every relationship of the walk must carry the map (family exact-range); DOUBLE LITERALS that need more than 32-bit precision (>= 8 significant digits, integral doubles above 2^24 and near 2^53, one float32 step beside a stored 1.5) next to short ones in every literal position — comparison operand (each operator), IN list, arithmetic in WHERE / RETURN / WITH, bare RETURN / WITH item, against node, relationship and id() operands (family double-literal; the reflection rendering's exponent form of a float64 is read as plain decimal by both readers); the BOUNDARY VALUES of LIMIT / SKIP (LIMIT 0, 1, 2^31, 2^63-1; SKIP 0, SKIP beyond every row count) on each shape that triggers a fast path or a lowering that handles the LIMIT itself — aggregate traversal count, count fast path, limit pushdown over a hop / named path / shortest path, ordered projections, WITH (family limit-boundary; the tie families s1 / s1o / s2l draw from the same values); LIMIT without ORDER BY over a non-shortest-path named path whose WHERE holds a quantifier over relationships(p) / nodes(p) that stays in the tail SELECT (family limit-tail-filter);  variable-length step + >= 2 fixed hops with every subset of the suffix nodes already bound, "
            "aggregate-only RETURN incl. collect / size(collect()) with LIMIT and no ORDER BY — one output row, so the LIMIT is deterministic —, aggregate traversal counts, collect membership; a NAMED PATH bound by a MATCH whose own WHERE holds a pattern predicate, over patterns the optimiser reverses, the path / "
            "nodes(p) / relationships(p) / length(p) observed directly and through WITH (path VALUES are compared as ordered node and relationship lists; a result that is the Cypher "
            "result with every path reversed is the symptom class `path-in-reverse-order`, keyed by the enabling query shape); string predicates and equalities whose literal contains "
            "backslash, %, _ or a quote, on a graph whose names contain these characters next to look-alikes (Sql.eval's LIKE has PostgreSQL's escape semantics, Cy.eval compares raw strings)) "
            "+ every Cypher text of the repository corpora the translator accepts + structured "
            "random queries (levels 1-5) are translated by the REAL translator; the emitted statement is evaluated by Sql.eval on encode(g) and the source query by Cy.eval on g, for the "
            "fixed graph family, seeded random graphs and (sampled cases) all graphs up to N nodes / E edges with self loops, parallel edges, multi-kind nodes, missing properties; "
            "results are compared as ordered lists under ORDER BY (tie-aware) and as bags otherwise; a difference is explained by searching the deviation switches of Cy.eval (single, "
            "pairs, triples; on graphs with more than 5 edges only the switches that change the result on their own are combined). Evaluation budget: both evaluators "
            "enumerate join products / trails naively, so queries whose MATCH patterns weigh 2 / 3 / >= 4 (relationship step 1, variable-length step 2, further pattern part 1) run only on "
            "graphs with <= 6 edges / <= 4 edges and 4 nodes / <= 3 edges and 3 nodes; ORDER BY over paths, entity lists or collected lists and LIMIT inside ties are counted "
            "as unmodelled (nondeterministic), not compared. thorough = 700 generated queries for each of levels 1-3, 250 for level 4, 120 for level 5, 30 random graphs and the exhaustive "
            "family up to 3 nodes / 2 edges on every tenth query. non-trivial = the statement has >= 2 CTE frames or a join; distinct = distinct op lines",
    "expected_branches": ["translated"],
    "trusted_base": ["the meaning of SQL is a Lean definition (Sql.eval, Model/SqlEval.lean + SqlVal.lean) transcribed from the PostgreSQL 16 documentation (queries 7.x, value expressions 4.2, "
                     "functions and operators 9.x incl. jsonb operators / casts / comparison, arrays, ORDER BY NULLS LAST, LIMIT/OFFSET) and from schema_up.sql for the schema's SQL functions; "
                     "no PostgreSQL server exists in the sandbox, nothing was executed against one",
                     "AND / OR in Sql.eval absorb a run-time error of one operand when the other operand decides (PostgreSQL's evaluation order is unspecified)",
                     "the meaning of Cypher is a Lean definition (Cy.eval with Quirks.none, Model/CyEval.lean): openCypher 9 reference semantics (bag semantics, three-valued logic, "
                     "relationship uniqueness per MATCH, null ordering); deviations of the emitted SQL are expressed as named switches only to EXPLAIN a difference, never to accept it",
                     "encode : KindMap -> Graph -> Db (Model/Graph.lean) is the storage layout of schema_up.sql (node / edge / kind tables, graph_id 0)",
                     "harness/sexp.go reflection rendering of the pgsql AST and of the parsed Cypher model, Driver/SqlSexp.lean and Driver/ReadCy.lean readers (unknown node -> unmodelled)",
                     "the parsed Cypher model comes from the DAWGS frontend (the code under test): where the reference can read the TEXT instead it does — ORDER BY directions and relationship range bounds (harness/sortdir.go, generated parser "
                     "only); everything else of the reading (pattern structure, operators, literals) is the frontend's and is covered by C07 / C08, not here",
                     "a parameter property map is shown to the reference as the literal map of the supplied parameter value (harness/sortdir.go refSexpP); jsonb containment `@>` is modelled only for an object "
                     "right operand with scalar values (SqlVal.lean jsonContainsFlat, from 8.14.3), the JSON text of a jsonb parameter is read by Driver/C01.lean JsonText",
                     "the comparison of client-visible values (RVal: jsonb scalars decoded, composites as graph entities) in Driver/C01.lean"],
    "assumptions": ["CrossScalar (stage S2x): every property key compared by a two-variable conjunct holds a string / number / boolean or is absent, on every node; decidable (scalarKeyB per key), evaluated on every generated graph; outside it jsonb = / <> and openCypher = / <> of the compared values are not claimed to coincide",
                    "KeysScalar keys (stage S1d): every property key the RETURN DISTINCT reads holds a string / number / boolean or is absent, on every node; decidable (scalarKeyB per key), evaluated on every generated graph; outside it jsonb equality and openCypher equivalence of the returned values are not claimed to coincide",
                    "KeyOK k (stage S1o): every value of the sort key k in the graph is a string / number / boolean and no boolean value meets a number value; decidable (keyOKb), evaluated on every generated graph; outside it the jsonb order of the statement and openCypher's order differ (known deviation)",
                    "GraphOK (theorems): node ids unique, kind map injective, no property stored as JSON null; decidable (graphOKb), evaluated on every generated graph, "
                    "graphs outside it are still evaluated and counted",
                    "GraphOK2 (stage S2b theorems): GraphOK + relationship ids unique + every relationship kind present in the kind map + no relationship property stored as JSON null; decidable (graphOK2b), evaluated on every generated graph",
                    "proof only on stages S1, S1o, S1d, S1c, S2b, S2x, S2c, S2n, S2L, S3a and S3b; every other construct is search on small graphs (bounded evaluation, NOT proof)"],
}

MANIFEST = {
    "category": "translation_validation",
    "technique": "Lean semantics for both languages (Cy.eval, Sql.eval); model translator tr10F proved sound on stages S1, S1c (count over a node pattern), S2b (one directed hop with WHERE), S2c (chains of 2-3 directed hops), S2n (count over a hop) S2L (hop with LIMIT and no ORDER BY, stated against the base query) , S3a (node MATCH - WITH - RETURN with plain items) , S3b (a hop from the carried node after the WITH) , S1o (ORDER BY on a property, under the hypothesis KeyOK that states where jsonb order = openCypher order), S1d (RETURN DISTINCT, under the hypothesis KeysScalar that states where jsonb equality = openCypher equivalence) and S2x (a hop whose WHERE compares a property of a with a property of b, under the hypothesis CrossScalar) for all graphs, all queries and both join orders, tied to the real translator by exact "
                 "AST equality on generated S1 / S1o / S1d / S1c / S2b / S2x / S2c / S2n / S2L / S3a / S3b queries (a tie mismatch whose real statement does not pass C03's verified binder is reported as such and keyed by the query shape); outside them: evaluation of the REAL emitted statement against the source query on generated small graphs (search)",
    "text": "PROVED (Props/C01.lean, axioms propext/Classical.choice/Quot.sound only): tr_sound_S1 — for every graph with unique node ids, injective kind map and no stored JSON null, "
            "every parsed query q and statement (st, ps) with tr km q = some (st, ps): if Sql.eval (encode km g) st ps yields a table then Cy.eval g q yields a result and both show the "
            "client the same rows in the same order; tr_no_runtime_error — that evaluation never ends in an SQL run-time / type / name error (only the model's own `unmodelled` for `->>` of "
            "array/object properties); tr_cypher_defined; tr_rejects_or_sound; c01_partial : C01_for tr; key lemmas kind_match_encode, string_eq_guard, where_pred_sound; ofCy_sound "
            "(the fragment recogniser returns exactly the parsed query's S1 reading). Stage S2b (one directed hop with WHERE; S2a is its WHERE-free part): the model translator tr2F flipOf takes the hop's join order as a PARAMETER flipOf and "
            "every theorem is for EVERY flipOf. tr_sound_S2 — for every graph with GraphOK2 (the above + unique relationship ids + every relationship kind in the kind map + no "
            "relationship property stored as JSON null) and every parsed query with tr2F flipOf km q = some (st, ps): if the statement yields a table then Cy.eval yields a result and the "
            "client rows are a PERMUTATION of each other (no ORDER BY in S2b; for S1 queries the lists are equal); tr_sound_S2b — the same said per hop query for both statements "
            "S2.Query.trWith km false / true; tr2_cypher_defined; tr2_no_runtime_error (only the model's `unmodelled` for `->>` of array/object properties); "
            "c01_partial_S2 : forall flipOf prune, C01_bag_for (tr2F flipOf prune) — prune = the lowering ProjectionPruning: the frame s0 projects only the bindings a RETURN item or a WHERE "
            "conjunct reads (kinds in the pattern do not count), in the order e0, n0, n1; tr2_some (tr2F answers only inside S1 or S2b); ofCy2_sound; graphOK2_of_check. The WHERE conjuncts over a / b are "
            "emitted inside the join conditions, those over r in the frame's WHERE; the predicate lemmas are entity-generic (Proofs/C01At.lean: sql_predAt / cy_predAt over a node or a "
            "relationship under any table alias / variable). Stage S2c (chains): tr_sound_S2c / c01_partial_S3 : forall flipOf flipCh prune, C01_bag_for (tr3F flipOf flipCh prune) — the statement with "
            "frames s0 (the hop frame), s1 [, s2] (each `from s_(i-1) join edge e_i on (s_(i-1).n_i).id = e_i.start_id join node n_(i+1) on ... where [kinds and] e_i.id != (s_(i-1).e_j).id`) "
            "returns a permutation of the Cypher rows. Cypher side proved for chains of ANY length (Proofs/C01ChainCy.lean matchSteps_chain: the reference matcher enumerates exactly the "
            "extensions by a relationship not used yet; where_chain / clause_chain: the WHERE keeps the matches on which every conjunct is true, conjunct by conjunct through the entity-generic cy_predAt), SQL side frame by frame for 2 and 3 hops (Proofs/C01ChainSql.lean frame1 / frame2 with the conjuncts over the new relationship / node, stepRows_eq: a frame's rows are the extensions extW that pass them; C01ChainSound.lean chainMatchesSql_eq: filtering early in the frames = filtering the WHERE-free enumeration at the end (flatMap_filter_push, okWhereCh_refs), chain_sound); tr3_some; ofCyChain_sound. Stage S1c (count): tr_sound_S1c / count_sound — for every GraphOK graph, every query MATCH (n[:K...]) [WHERE p] RETURN count(n) [AS c] "
            "and both statement shapes (fast path on / off) the SQL row equals the Cypher row (Proofs/C01Count.lean: evalSelect_countA, fastStmt_eval, frameStmt_eval, cy_side_count — "
            "implicit grouping with no key is one group, count(n) counts the non-null bindings); c01_partial_S4 : forall flipOf flipCh fast prune, C01_bag_for (tr4F flipOf flipCh fast prune); "
            "tr4_some; ofCyCount1_sound. Stage S2n (count over a hop): tr_sound_S2n / count_hop_sound (Proofs/C01CountHop.lean: the S2b frame lemmas + evalSelect_countA over the pruned "
            "frame; cy_count_eval — RETURN count(v) over any list of rows binding v) ; c01_partial_S5 : forall flipOf flipCh flipN fast prune, C01_bag_for (tr5F ...); tr5_some; ofCyCount2_sound. Stage S2L (hop + LIMIT k, no ORDER BY / SKIP; "
            "tr6F = S2L where the query has that reading, else tr5F; tr6_some; ofCyLimit2_sound): C01_bag_for is NOT claimed for tr6F, because the reference semantics refuses such a query whenever the "
            "LIMIT has to choose (limit_refused_iff: Cy.eval = error `nondeterministic-limit-inside-ties` iff 0 < k < number of base rows, else the first k = all / none of the base rows). "
            "tr_sound_S2L — for every GraphOK2 graph, both join orders, frame pruned or complete, LIMIT pushed into the frame or not: if the statement yields a table t then the BASE query has a result r, "
            "the client rows of t are a sub-bag of the rows of r (SubBag xs ys := exists rest, (xs ++ rest) ~ ys), t has exactly min(k, |r|) rows, and the rows of t are the first k of "
            "hopM g base flip mapped to client rows — hopM (Proofs/C01S2Sound.lean) is the frame's scan order for the join order, a permutation of the base matches that does not depend on pruning or on the pushdown; "
            "tr_noerr_S2L (never an SQL run-time error); tr_sound_S2L_forced (when Cy.eval of the LIMIT query itself is defined, bag agreement with it). Proofs/C01S2Sql.lean hop_frame_lim / "
            "eval_cteStmt_lim evaluate the frame and the statement with their LIMIT literals; Proofs/C01Limit.lean cy_side2_lim, s2l_sound. Stage S3a (one WITH, plain items; tr7F = S3a where the query has that reading, else tr6F; tr7_some; ofCyWith_sound): tr_sound_S3a — for every GraphOK graph and every query of the stage: if the nested statement yields a table then Cy.eval yields a result and the client rows are EQUAL as lists (Agree); tr_total_S3a (the reference result exists, never an SQL run-time error). Proof (Proofs/C01With.lean): both sides are reduced to the stage-S1 query `s1Of q` whose RETURN items are the S1 items the RETURN items stand for (asS1: an entity operation on an exported node name is that operation on the matched variable, a value name x exported as n.k AS x is n.k) — SQL: frame_eval for s1, evalProj_witems for the hand-over frame, eval_ritem over its columns (colVals_idx: distinct column names; the distinctness of the generated names n0 / n<j> / i<j> is CHECKED by S3.Query.wf, not proved), evalQuery_cte1 for the nested frame; Cypher: evalProjection_plain twice (the part after a WITH sees the exported names only), eval_ritemC via lookup_zip_idx; then rows_agree of S1. Stage S3b (a MATCH after the WITH; ofCyWithHop_sound; third branch of tr7_some): tr_sound_S3b / tr_total_S3b — for every GraphOK2 graph and every query of the stage the rows are EQUAL as lists. Proof (Proofs/C01WithHop.lean): SQL — handover_eval for s0, frameW0 (the step frame Ch.stepFrame 0 over the one-column frame, via chain_from / joinOnE_ben / stepKinds_ben of the chain stage, no guard because the MATCH has no earlier relationship), final_select; Cypher — evalParts_with, clause_from_bound (matchPart with the start node already bound, then matchSteps_chain from the zero-hop chain [n]), eval_itemCCh over the bindings; both enumerate, node by node, the extensions ext of the chain stage, so the row lists coincide (itemCh_toR for the values). Stage S1o (ORDER BY n.k; tr8F = S1o where the query has that reading, else tr7F; tr8_some; ofCyOrder_sound; keyOK_of_check): tr_sound_S1o — for every GraphOK graph with KeyOK k g.nodes and every query of the stage: if the statement yields a table and Cy.eval (Quirks.none) answers, the client rows are EQUAL as lists; tr_total_S1o — never an SQL run-time / type error, and Cy.eval refuses only with nondeterministic-skip/limit-inside-ties. Proof (Proofs/C01Order.lean): sortKeysLe_prop — on scalar key values that do not pair a boolean with a number openCypher's sort-key comparison IS the jsonb comparison of the statement (16 value-kind cases); both sides are then the SAME stable sort (sortBy (propLe k asc)) of the kept nodes (sortBy_map_mem), SQL: orderKeys_prop / keysComparable_props / cutRows, Cypher: keyRows_prop / cutKeyed_ok. The deviation itself (a boolean meeting a number, arrays, objects) stays a known finding. Stage S1d (RETURN DISTINCT; tr9F = S1d where the query has that reading, else tr8F; tr9_some; ofCyDistinct_sound; keysScalar_of_check): tr_sound_S1d — for every GraphOK graph with KeysScalar and every query of the stage: if the statement yields a table and Cy.eval answers, the client rows are EQUAL as lists; tr_total_S1d — never an SQL run-time / type error and Cy.eval always answers. Proof (Proofs/C01Distinct.lean): Sql.dedupRows and Cy.dedupBy are the same scan dedupG (definitional); vSame_item — on the values of one item for two nodes SQL's `is not distinct from` (vSame: node composites compare by id / kind ids / properties, the ids being unique; jsonb scalars by jsonCmp) and openCypher's equivalence (cEquiv) give the same Boolean (vSame_prop: 16 value-kind cases incl. missing = missing; jsonCmp_refl for the composite); dedupG_map transports the scan through the row construction on both sides, so both keep the rows of the SAME nodes distinctNodes; then rows_agree of S1. Stage S2x (tr10F = S2x where the query has that reading, else tr9F; tr10_some; ofCyCross_sound; crossScalar_of_check): tr_sound_S2x — for every GraphOK2 graph with CrossScalar, every query of the stage, both join orders, pruned or not: Cy.eval answers and, if the statement yields a table, the client rows are a PERMUTATION of the reference rows; tr_noerr_S2x. Proof (Proofs/C01Cross.lean): Cypher — clause_hopG / cy_sideG: the MATCH of stage S2b with an ARBITRARY WHERE whose truth on every match is a given Boolean function; cross_hop: the conjunct x.k = y.k' evaluates to relT over the two property values; where_hopX over the mixed conjunct list. SQL — the statement is the S2b statement of base0 (the base query without its b-conjuncts) with one more WHERE term; cross_val: vCompare '=' / '<>' on the jsonb values of two scalar (or missing) properties IS relT eq / ne of their Cypher values (null when either is missing, numbers numerically, different types false); cross_ben / crossAnd_ben / rightUser_ben evaluate the term in either internal order (and_ben, predsAnd_ben of S2b for the b-conjuncts), edgeW_ben the relationship's constraints, whTest_ben the whole WHERE in either order; hop_from_ben and sql_hop_ben of S2b give the rows. Both sides are then (matches of base0) filtered by the SAME Boolean extraOk (okMatchesX_eq, okWhereX_split), and the matches of base0 in SQL order are a permutation of those in Cypher order (hopM_perm = the S2b argument). FRAGMENT PROVED = " + FRAGMENT_PROVED + ". NOT PROVED: C01_full (the statement for a total "
            "translator) stays a visible Prop; the design's S1 remainder (DISTINCT, ORDER BY on several keys / on an alias / outside KeyOK, ordered and string-function property comparisons), the rest of S2 (undirected hops, chains of more than three hops, "
            "WHERE conjuncts that read two variables, ORDER BY / SKIP over a hop, LIMIT over chains or counts), the rest of S3 (WITH after a relationship pattern, other MATCH shapes after the WITH than one outgoing hop from the carried node, WHERE / ORDER BY / aggregation on a WITH, several WITHs) and S4..S5 are SEARCHED only. "
            "FRAGMENT SEARCHED = " + FRAGMENT_SEARCHED + ". Confirmed deviations of the unchanged translator from openCypher (OPTIONAL MATCH as first clause, jsonb ordering under ORDER BY, "
            "self loops under undirected patterns, missing relationship uniqueness across pattern parts, text-form comparisons, SQL run-time cast errors, ...) are findings in "
            "known_findings.json, each with a replay in corpus/C01.",
    "note": "No PostgreSQL server: SQL meaning is a trusted Lean transcription of the documentation. Bounded evaluation on small graphs is search, not proof; the proof covers stages S1, S1o, S1d, S1c, S2b, S2x, S2c, S2n, S2L, S3a and S3b only (S2L against the base query's rows, see text; S2a — one hop without WHERE — is the WHERE-free case of S2b). The random generator draws LIMIT / SKIP boundary values (0, 1, 2^31, 2^63-1; SKIP 1000) and property maps on variable-length patterns; a row difference that no deviation switch explains keeps the catch-all key unexplained-difference (never registered) EXCEPT on the two query shapes of registered defects that the reference semantics has no switch for (expansion in a pattern that repeats a node variable; quantifier in the WHERE of an OPTIONAL MATCH over a relationship pattern), which are keyed rows-differ:<shape>.",
}
