THEOREMS = {
    "Dawgs.Props.C12": [
        "Dawgs.C12.Props.set_inv",
        "Dawgs.C12.Props.delete_inv",
        "Dawgs.C12.Props.setAll_inv",
        "Dawgs.C12.Props.clone_inv_and_independent",
        "Dawgs.C12.Props.merge_inv",
        "Dawgs.C12.Props.kinds_merge_inv",
        "Dawgs.C12.Props.relationship_merge_inv",
        "Dawgs.C12.Props.reads_do_not_track",
        "Dawgs.C12.Props.setAll_empty_noop",
        "Dawgs.C12.Props.constructors_untracked",
        "Dawgs.C12.Props.history_inv",
        "Dawgs.C12.Props.kinds_history_inv",
        "Dawgs.C12.Props.reproduce_loaded_state",
        "Dawgs.C12.Props.driver_delta_complete",
        "Dawgs.C12.Props.last_edit_wins",
        "Dawgs.C12.Props.monitor_sound",
        "Dawgs.C12.Props.c12",
        # the merges before /repo commit 179da67 (finding F4), frozen definitions
        "Dawgs.C12.Props.merge_inv_old_iff",
        "Dawgs.C12.Props.merge_inv_old_refuted",
        "Dawgs.C12.Props.kinds_merge_inv_old_iff",
        "Dawgs.C12.Props.kinds_merge_inv_old_refuted",
        "Dawgs.C12.Props.c12_old_refuted",
        "Dawgs.C12.Props.c12_old_partial",
    ],
}

EDITS = ("set ", "setall ", "addk ")
REMOVALS = ("del ", "delk ")
JOINS = ("pmerge ", "merge ", "rmerge ", "clone ")


def nontrivial(ops, impl):
    # an edit, a removal, and a merge/clone that happens after the first edit or removal
    edit = removal = join_after = False
    for o in ops:
        if o.startswith(EDITS):
            edit = True
        elif o.startswith(REMOVALS):
            removal = True
        elif o.startswith(JOINS) and (edit or removal):
            join_after = True
    return edit and removal and join_after


def finding_key(suite, ops, line, msg):
    # monitor answers `reject <call site>:<class> e=<entity> ...`
    cls = msg.split()[1] if len(msg.split()) > 1 else "reject"
    return "C12:%s" % cls


SPEC = {
    "id": "C12",
    "title": "entity change tracking records exactly the delta from loaded to current state",
    "level": "proof",
    "lean_modules": ["Dawgs.Props.C12"],
    "theorems_by_module": THEOREMS,
    "gate_modules": ["Dawgs.Model.C12", "Dawgs.Spec.C12", "Dawgs.Proofs.C12", "Dawgs.Props.C12"],
    # every case starts with `# case`, `mode <current|fixed>`, `load <map> <kinds>`
    # thorough_seeds = 1: the exhaustive enumerations do not depend on the seed (no point in running them twice)
    "suites": [{"name": "c12", "model_suite": "c12", "monitor_suite": "c12mon", "keep_prefix": 3, "thorough_seeds": 1}],
    "nontrivial": nontrivial,
    "finding_key": finding_key,
    "rule": "cases = exhaustive op sequences over fixed alphabets of Set/SetAll/Delete/GetOrDefault/Clone/Properties.Merge/Node.Merge/"
            "AddKinds/DeleteKinds on two entities loaded from one state (quick: 24 ops^3 x 3 loaded states + 11^4 + 10^4; thorough: 24^3 x 3 + "
            "16^4 x 2 + 11^5 + 10^5; count enumerated = exhaustive_expected in branch_hist), every op followed by a canonical dump of both "
            "entities (raw Map/Modified/Deleted incl. nil-ness, ModifiedProperties()/DeletedProperties(), Kinds/AddedKinds/DeletedKinds), plus "
            "random histories (5-60 ops, 4 keys, 3 kinds, 10 JSON-like values incl. nil, merge weight 0..4/24) from splitmix64(VERIF_SEED); "
            "a case is non-trivial when it has an edit, a removal, and a merge/clone after the first of them; distinct = distinct op-line "
            "sequences (sha1)",
    "expected_branches": [
        "branch.set.map_nil", "branch.set.modified_nil", "branch.set.key_was_deleted", "branch.set.nil_value",
        "branch.setall.empty", "branch.setall.multi",
        "branch.del.map_nil", "branch.del.deleted_nil", "branch.del.key_was_modified", "branch.del.key_absent",
        "branch.gd.hit", "branch.gd.absent_default", "branch.gd.nil_value_default",
        "branch.clone.some_nil", "branch.clone.tracked",
        "branch.pmerge.other_map_empty", "branch.pmerge.alloc_map", "branch.pmerge.alloc_modified", "branch.pmerge.alloc_deleted",
        "branch.pmerge.other_modified_in_self_deleted", "branch.pmerge.other_deleted_in_self_modified",
        "branch.pmerge.self_deleted_in_other_map_unmodified", "branch.pmerge.self",
        "branch.nmerge.self_deleted_in_other_kinds_unadded", "branch.nmerge.other_deleted_in_self_added",
        "branch.nmerge.other_added_in_self_deleted",
        "branch.addk.nil_skipped", "branch.addk.already_present", "branch.addk.was_deleted", "branch.addk.fresh",
        "branch.delk.was_added", "branch.delk.loaded_kind", "branch.delk.absent",
    ],
    "trusted_base": ["Go map / slice / append semantics (modelled as association lists and lists)",
                     "encoding/json used by the harness only to canonicalise property values into the 10-value code"],
    "assumptions": [
        "the two merged entities derive from the same loaded state (that is how Merge is specified, DESIGN §4 C12)",
        "initial kinds have no duplicates and every Kind is the canonical graph.StringKind value, so that Kinds.Remove's == coincides with Is(); "
        "the harness runs the real code at both excluded points once per generation and reports the outcome in branch_hist as info.excluded.*",
        "slice backing-array aliasing of Kinds.Remove (append in place) is abstracted away: every entity of the tie owns its slices; "
        "info.caller_kinds_slice_clobbered_by_DeleteKinds counts how often the slice handed to NewNode was overwritten",
        "SetAll is driven with distinct keys (it takes a Go map)",
        "property keys a-d, kinds A-C and a 10-value universe in the tie; the theorems are over arbitrary Nat-coded keys, values, kinds",
    ],
    "explanation": "Theorems: invariant Inv (Modified∩Deleted=∅, Modified⊆dom Map, Deleted∩dom Map=∅, untouched keys as loaded) and its kinds analogue "
                   "are preserved by every operation and hence by every history (induction over op lists on two entities) for the repaired merges; "
                   "for the merges as they are in /repo the clause Deleted∩dom Map=∅ (DeletedKinds∩Kinds=∅) is refuted by the F4 witnesses, the exact "
                   "side condition under which the current merge preserves Inv is proved (iff), and every other clause is proved for all histories. "
                   "The model runs the merge selected by the `mode` line of each case (harness/c12.go c12Mode; lib/c12_flip.py flips it).",
}

MANIFEST = {
    "category": "proof",
    "technique": "Lean 4 invariant proof by induction over operation histories of a transcription of graph.Properties / graph.Node change tracking "
                 "+ differential correspondence with the Go code + spec monitor on the implementation's dumped state",
    "text": "Lean theorems over all histories of Set/SetAll/Delete/reads/Clone/Merge and AddKinds/DeleteKinds/Merge on two entities loaded from one "
            "arbitrary state: modified/deleted (added/deleted) sets disjoint, modified ⊆ current, deleted ∩ current = ∅, untouched keys as loaded, hence "
            "applying the delta the drivers send to the loaded state reproduces the current state, and the last edit of a key wins. Proved at full "
            "strength for the repaired merges (hooks/C12-fix.patch); for the merges as they are in /repo the full statement is refuted by a concrete "
            "witness (finding F4, reproduced on the real code every run), the exact condition under which the current merge is correct is proved, and "
            "all remaining clauses are proved for all histories. The model is compared with the real code (raw tracking maps incl. nil-ness, accessor "
            "results, kind slices in order) after every operation on exhaustive short and random long histories, and the spec is run as a monitor on "
            "the implementation's own dumps.",
    "note": "Trusted: Lean kernel, the transcription checked by the differential tie, Go map/slice semantics. Not verified: slice backing-array "
            "aliasing in Kinds.Remove (measured and reported), non-canonical Kind implementations, duplicate initial kinds.",
}
