import re
import regen

THEOREMS = {
    "Dawgs.Props.C09": [
        "Dawgs.C09.Props.names_agree", "Dawgs.C09.Props.numRules_ok", "Dawgs.C09.Props.forbidden_names",
        "Dawgs.C09.Props.direct_names", "Dawgs.C09.Props.root_is_cypher", "Dawgs.C09.Props.listener_shape",
        "Dawgs.C09.Props.directTab_ok", "Dawgs.C09.Props.avoidTab_ok", "Dawgs.C09.Props.direct_rules",
        "Dawgs.C09.Props.S_closed", "Dawgs.C09.Props.S_root", "Dawgs.C09.Props.forbidden_dominated",
        "Dawgs.C09.Props.filter_fires", "Dawgs.C09.Props.accepted_default_readonly", "Dawgs.C09.Props.c09_tree",
    ],
}


def do_regen(ctx):
    regen.grammar()
    regen.frontend()
    regen.visitors()   # the model driver walks the tree with the C08 listener model to find errors reported by the ACTIVE visitor's own methods
    regen.witness("C09", "C09Witness.lean", ["Dawgs.Spec.C09"])


def _field(line, name):
    m = re.search(r"(?:^| )%s=(\S*)" % name, line)
    return m.group(1) if m else None


def model_input(op, impl):
    m = re.search(r" tree=(.*)$", impl)
    if not m:
        return "bad " + impl[:40]
    return "tree %s syn=%s" % (m.group(1), _field(impl, "syn") or "0")


def impl_view(impl):
    if impl.startswith("panic") or impl in ("skipped", "bad-op"):
        return impl
    try:
        filt = sum(int(_field(impl, k)) for k in ("upd", "proc", "param"))
    except Exception:
        return impl[:80]
    return "acc=%s filt=%d unsup=%s" % (_field(impl, "acc"), filt, _field(impl, "unsup"))


def model_view(model):
    return model.split(" | ")[0]


def judge(op, impl, model):
    if impl.startswith("panic"):
        return "reject panic " + impl[:80]
    acc, syn = _field(impl, "acc"), _field(impl, "syn")
    wf, conf, forb = _field(model, "wf"), _field(model, "conforms"), _field(model, "forbidden")
    if syn == "0" and _field(impl, "other") == "0" and (wf != "1" or conf != "1" or _field(model, "root") != "0"):
        return "reject tree-outside-grammar-assumption wf=%s conforms=%s (ANTLR tree of a syntax-error-free parse does not follow the regenerated grammar)" % (wf, conf)
    if _field(impl, "acc_old") == "1" and forb != "[]":
        return "reject older-default-context-accepted-forbidden-construct " + forb
    if acc == "1":
        if forb != "[]":
            return "reject accepted-with-forbidden-construct " + forb
        if _field(impl, "model_upd") == "1":
            return "reject accepted-model-has-updating-clause"
        if _field(impl, "dml") == "1":
            return "reject accepted-query-translates-to-DML"
    return "ok"


def nontrivial(ops, impl):
    # the inserted construct was grammatical (no syntax error) and the default context had to decide on it
    for r in impl:
        if " syn=0 " in r and (" acc=0 " in " " + r) and re.search(r"(upd|proc|param)=[1-9]|unsup=\[o", r):
            return True
    return False


def finding_key(suite, ops, line, msg):
    return "C09:DefaultCypherContext:" + (msg.split()[1] if len(msg.split()) > 1 else "reject")


# clause of the statement (properties.jsonl) -> what proves it for ALL inputs (with hypotheses), or "searched only" / "tie only"
CLAUSES = {
    "accepted under the default context => no clause that creates / modifies / deletes data, no procedure call, no user parameter, at any depth or position":
        "PROVED at parse-tree level: accepted_default_readonly = c09_tree (C09_tree_full). HYPOTHESES: root is oC_Cypher, the tree follows the regenerated grammar (wf refs), "
        "it is syntactically complete (conforms must: no syntax error was reported), and the listener error model raises nothing (T.listenerErrors t = []: default filters + "
        "unsupported rules). Proof: dominance over the grammar reference graph (S_closed, S_root, forbidden_dominated: every forbidden rule reachable from the root lies "
        "behind a rule that implies a filtered one), mandatory-children analysis (avoidTab_ok, avoid_implied), every filter is called on every rule node (listener_shape, "
        "filter_fires), instantiated by decide on the tables of the current Cypher.g4 / cypher_parser.go / cypher/frontend (names_agree, numRules_ok, forbidden_names, "
        "direct_names, directTab_ok, direct_rules, root_is_cypher).",
    "consequently the SQL translated from an accepted query contains no data-modifying statement":
        "SEARCHED ONLY: every accepted case is translated and the pgsql AST is scanned by reflection for data-modifying statement nodes (field dml=); there is no "
        "Lean model of the translator in this check — the consequence is validated per accepted case, not proved.",
    "a query that differs from an accepted one only by the insertion of such a clause is rejected":
        "PROVED as the contrapositive of accepted_default_readonly for every insertion that yields a grammatical tree (filter_fires: a tree containing a directly filtered "
        "rule has a listener error); for insertions that make the text ungrammatical: tie only (the syntax error count comes from ANTLR). Searched: every updating clause / "
        "CALL form / $parameter inserted at every clause boundary of corpus queries and grammar-generated sentences.",
    "holds for the context the caller actually gets (fresh, older, reused default contexts)":
        "SEARCHED ONLY: the theorems speak about ONE walk with the five default filters; harness/c09.go additionally parses with a default context that is no longer the "
        "most recently created one and with a context reused after an earlier (accepted or rejected) parse, and requires the same acceptance (fields acc / acc_old and the "
        "reused-context probe).",
    "searched only (tie)":
        "that the extracted filter / unsupported-rule tables are what cypher/frontend does and that ANTLR's tree of an error-free parse follows the regenerated grammar: per "
        "case the model is run on the real ANTLR tree (wf + conforms re-checked) and acceptance, filter error counts by class and the unsupported-rule multiset are compared "
        "with ParseCypher(DefaultCypherContext()); errors reported by a method of the ACTIVE visitor (AtomVisitor.EnterOC_ShortestPathPattern, chained property lookups) "
        "are found by walking with the C08 listener model and only shrink the accepted set.",
    "named assumptions":
        "ANTLR 4 runtime and generated parser; tools/extract/grammar.py and goext frontend / visitors; ParseTreeWalker calls EnterEveryRule on every rule node; errors.Join of "
        "a non-empty list is non-nil; `no DML` is a property of the translator output checked by search.",
}


def extra_coverage(ctx, stats):
    return {"clause_map": CLAUSES}


SPEC = {
    "id": "C09",
    "title": "default parse context admits read-only queries only",
    "level": "proof",
    "regen": do_regen,
    "lean_modules": ["Dawgs.Props.C09"],
    "theorems_by_module": THEOREMS,
    "gate_modules": ["Dawgs.Model.Grammar", "Dawgs.Model.C09", "Dawgs.Spec.C09", "Dawgs.Proofs.C09", "Dawgs.Props.C09"],
    "suites": [{"name": "c09", "model_suite": "c09", "model_input": model_input, "impl_view": impl_view, "model_view": model_view,
                "judge": judge, "keep_prefix": 1}],
    "nontrivial": nontrivial,
    "finding_key": finding_key,
    "extra_coverage": extra_coverage,
    "rule": "cases = every Cypher text of the repository corpora (translation_cases/*.sql '-- case:' lines, cypher/test/cases/*.json) + a fixed list of "
            "stand-alone forbidden statements + mutants inserting an updating clause / CALL form before a random clause keyword or replacing a literal by $p/{p} "
            "(2 per query quick, 12 thorough; splitmix64(VERIF_SEED)); non-trivial = the mutant parsed without syntax error and was rejected by a filter/unsupported rule; "
            "distinct = distinct query texts",
    "expected_branches": ["accepted", "rejected", "translated"],
    "trusted_base": ["ANTLR 4 runtime and the generated parser: trees of error-free parses follow the grammar (checked per case: wf + conforms against the regenerated grammar)",
                     "tools/extract/grammar.py (Cypher.g4 -> rule table) and tools/extract/goext frontend (method table of cypher/frontend)",
                     "ParseTreeWalker calls EnterEveryRule on every rule node (ANTLR); errors.Join of a non-empty list is non-nil (Go stdlib)"],
    "assumptions": ["the DML clause ('SQL contains no data-modifying statement') is checked on every accepted case by translating it and scanning the pgsql AST by reflection (search, not proof)"],
}

MANIFEST = {
    "category": "proof",
    "technique": "Lean 4 theorem over all rule-labelled parse trees (grammar dominance + listener/filter model) instantiated by kernel-checked decide on tables regenerated from Cypher.g4 and cypher/frontend; differential tie on ANTLR trees",
    "text": "Clause map: evidence coverage.clause_map (lib/props/c09.py CLAUSES). Theorem accepted_default_readonly: every parse tree of oC_Cypher that follows the (regenerated) grammar, is syntactically complete and raises no listener error "
            "contains no updating clause, schema command, bulk import, procedure call or parameter at any depth. Proved generically (dominance over the grammar reference graph, "
            "mandatory-children analysis, listener calls every filter on every rule node) and instantiated by decide +kernel on the tables extracted from the current Cypher.g4, "
            "cypher_parser.go and cypher/frontend/*.go, so a new grammar path that bypasses oC_UpdatingClause, a removed filter, or an overridden unsupported rule breaks lake build. "
            "The tie runs the real ParseCypher(DefaultCypherContext) on corpus queries and grammar-position mutants and compares error classes with the model run on the real ANTLR tree.",
    "note": "Trusted: Lean kernel, the two extractors, ANTLR (tree shape re-validated per case). The consequence for emitted SQL (no DML) is validated per accepted case, not proved; the older / reused default-context probes are search as well. The theorem's hypotheses are: root oC_Cypher, wf, conforms (no syntax error), no listener error.",
}
