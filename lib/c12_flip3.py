#!/usr/bin/env python3
"""python3 lib/c12_flip3.py fixed|current

Run `fixed` right after hooks/C12-fix3.patch (framed neo4j batch keys) is committed to /repo:
  * harness/c12batch.go  var c12BatchKey     -> generated cases start with `key framed` (the Lean driver then groups by
                                               keyFramed / byKeyFramed, the keys update_nodes_batch_exact is about)
  * corpus/C12/c12batch_*.ops `key …` lines  -> the collision witnesses become regression cases
  * known_findings.json C12:batch:* entries  -> status `fixed` (suppresses nothing: a recurrence is a VIOLATION)
`current` goes back.  The suite needs the verif hook hooks/C12.patch (drivers/neo4j/verif_c12.go) in /repo to reach
the unexported builders; without it it generates nothing and evidence lists branch.batch.* as coverage warnings.
"""
import glob, json, os, re, sys
ROOT = os.path.dirname(os.path.dirname(os.path.abspath(__file__)))


def main():
    if len(sys.argv) != 2 or sys.argv[1] not in ("fixed", "current"):
        print(__doc__); return 2
    key = "framed" if sys.argv[1] == "fixed" else "old"
    p = os.path.join(ROOT, "harness", "c12batch.go")
    s = open(p).read()
    open(p, "w").write(re.sub(r'var c12BatchKey = "(old|framed)"', 'var c12BatchKey = "%s"' % key, s))
    for f in sorted(glob.glob(os.path.join(ROOT, "corpus", "C12", "c12batch_*.ops"))):
        t = open(f).read()
        open(f, "w").write(re.sub(r"(?m)^key (old|framed)$", "key " + key, t))
    p = os.path.join(ROOT, "known_findings.json")
    d = json.load(open(p))
    for k in d["findings"]:
        if k.get("key", "").startswith("C12:batch:"):
            k["status"] = "fixed" if sys.argv[1] == "fixed" else "known"
    json.dump(d, open(p, "w"), indent=1)
    print("C12 batch tie now uses the %s keys" % key)
    return 0


if __name__ == "__main__":
    sys.exit(main())
