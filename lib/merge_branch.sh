#!/bin/sh
# usage: merge_branch.sh <branch>   (run in /verif)
set -e
b=$1
git merge --no-edit --no-commit $b >/dev/null 2>&1 || true
python3 lib/merge_kf.py
for f in $(git diff --name-only --diff-filter=U | grep "^evidence/" || true); do git checkout --theirs -- "$f"; done
git checkout HEAD -- harness/go.mod lib/gen_main.py 2>/dev/null || true
for f in lib/flow.py lib/verif.py lib/regen.py lib/BUILDING.md harness/main.go check setup.sh lean/lakefile.toml lean/Driver/Proto.lean; do
  if git diff --name-only --diff-filter=U | grep -qx "$f"; then echo "CONFLICT in shared file $f"; fi
done
python3 lib/gen_main.py >/dev/null
git add -A
git diff --name-only --diff-filter=U
git status --short | grep -v "^A \|^M " | head
