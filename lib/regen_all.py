#!/usr/bin/env python3
<<<<<<< HEAD
"""Runs every fact extractor once (used by setup.sh so that `lake build Dawgs` finds all generated tables)."""
import glob, importlib, os, sys
sys.path.insert(0, os.path.dirname(os.path.abspath(__file__)))
from verif import Ctx
for f in sorted(glob.glob(os.path.join(os.path.dirname(os.path.abspath(__file__)), "props", "c*.py"))):
    mod = importlib.import_module("props." + os.path.basename(f)[:-3])
    r = mod.SPEC.get("regen")
    if r:
        r(None)
        print("regen", mod.SPEC["id"], "ok")
=======
"""Runs SPEC["regen"] of every lib/props/cXX.py (fact extractors -> lean/Dawgs/Generated/*.lean), so that a plain
`lake build Dawgs` (setup.sh) finds the generated tables. ./check regenerates them again on every run."""
import glob, importlib, os, sys
sys.path.insert(0, os.path.dirname(os.path.abspath(__file__)))
for f in sorted(glob.glob(os.path.join(os.path.dirname(os.path.abspath(__file__)), "props", "c*.py"))):
    mod = importlib.import_module("props." + os.path.basename(f)[:-3])
    regen = getattr(mod, "SPEC", {}).get("regen")
    if regen:
        regen(None)
        print("regenerated facts for", mod.SPEC["id"])
>>>>>>> build-c13
