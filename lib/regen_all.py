#!/usr/bin/env python3
"""Runs every fact extractor once (used by setup.sh so that `lake build Dawgs` finds all generated tables)."""
import glob, importlib, os, sys
sys.path.insert(0, os.path.dirname(os.path.abspath(__file__)))
from verif import Ctx
for f in sorted(glob.glob(os.path.join(os.path.dirname(os.path.abspath(__file__)), "props", "c*.py"))):
    mod = importlib.import_module("props." + os.path.basename(f)[:-3])
    r = mod.SPEC.get("regen")
    if r:
        r(Ctx("SETUP", "quick", 1))   # extractors that need scratch space use ctx.path(...)
        print("regen", mod.SPEC["id"], "ok")
