#!/usr/bin/env python3
"""Prints the two generated tables of DESIGN.md §11.4 (seeded changes) and §11.5 (as built) from the files under
/verif (seeded/*/meta.json, lib/props/*.py, known_findings.json, evidence/*.json, MANIFEST.json).
usage: design_tables.py seeded [round] | asbuilt"""
import glob, importlib, json, os, re, sys

VERIF = os.path.dirname(os.path.dirname(os.path.abspath(__file__)))
sys.path.insert(0, os.path.join(VERIF, "lib"))
sys.path.insert(0, os.path.join(VERIF, "lib", "props"))


def seeded(rnd=None):
    print("| id | change | confirmed | caught | by |")
    print("|---|---|---|---|---|")
    def key(d):
        m = re.match(r"(C\d+)-(?:(r\d+)-)?(\d+)$", os.path.basename(d))
        return (m.group(2) or "", m.group(1), int(m.group(3)))
    for d in sorted(glob.glob(os.path.join(VERIF, "seeded", "C*")), key=key):
        k = key(d)
        if rnd is not None and k[0] != rnd:
            continue
        mf = os.path.join(d, "meta.json")
        if not os.path.exists(mf):
            continue
        r = json.load(open(mf))
        summ = (r.get("agent_meta", {}).get("summary") or r.get("agent_meta", {}).get("what") or "")
        summ = summ.replace("|", "/").replace("\n", " ")
        summ = summ[:150] + ("…" if len(summ) > 150 else "")
        if r.get("check_detected"):
            c = "yes, with failing input" if r.get("check_with_failing_input") else "yes, no-failing-input-found"
        else:
            others = [k for k, v in sorted(r.get("other_checks", {}).items()) if v.get("check_detected")]
            c = "**no** by its own check" + ("; yes, with failing input, by " + ", ".join(others) if others else "")
        by = []
        lines = r.get("check_output", []) if r.get("check_detected") else []
        if any("UNDISCHARGED" in l for l in lines):
            by.append("proof obligation")
        dis = sum(int(m.group(1)) for l in lines for m in [re.search(r"(\d+) disagreements", l)] if m)
        rej = sum(int(m.group(1)) for l in lines for m in [re.search(r"(\d+) monitor rejections", l)] if m)
        pan = sum(int(m.group(1)) for l in lines for m in [re.search(r"(\d+) panics", l)] if m)
        if dis:
            by.append("correspondence")
        if rej or pan:
            by.append("monitor")
        oc = r.get("other_checks", {})
        if oc:
            by.append("also " + ", ".join(k for k, v in sorted(oc.items()) if v.get("check_detected")))
        print("| %s | %s | %s | %s | %s |" % (os.path.basename(d), summ, "yes" if r.get("confirmed") else "no", c, ", ".join(by) or "—"))


def asbuilt():
    man = json.load(open(os.path.join(VERIF, "MANIFEST.json")))
    kf = json.load(open(os.path.join(VERIF, "known_findings.json")))
    kf = kf["findings"] if isinstance(kf, dict) else kf
    levels = {c["property_id"]: c.get("level_claimed", {}).get("category") for c in man.get("checks", [])}
    print("| prop | level claimed | theorems audited | harness suites | regenerated tables (T-tie) | findings known / fixed | quick cases |")
    print("|---|---|---|---|---|---|---|")
    for i in range(1, 21):
        pid = "C%02d" % i
        try:
            mod = importlib.import_module("c%02d" % i)
        except Exception as e:  # noqa
            print("| %s | (no module: %s) |" % (pid, e))
            continue
        spec = getattr(mod, "SPEC", {})
        ths = spec.get("theorems", [])
        nth = sum(len(t[1]) if isinstance(t, (list, tuple)) and len(t) > 1 and isinstance(t[1], (list, tuple)) else 1 for t in ths)
        suites = [s.get("name", "?") for s in spec.get("suites", [])]
        known = sum(1 for f in kf if f.get("property") == pid and f.get("status") == "known")
        fixed = sum(1 for f in kf if f.get("property") == pid and f.get("status") == "fixed")
        cases = "?"
        nob = None
        try:
            ev = json.load(open(os.path.join(VERIF, "evidence", pid + ".json")))
            s = json.dumps(ev)
            m = re.findall(r'"cases":\s*(\d+)', s)
            cases = str(sum(int(x) for x in m)) if m else "?"
            nob = ev.get("coverage", {}).get("obligations")
        except Exception:
            pass
        print("| %s | %s | %s | %s | %s | %d / %d | %s |" % (pid, levels.get(pid, "—"), nob or nth, ", ".join(suites) or "—",
                                                          "yes" if spec.get("regen") else "—", known, fixed, cases))


if __name__ == "__main__":
    if sys.argv[1] == "seeded":
        seeded(sys.argv[2] if len(sys.argv) > 2 else None)
    else:
        asbuilt()
