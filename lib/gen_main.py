#!/usr/bin/env python3
"""Regenerates lean/Driver/Main.lean + lean/Driver/MainG.lean (import every Driver/C*.lean and concatenate
their `suites`), lean/suites.json (suite name -> executable) and lean/Dawgs.lean (imports every
Dawgs/Props/*.lean). A driver file containing the marker comment `-- uses-generated` depends on tables
regenerated from /repo (lean/Dawgs/Generated) and goes into the second executable `dawgsmodelg`, so a
broken extractor cannot take the core drivers down. Run after adding a suite or a Props file."""
import glob, json, os, re
ROOT = os.path.join(os.path.dirname(os.path.dirname(os.path.abspath(__file__))), "lean")
MAIN = '''
def main (args : List String) : IO UInt32 := do
  match args with
  | [name] =>
    match suites.lookup name with
    | some s =>
      Driver.loop (← IO.getStdin) (← IO.getStdout) s s.init
      return 0
    | none => IO.eprintln s!"unknown suite {name}"; return 2
  | _ => IO.eprintln "usage: dawgsmodel <suite> < ops"; return 2
'''
core, gen, table = [], [], {}
for f in sorted(glob.glob(os.path.join(ROOT, "Driver", "C*.lean"))):
    name = os.path.basename(f)[:-5]
    txt = open(f).read()
    isgen = "-- uses-generated" in txt
    (gen if isgen else core).append(name)
    m = re.search(r"def Driver\.%s\.suites[^\n]*:=(.*?)(?:\n\n|\Z)" % re.escape(name), txt, re.S)
    for s in re.findall(r'\("([A-Za-z0-9_]+)"\s*,', m.group(1) if m else ""):
        table[s] = "dawgsmodelg" if isgen else "dawgsmodel"


def write_main(fname, drivers):
    src = "import Driver.Proto\n" + "".join("import Driver.%s\n" % d for d in drivers)
    src += "\ndef suites : List (String × Driver.Suite) :=\n  " + (" ++\n  ".join("Driver.%s.suites" % d for d in drivers) or "[]") + "\n" + MAIN
    open(os.path.join(ROOT, "Driver", fname), "w").write(src)


write_main("Main.lean", core)
write_main("MainG.lean", gen)
json.dump(table, open(os.path.join(ROOT, "suites.json"), "w"), indent=1, sort_keys=True)
props = sorted(os.path.basename(f)[:-5] for f in glob.glob(os.path.join(ROOT, "Dawgs", "Props", "*.lean")))
open(os.path.join(ROOT, "Dawgs.lean"), "w").write("".join("import Dawgs.Props.%s\n" % p for p in props))
print("Main.lean:", core, "MainG.lean:", gen, "Dawgs.lean:", props)
