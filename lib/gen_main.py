#!/usr/bin/env python3
"""Regenerates lean/Driver/Main.lean (imports every Driver/C*.lean, concatenates their `suites`)
and lean/Dawgs.lean (imports every Dawgs/Props/*.lean). Run after adding a suite or a Props file."""
import glob, os, re
ROOT = os.path.join(os.path.dirname(os.path.dirname(os.path.abspath(__file__))), "lean")
drivers = sorted(os.path.basename(f)[:-5] for f in glob.glob(os.path.join(ROOT, "Driver", "C*.lean")))
src = "import Driver.Proto\n" + "".join("import Driver.%s\n" % d for d in drivers)
src += "\ndef suites : List (String × Driver.Suite) :=\n  " + " ++\n  ".join("Driver.%s.suites" % d for d in drivers) + "\n"
src += '''
def main (args : List String) : IO UInt32 := do
  match args with
  | [name] =>
    match suites.lookup name with
    | some s =>
      Driver.loop (← IO.getStdin) (← IO.getStdout) s s.init
      return 0
    | none => IO.eprintln s!"unknown suite {name}"; return 2
  | _ => IO.eprintln "usage: dawgsmodel <suite> < ops"; return 2
'''
open(os.path.join(ROOT, "Driver", "Main.lean"), "w").write(src)
props = sorted(os.path.basename(f)[:-5] for f in glob.glob(os.path.join(ROOT, "Dawgs", "Props", "*.lean")))
open(os.path.join(ROOT, "Dawgs.lean"), "w").write("".join("import Dawgs.Props.%s\n" % p for p in props))
print("Main.lean:", drivers, "Dawgs.lean:", props)
