import re, json

_CLAUSE = re.compile(r"\b(optional\s+match|match|unwind|with|return|where)\b")


def _strip_strings(q):
    return re.sub(r"'(?:[^'\\]|\\.)*'", "''", q)


def clauses(q):
    """[(kind, text)] of the top-level clauses of a (lower-cased) query; WHERE is folded into the clause it follows."""
    q = _strip_strings(q.lower())
    out, depth, last, kind = [], 0, 0, None
    toks = []
    for m in _CLAUSE.finditer(q):
        # only at bracket depth 0
        pre = q[:m.start()]
        if pre.count("(") - pre.count(")") or pre.count("[") - pre.count("]") or pre.count("{") - pre.count("}"):
            continue
        toks.append((m.start(), re.sub(r"\s+", " ", m.group(1))))
    for i, (pos, k) in enumerate(toks):
        end = toks[i + 1][0] if i + 1 < len(toks) else len(q)
        text = q[pos + len(k):end].strip()
        if k == "where" and out:
            out[-1] = (out[-1][0], out[-1][1], text)
        else:
            out.append((k, text, ""))
    return out


_VAR = re.compile(r"[(\[]\s*([a-z_][a-z0-9_]*)\s*(?=[:{)\]*]|\s|$)")


def pattern_vars(text):
    return [m.group(1) for m in _VAR.finditer(text)] + re.findall(r"\b([a-z_][a-z0-9_]*)\s*=\s*\(", text)


def features(q):
    cl = clauses(q)
    f = set()
    bound = set()          # names visible so far
    paths = set()          # path variables
    part_start = True      # at the first clause of a query part
    seen_frame = False     # some earlier clause produced a frame
    n_with = sum(1 for c in cl if c[0] == "with")
    withs_left = n_with
    for idx, (k, text, wh) in enumerate(cl):
        in_part_followed_by_with = withs_left > 0
        if k in ("match", "optional match"):
            parts = re.split(r",\s*(?=[a-z_0-9]*\s*=?\s*\()", text)
            vs_all = []
            if len(parts) > 1:
                f.add("comma-patterns")
            if k == "optional match" and f & {"rel-pattern"}:
                # OPTIONAL MATCH after an earlier clause that matched a relationship pattern (two different paths with the same end nodes
                # give equal rows once the relationship column is pruned: the outer join is keyed on the remaining columns)
                f.add("optional-match-after-rel-pattern")
            for p in parts:
                vs = [v for v in pattern_vars(p)]
                nodes = re.findall(r"\(\s*([a-z_][a-z0-9_]*)", p)
                has_rel = bool(re.search(r"-\s*\[|--|<-|->", p))
                has_var = bool(re.search(r"\[[^\]]*\*", p))
                if has_rel:
                    f.add("rel-pattern")
                    if seen_frame:
                        f.add("rel-pattern-after-earlier-clause")
                    if in_part_followed_by_with:
                        f.add("rel-pattern-in-part-followed-by-with")
                if has_var:
                    f.add("varlen")
                    if seen_frame:
                        f.add("varlen-after-earlier-clause")
                undirected = bool(re.search(r"\)\s*-\s*(?:\[[^\]]*\]\s*)?-\s*\(", p)) and not re.search(r"\)\s*<-\s*(?:\[[^\]]*\]\s*)?-\s*\(|\)\s*-\s*(?:\[[^\]]*\]\s*)?->\s*\(", p) or \
                    bool(re.search(r"\)\s*--\s*\(|\)\s*-\s*\[[^\]]*\]\s*-\s*\(", p))
                if undirected and any(v in bound for v in vs):
                    f.add("undirected-step-in-pattern-that-uses-earlier-binding")
                if len(nodes) != len(set(nodes)):
                    f.add("same-node-var-twice-in-pattern")
                    if has_var:
                        # a variable-length step in a pattern that names one node variable twice (the walk has to close on a node the
                        # SAME pattern bound before)
                        f.add("varlen-in-pattern-that-repeats-a-node-variable")
                    if seen_frame:
                        f.add("same-node-var-twice-after-earlier-clause")
                # `[*n]` / `[*n..n]`: an expansion of one exact length (the translator may lower it to n fixed steps)
                has_exact = bool(re.search(r"\[[^\]]*\*\s*(\d+)\s*(?:\.\.\s*\1\s*)?(?:\{[^}]*\}\s*)?\]", p))
                if has_exact:
                    f.add("exact-length-expansion")
                if any(v in bound for v in vs):
                    f.add("pattern-uses-earlier-binding")
                    if has_var:
                        f.add("varlen-uses-earlier-binding")
                    if has_exact:
                        f.add("exact-length-expansion-uses-earlier-binding")
                if re.search(r"\{[^}]*\b([a-z_][a-z0-9_]*)\.[a-z_]", p):
                    m = re.findall(r"\{[^}]*?\b([a-z_][a-z0-9_]*)\.[a-z_]", p)
                    if any(v in bound for v in m):
                        f.add("inline-property-map-reads-earlier-binding")
                vs_all += vs
            if k == "optional match":
                f.add("optional-match")
                if seen_frame:
                    f.add("optional-match-after-earlier-clause")
            if seen_frame:
                f.add("match-after-earlier-clause")
            if wh:
                if re.search(r"\blabels\s*\(", wh):
                    f.add("labels-fn-in-where")
                if re.search(r"\b(?:any|all|none|single)\s*\(", wh) and k == "optional match" and "rel-pattern" in f:
                    f.add("quantifier-in-where-of-optional-match-with-rel-pattern")
                if re.search(r"\(\s*[a-z_0-9]*\s*(?::[a-z0-9_:]+)?\s*\)\s*(?:<-|-)", wh):
                    f.add("pattern-predicate")
                    if len(parts) > 1 and k == "optional match":
                        f.add("pattern-predicate-in-optional-match-with-comma-patterns")
                used = set(re.findall(r"\b([a-z_][a-z0-9_]*)\b", wh))
                if used & (bound - set(vs_all)):
                    f.add("where-reads-earlier-binding")
                elif "pattern-predicate" in f and re.search(r"\b[a-z_][a-z0-9_]*\s*=\s*\(", text) and \
                        re.search(r"\(\s*[a-z_0-9]*\s*(?::[a-z0-9_:]+)?\s*\)\s*(?:<-|-)", wh):
                    # the MATCH that binds a path variable carries, in its own WHERE, a pattern predicate over its own bindings only
                    f.add("named-path-with-own-pattern-predicate")
            bound |= set(vs_all)
            paths |= set(re.findall(r"\b([a-z_][a-z0-9_]*)\s*=\s*\(", text))
            seen_frame = True
        elif k == "unwind":
            f.add("unwind")
            if idx == 0:
                f.add("leading-unwind")
            if part_start and in_part_followed_by_with:
                f.add("unwind-first-in-part-followed-by-with")
            if in_part_followed_by_with:
                f.add("unwind-in-part-followed-by-with")
            m = re.search(r"\bas\s+([a-z_][a-z0-9_]*)\s*$", text)
            if m:
                bound.add(m.group(1))
            seen_frame = True
        elif k == "with":
            f.add("with")
            withs_left -= 1
            items = re.split(r",\s*(?![^()]*\))", re.split(r"\border by\b|\bskip\b|\blimit\b", text)[0])
            newb = set()
            carried = set()        # variables this WITH has already exported under their own name (`v` / `v as v`)
            for it in items:
                it = it.strip()
                it = re.sub(r"^distinct\s+", "", it)
                m = re.match(r"^(.*?)\s+as\s+([a-z_][a-z0-9_]*)$", it)
                if m and m.group(1).strip() == m.group(2):
                    carried.add(m.group(2))
                elif m and m.group(1).strip() in carried:
                    # `with v, v as w`: the variable is exported under its own name and AFTER that again under a second name
                    f.add("with-variable-carried-then-renamed")
                elif not m and re.fullmatch(r"[a-z_][a-z0-9_]*", it):
                    carried.add(it)
                if m:
                    src, al = m.group(1).strip(), m.group(2)
                    if src in paths and al != src:
                        f.add("path-variable-renamed-in-with")
                    if al in bound and al != src:
                        f.add("with-alias-rebinds-existing-name")
                        if re.fullmatch(r"[a-z_][a-z0-9_]*", src):
                            f.add("with-identifier-alias-onto-existing-name")
                        else:
                            f.add("with-expression-alias-onto-existing-name")
                    newb.add(al)
                elif re.fullmatch(r"[a-z_][a-z0-9_]*", it):
                    newb.add(it)
                    if it in paths:
                        f.add("path-variable-carried-through-with")
            if wh and re.search(r"\(\s*[a-z_0-9]*\s*(?::[a-z0-9_:]+)?\s*\)\s*(?:<-|-)", wh):
                f.add("pattern-predicate-in-with-where")
            bound = newb
            seen_frame = True
            part_start = True
            continue
        part_start = False
    return f


if __name__ == "__main__":
    import sys
    for q in sys.argv[1:]:
        print(q, sorted(features(q)))
