"""Generic check flow for line-protocol suites: prove -> correspond -> monitor -> decide -> evidence."""
import glob, json, os, shutil, time
from verif import *


def prove(ctx, spec):
    """Regenerate facts, build theorems, audit axioms, grep gate. Returns (obligations, discharged, failed[list of str], axioms{})."""
    failed = []
    if spec.get("regen"):
        try:
            spec["regen"](ctx)
        except Exception as e:  # extractor failure = broken tie
            failed.append("extractor: %r" % (e,))
    mods = spec["lean_modules"]
    exes = sorted({model_exe(su[k]) for su in spec["suites"] for k in ("model_suite", "monitor_suite") if su.get(k)})
    theorems = spec["theorems"]
    axioms = {}
    ok, out = lake_build(ctx, mods + exes)
    broken_mods = set()
    if not ok:
        ctx.build_log = out[-4000:]
        # find out which pieces are broken: executables first (needed for the tie), then each theorem module alone
        for e in exes:
            eok, eout = lake_build(ctx, [e])
            if not eok:
                failed.append("model driver %s does not build" % e)
        for m in set(list(mods) + list(spec["theorems_by_module"].keys())):
            mok, mout = lake_build(ctx, [m])
            if not mok:
                broken_mods.add(m)
        for mod, names in spec["theorems_by_module"].items():
            if mod in broken_mods:
                for t in names:
                    failed.append("theorem %s: module %s does not build" % (t, mod))
    for mod, names in spec["theorems_by_module"].items():
        if mod in broken_mods:
            continue
        res = audit(ctx, mod, names)
        for t, (tok, axs) in res.items():
            axioms[t] = axs
            if not tok:
                failed.append("theorem %s: %s" % (t, ",".join(axs)))
    hits = grep_gate(ctx, lean_files_for(spec.get("gate_modules", [])))
    for h in hits:
        failed.append("forbidden construct: " + h)
    n = len(theorems)
    bad = len({f.split(":")[0] for f in failed if f.startswith("theorem ")})
    return n, n - bad if not hits else 0, failed, axioms


def with_corpus(ctx, suite, gen_ops_path):
    """Prepend corpus cases (corpus/<pid>/<suite>*.ops) to generated ops."""
    lines = []
    n = 0
    files = glob.glob(os.path.join(VERIF, "corpus", ctx.pid, suite["name"] + "_*.ops")) + \
        glob.glob(os.path.join(VERIF, "corpus", ctx.pid, suite["name"] + ".ops"))
    for f in sorted(set(files)):
        lines.append("# case corpus:%s" % os.path.basename(f))
        lines += [l for l in read_lines(f) if not l.startswith("# case")]
        n += 1
    lines += read_lines(gen_ops_path)
    open(gen_ops_path, "w").write("\n".join(lines) + "\n")
    return n


def model_lines(ctx, suite, ops, impl, tag):
    """Feed the model driver: the op lines, or (suite['model_input']) a line derived from op + impl answer."""
    if not suite.get("model_suite"):
        return []
    mi = suite.get("model_input")
    lines = [(o if (o.startswith("#") or not mi) else mi(o, r)) for o, r in zip(ops, impl)]
    p = ctx.path("%s_%s.min" % (suite["name"], tag))
    open(p, "w").write("\n".join(lines) + "\n")
    mo = ctx.path("%s_%s.model" % (suite["name"], tag))
    if not run_model(ctx, suite["model_suite"], p, mo):
        raise RuntimeError("model driver failed")
    return read_lines(mo)


def views(suite, impl, model):
    iv, mv = suite.get("impl_view"), suite.get("model_view")
    vi = [l if (l == "#" or not iv) else iv(l) for l in impl]
    vm = [l if (l == "#" or not mv) else mv(l) for l in model]
    return vi, vm


def exec_case(ctx, suite, ops, tag="t"):
    """Run a list of op lines through impl, model and monitor. Returns (impl, model, mon)."""
    p = ctx.path("%s_%s.ops" % (suite["name"], tag))
    open(p, "w").write("\n".join(ops) + "\n")
    io = ctx.path("%s_%s.impl" % (suite["name"], tag))
    rc, out = harness(ctx, suite["name"], "run", ["-ops", p, "-out", io], timeout=suite.get("case_timeout", 120))
    impl = read_lines(io) if rc == 0 else ["harness-crash"] * len(ops)
    model = model_lines(ctx, suite, ops, impl, tag)
    mon = run_monitor(ctx, suite, ops, impl, tag, model)
    return impl, model, mon


def run_monitor(ctx, suite, ops, impl, tag, model=None):
    if suite.get("judge"):
        model = model or [""] * len(ops)
        return [("#" if o.startswith("#") else suite["judge"](o, r, m)) for o, r, m in zip(ops, impl, model)]
    if not suite.get("monitor_suite"):
        return []
    mp = ctx.path("%s_%s.monin" % (suite["name"], tag))
    with open(mp, "w") as f:
        for o, r in zip(ops, impl):
            f.write(o if o.startswith("#") else "%s => %s" % (o, r))
            f.write("\n")
    mo = ctx.path("%s_%s.monout" % (suite["name"], tag))
    run_model(ctx, suite["monitor_suite"], mp, mo)
    return read_lines(mo)


def first_reject(mon):
    for i, l in enumerate(mon):
        if l.startswith("reject"):
            return i, l
    return None


def correspond(ctx, spec, suite, stats):
    """Returns dict(cases, evaluations, distinct_nontrivial, disagreements[list], rejects[list])."""
    name = suite["name"]
    ops_p, impl_p, model_p = ctx.path(name + ".ops"), ctx.path(name + ".impl"), ctx.path(name + ".model")
    seeds = [ctx.seed] if ctx.tier == "quick" else [ctx.seed + i for i in range(suite.get("thorough_seeds", 2))]
    all_lines = []
    for s in seeds:
        sp = ctx.path("%s_seed%d.ops" % (name, s))
        rc, out = harness(ctx, name, "gen", ["-seed", str(s), "-tier", ctx.tier, "-ops", sp, "-stats", ctx.path(name + ".gstats")])
        if rc != 0:
            raise RuntimeError("harness gen failed: " + out[-1000:])
        for k, v in load_stats(ctx.path(name + ".gstats")).items():
            stats["gen." + k] = stats.get("gen." + k, 0) + v
        ls = read_lines(sp)
        if s != seeds[0]:
            ls = [l for l in ls]
        all_lines += ls
        os.remove(sp)
    open(ops_p, "w").write("\n".join(all_lines) + "\n")
    ncorpus = with_corpus(ctx, suite, ops_p)
    stats["corpus_cases"] = stats.get("corpus_cases", 0) + ncorpus
    t = time.time()
    race = bool(suite.get("race_in_thorough")) and ctx.tier == "thorough"
    if race:
        rok, rout = build_harness(ctx, race=True)
        if not rok:
            raise RuntimeError("race-enabled harness does not build: " + rout[-1000:])
    rc, out = harness(ctx, name, "run", ["-ops", ops_p, "-out", impl_p, "-stats", ctx.path(name + ".rstats")],
                      timeout=suite.get("timeout", 3000), race=race, env={"GORACE": "halt_on_error=0 exitcode=66"})
    race_report = None
    if "DATA RACE" in out:
        race_report = out[out.index("WARNING: DATA RACE"):][:6000]
    elif rc != 0:
        raise RuntimeError("harness run failed (rc=%d): %s" % (rc, out[-2000:]))
    stats["race_detector"] = 1 if race else stats.get("race_detector", 0)
    for k, v in load_stats(ctx.path(name + ".rstats")).items():
        stats[k] = stats.get(k, 0) + v
    ops = read_lines(ops_p)
    impl = read_lines(impl_p)
    model = model_lines(ctx, suite, ops, impl, "all")
    mon = run_monitor(ctx, suite, ops, impl, "all", model)
    vimpl, vmodel = views(suite, impl, model)
    outs = [impl] + ([model] if model else []) + ([mon] if mon else []) + ([vimpl, vmodel] if model else [])
    cases = split_cases(ops, *outs)
    res = {"cases": len(cases), "disagreements": [], "rejects": [], "nontrivial": set(), "samples": [], "panics": [], "race": race_report}
    for c in cases:
        ci = c["outs"][0]
        idx = 1
        cm = c["outs"][idx] if model else None
        if model: idx += 1
        cmon = c["outs"][idx] if mon else None
        if model and c["outs"][-2] != c["outs"][-1]:
            vi, vm = c["outs"][-2], c["outs"][-1]
            k = next(i for i in range(len(vi)) if vi[i] != vm[i])
            res["disagreements"].append({"case": c, "line": k})
        if cmon:
            # Only the FIRST rejection of a case is used: after it the monitor's state no longer follows the
            # implementation, so later rejections of the same case are consequences, not independent evidence.
            # (Generators keep shapes that hit a listed finding in cases of their own, so a known class cannot
            # mask a new one in ordinary cases.)
            fr = first_reject(cmon)
            if fr:
                res["rejects"].append({"case": c, "line": fr[0], "msg": fr[1]})
        if any(l.startswith("panic ") for l in ci):
            res["panics"].append({"case": c})
        if spec["nontrivial"](c["ops"], ci):
            res["nontrivial"].add(case_hash(c["ops"]))
        if len(res["samples"]) < 3 and len(c["ops"]) < 40 and spec["nontrivial"](c["ops"], ci):
            res["samples"].append({"suite": name, "ops": c["ops"], "impl": ci})
    return res


def shrink_case(ctx, suite, case_ops, pred, keep_prefix):
    """ddmin op lines; pred(impl, model, mon) -> bool on a candidate."""
    def failing(cand):
        impl, model, mon = exec_case(ctx, suite, cand, "shrink")
        return pred(impl, model, mon)
    return ddmin(case_ops, failing, keep_prefix=keep_prefix, budget=suite.get("shrink_budget", 300))


def run_property(spec, tier, seed, replay=None):
    ctx = Ctx(spec["id"], tier, seed)
    pid = spec["id"]
    ctx.say("== %s %s tier=%s seed=%d" % (pid, spec["title"], tier, seed))
    obligations, discharged, failed, axioms = prove(ctx, spec)
    ctx.say("proof: %d/%d obligations discharged" % (discharged, obligations))
    for f in failed:
        ctx.say("  UNDISCHARGED:", f)
    ok, out = build_harness(ctx)
    stats, totals = {}, {"evaluations": 0, "nontrivial": set(), "samples": []}
    tie_broken = []      # descriptions of correspondence failures
    property_failures = 0
    if not ok:
        tie_broken.append("harness does not build against /repo: " + out[-800:])
    else:
        if replay:
            return do_replay(ctx, spec, replay)
        def run_suites(escalated):
            nonlocal property_failures
            for suite in spec["suites"]:
                if escalated and suite.get("no_escalation"):
                    continue
                try:
                    res = correspond(ctx, spec, suite, stats if not escalated else {})
                except Exception as e:
                    if not escalated:
                        tie_broken.append("suite %s could not run: %r" % (suite["name"], e))
                    continue
                if not escalated:
                    totals["evaluations"] += res["cases"]
                    totals["nontrivial"] |= res["nontrivial"]
                    totals["samples"] += res["samples"]
                else:
                    totals["escalated_evaluations"] = totals.get("escalated_evaluations", 0) + res["cases"]
                ctx.say("suite %s%s: %d cases, %d disagreements, %d monitor rejections, %d panics" % (
                    suite["name"], " (escalated search)" if escalated else "", res["cases"], len(res["disagreements"]),
                    len(res["rejects"]), len(res["panics"])))
                kp = suite.get("keep_prefix", 2)
                if res.get("race"):
                    property_failures += 1
                    report_finding(ctx, "%s:%s:data-race" % (pid, suite["name"]), "Go race detector reports a data race",
                                   {"kind": "input", "suite": suite["name"], "race_report": res["race"],
                                    "how_to_replay": "./check %s --tier thorough (race-enabled harness)" % pid})
                # property failures observed on the implementation (monitor rejections), grouped by finding key
                seen_keys = {}
                for r in res["rejects"]:
                    key = spec["finding_key"](suite, r["case"]["ops"], r["line"], r["msg"])
                    seen_keys.setdefault(key, []).append(r)
                for key, rs in seen_keys.items():
                    r = min(rs, key=lambda r: len(r["case"]["ops"]))
                    msg0 = r["msg"].split()[1] if len(r["msg"].split()) > 1 else ""
                    small = shrink_case(ctx, suite, r["case"]["ops"],
                                        lambda impl, model, mon: any(l.startswith("reject") and (l.split()[1:2] == [msg0]) for l in mon), kp)
                    impl, model, mon = exec_case(ctx, suite, small, "final")
                    fr = first_reject(mon)
                    property_failures += 1
                    report_finding(ctx, key, "monitor rejects implementation trace: " + (fr[1] if fr else r["msg"]),
                                   {"kind": "input", "suite": suite["name"], "ops": small, "impl": impl, "model": model,
                                    "monitor": mon, "minimised": True, "occurrences": len(rs),
                                    "how_to_replay": "./check %s --replay <this file>" % pid})
                for r in res["panics"]:
                    if not spec.get("panic_is_violation", True):
                        continue
                    key = "%s:%s:panic" % (pid, suite["name"])
                    if key in seen_keys:
                        continue
                    seen_keys[key] = 1
                    small = shrink_case(ctx, suite, r["case"]["ops"], lambda impl, model, mon: any(l.startswith("panic ") for l in impl), kp)
                    impl, model, mon = exec_case(ctx, suite, small, "final")
                    property_failures += 1
                    report_finding(ctx, key, "implementation panics", {"kind": "input", "suite": suite["name"], "ops": small, "impl": impl, "minimised": True})
                if res["disagreements"] and not escalated:
                    d = min(res["disagreements"], key=lambda d: len(d["case"]["ops"]))
                    differs = lambda impl, model, mon: (lambda v: v[0] != v[1])(views(suite, impl, model))
                    small = shrink_case(ctx, suite, d["case"]["ops"], differs, kp)
                    impl, model, mon = exec_case(ctx, suite, small, "final")
                    tie_broken.append({"suite": suite["name"], "ops": small, "impl": impl, "model": model, "monitor": mon,
                                       "count": len(res["disagreements"])})

        run_suites(False)
        # A proof obligation or the correspondence broke but the quick generators found no input on which the
        # property fails: search harder (the thorough generators, incl. the race detector) before giving up.
        if (failed or tie_broken) and not any(not v["nofail"] for v in ctx.violations) and ctx.tier == "quick" \
                and spec.get("escalate", True) and not os.environ.get("VERIF_NO_ESCALATION"):
            ctx.say("proof/correspondence broken and no failing input yet: escalating the search to the thorough generators")
            ctx.tier = "thorough"
            try:
                run_suites(True)
            finally:
                ctx.tier = "quick"
    # decide about broken proof / correspondence without an unlisted failing input
    new_input_violation = any(not v["nofail"] for v in ctx.violations)
    if (failed or tie_broken) and not new_input_violation:
        what = []
        if failed:
            what.append("proof obligations no longer check: " + "; ".join(failed[:6]))
        if tie_broken:
            what.append("correspondence model<->implementation broken (%d)" % len(tie_broken))
        report_finding(ctx, "%s:tie" % pid, " | ".join(what),
                       {"kind": "theorem" if failed and not tie_broken else "correspondence",
                        "theorems": failed, "correspondence": tie_broken[:3],
                        "build_log": getattr(ctx, "build_log", ""),
                        "note": "searched the implementation with the property monitor over %d cases; no failing input found" % totals["evaluations"]},
                       nofail=True)
    elif (failed or tie_broken):
        ctx.say("note: proof/correspondence also broken:", failed[:3], len(tie_broken))
    # evidence
    level = spec["level"]
    if discharged < obligations or obligations == 0:
        level = spec.get("fallback_level", "other")
    cov = {
        "obligations": obligations, "discharged": discharged,
        "checker_cmd": "cd /verif/lean && lake build %s && lake env lean <audit:#print axioms>" % " ".join(spec["lean_modules"]),
        "trusted_base": TRUSTED_BASE_COMMON + spec.get("trusted_base", []),
        "theorems": {t: axioms.get(t, ["<unchecked>"]) for t in spec["theorems"]},
        "undischarged": failed,
        "evaluations": max(totals["evaluations"], 0),
        "distinct_nontrivial": len(totals["nontrivial"]),
        "rule": spec["rule"],
        "samples": (totals["samples"][:4] or [{"note": "no sample"}]),
        "branch_hist": dict(sorted(stats.items())),
        "coverage_warnings": [b for b in spec.get("expected_branches", []) if not stats.get(b)],
        "correspondence_broken": len(tie_broken),
        "property_failures_on_impl": property_failures,
        "explanation": spec.get("explanation", ""),
    }
    if tier == "thorough" and spec.get("leanchecker", True) and not failed:
        oks = []
        for m in spec["lean_modules"]:
            lok, lout = leanchecker(ctx, m)
            oks.append(lok)
            if not lok:
                ctx.say("leanchecker failed for", m, lout)
        cov["leanchecker"] = all(oks)
    if spec.get("extra_coverage"):
        cov.update(spec["extra_coverage"](ctx, stats))
    write_evidence(ctx, level, cov, spec.get("assumptions", []))
    rc = finish(ctx)
    ctx.say("== %s done rc=%d wall=%.1fs" % (pid, rc, time.time() - ctx.t0))
    if rc == 0 and not os.environ.get("VERIF_KEEP_WORK"):
        shutil.rmtree(ctx.work, ignore_errors=True)   # scratch files are only kept for failing runs
    return rc


def do_replay(ctx, spec, replay):
    obj = json.load(open(replay))
    suite = next((s for s in spec["suites"] if s["name"] == obj.get("suite")), spec["suites"][0])
    ops = obj.get("ops")
    if ops is None and obj.get("correspondence"):
        c = obj["correspondence"][0]
        if isinstance(c, dict):
            ops = c["ops"]; suite = next((s for s in spec["suites"] if s["name"] == c.get("suite")), suite)
    if ops is None:
        print("replay names theorems only:", obj.get("theorems"))
        return 1
    impl, model, mon = exec_case(ctx, suite, ops, "replay")
    for i, o in enumerate(ops):
        print("%-40s impl=%-30s model=%-30s mon=%s" % (o, impl[i] if i < len(impl) else "", model[i] if i < len(model) else "-", mon[i] if i < len(mon) else "-"))
    vi, vm = views(suite, impl, model)
    bad = (model and vi != vm) or first_reject(mon) or any(l.startswith("panic ") for l in impl)
    print("REPLAY: %s" % ("still fails" if bad else "passes now"))
    return 1 if bad else 0
