#!/usr/bin/env python3
"""Stranger's audit of the whole Lean development: forbidden constructs, `#print axioms` of every theorem named
in any lib/props/cXX.py, optional leanchecker re-check of every Props module.  usage: audit_all.py [--leanchecker]"""
import glob, importlib, os, sys
sys.path.insert(0, os.path.dirname(os.path.abspath(__file__)))
import verif

ctx = verif.Ctx("AUDIT", "quick", 1)
files = [os.path.relpath(f, verif.LEAN) for f in glob.glob(os.path.join(verif.LEAN, "Dawgs", "**", "*.lean"), recursive=True)
         if "/Generated/" not in f]
hits = verif.grep_gate(ctx, files)
print("forbidden constructs:", len(hits))
for h in hits:
    print("  ", h)
bad = 0
total = 0
for f in sorted(glob.glob(os.path.join(os.path.dirname(os.path.abspath(__file__)), "props", "c*.py"))):
    mod = importlib.import_module("props." + os.path.basename(f)[:-3])
    for m, names in mod.SPEC["theorems_by_module"].items():
        verif.sh(["lake", "build", m], cwd=verif.LEAN, timeout=3600)   # Tie modules are not part of the library root
        res = verif.audit(ctx, m, names)
        for t, (ok, axs) in res.items():
            total += 1
            if not ok:
                bad += 1
                print("  BAD", t, axs)
        if "--leanchecker" in sys.argv:
            ok, out = verif.leanchecker(ctx, m)
            print("  leanchecker", m, "ok" if ok else "FAILED " + out[-300:])
print("theorems audited: %d, outside {propext, Classical.choice, Quot.sound}: %d" % (total, bad))
sys.exit(1 if (bad or hits) else 0)
