#!/usr/bin/env python3
"""python3 lib/c12_flip.py fixed|current

NOTE (round 2): the fix is committed in /repo (179da67) and the repaired merges are the live definitions
(`Props.merge`, `Ent.mergeKinds`); `fixed` is the default everywhere.  This script is kept only to go back
(`current` = `mode old` in the driver = the frozen pre-fix merges `Props.mergeOld` / `Ent.mergeKindsOld`).

Switches the C12 tie between the merges as they were found in /repo (`current`, finding F4) and the repaired merges of
hooks/C12-fix.patch (`fixed`).  Run `fixed` right after the fix is committed to /repo:
  * harness/c12.go   var c12Mode            -> generated cases start with `mode <m>` (the Lean driver then runs that merge)
  * corpus/C12/*.ops, *.replay.json `mode ...` lines -> the F4 witnesses become regression cases for the repaired merge
  * known_findings.json C12 entries          -> status `fixed` (suppresses nothing: a recurrence is a VIOLATION)
Both merges stay in Model/C12.lean and all theorems stay proved; after the flip `c12_fixed` is the live statement.
"""
import glob, json, os, re, sys
ROOT = os.path.dirname(os.path.dirname(os.path.abspath(__file__)))
KEYS = ("C12:Properties.Merge:deleted-key-resurrected", "C12:Node.Merge:deleted-kind-resurrected")


def main():
    if len(sys.argv) != 2 or sys.argv[1] not in ("fixed", "current"):
        print(__doc__); return 2
    mode = sys.argv[1]
    p = os.path.join(ROOT, "harness", "c12.go")
    s = open(p).read()
    s2 = re.sub(r'var c12Mode = "(current|fixed)"', 'var c12Mode = "%s"' % mode, s)
    open(p, "w").write(s2)
    for f in sorted(glob.glob(os.path.join(ROOT, "corpus", "C12", "*.ops"))):
        t = open(f).read()
        open(f, "w").write(re.sub(r"(?m)^mode (current|fixed)$", "mode " + mode, t))
    for f in sorted(glob.glob(os.path.join(ROOT, "corpus", "C12", "*.replay.json"))):
        d = json.load(open(f))
        d["ops"] = [re.sub(r"^mode (current|fixed)$", "mode " + mode, o) for o in d["ops"]]
        json.dump(d, open(f, "w"), indent=1)
    p = os.path.join(ROOT, "known_findings.json")
    d = json.load(open(p))
    for k in d["findings"]:
        if k.get("key") in KEYS:
            k["status"] = "fixed" if mode == "fixed" else "known"
    json.dump(d, open(p, "w"), indent=1)
    print("C12 tie now runs the %s merges" % mode)
    return 0


if __name__ == "__main__":
    sys.exit(main())
