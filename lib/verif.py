"""Shared machinery of ./check: build, audit, correspondence, monitor, shrink, findings, evidence.
Python 3 stdlib only."""
import hashlib, json, os, re, shutil, subprocess, sys, time

VERIF = os.path.dirname(os.path.dirname(os.path.abspath(__file__)))
REPO = os.environ.get("VERIF_REPO", "/repo")
LEAN = os.path.join(VERIF, "lean")
HARNESS = os.path.join(VERIF, "harness")
MODEL_BIN = os.path.join(LEAN, ".lake", "build", "bin", "dawgsmodel")
HARNESS_BIN = os.path.join(HARNESS, "bin", "harness")
ALLOWED_AXIOMS = {"propext", "Classical.choice", "Quot.sound"}
GOENV = dict(os.environ, GOFLAGS="-mod=mod", GOPROXY="off")
GOENV.pop("GOTOOLCHAIN", None) if os.environ.get("GOTOOLCHAIN") == "local" else None
GOENV.pop("GOSUMDB", None) if os.environ.get("GOSUMDB") == "off" else None

TRUSTED_BASE_COMMON = [
    "Lean 4.33.0 kernel (leanchecker re-check in thorough tier)",
    "axioms allowed: propext, Classical.choice, Quot.sound (audited per theorem by #print axioms; no native_decide, bv_decide, sorry)",
    "the Go harness + generators in /verif/harness and this orchestration script",
    "Go toolchain/runtime",
]


def sh(cmd, cwd=None, env=None, timeout=None, stdin=None):
    p = subprocess.run(cmd, cwd=cwd, env=env, timeout=timeout, stdin=stdin,
                       stdout=subprocess.PIPE, stderr=subprocess.STDOUT, text=True, errors="replace")
    return p.returncode, p.stdout


class Ctx:
    def __init__(self, pid, tier, seed):
        self.pid, self.tier, self.seed = pid, tier, seed
        self.t0 = time.time()
        self.work = os.path.join(VERIF, "work", pid)
        shutil.rmtree(self.work, ignore_errors=True)
        os.makedirs(self.work, exist_ok=True)
        self.log = []
        self.violations = []      # list of dict(replay=path, nofail=bool, what=str)
        self.known_hits = []      # list of (key, what)
        self.counters = {}
        self.samples = []
        self.assumptions = []

    def say(self, *a):
        msg = " ".join(str(x) for x in a)
        self.log.append(msg)
        print(msg, flush=True)

    def path(self, name):
        return os.path.join(self.work, name)


# ---------------------------------------------------------------- Lean side

_lean_built = {}


def lake_build(ctx, targets):
    """Build lean targets; returns (ok, log)."""
    rc, out = sh(["lake", "build"] + list(targets), cwd=LEAN, timeout=3600)
    ok = rc == 0
    if not ok:
        ctx.say("lake build failed for", targets)
        ctx.say(out[-3000:])
    return ok, out


def audit(ctx, module, theorems):
    """#print axioms for every theorem; returns dict name -> (ok, axioms or error)."""
    src = "import %s\n" % module + "".join("#print axioms %s\n" % t for t in theorems)
    f = ctx.path("audit_%s.lean" % module.replace(".", "_"))
    open(f, "w").write(src)
    rc, out = sh(["lake", "env", "lean", f], cwd=LEAN, timeout=1800)
    res = {}
    for t in theorems:
        short = t
        m = re.search(r"'%s' depends on axioms: \[([^\]]*)\]" % re.escape(short), out, re.S)
        if m:
            axs = [a.strip() for a in m.group(1).replace("\n", " ").split(",") if a.strip()]
            bad = [a for a in axs if a not in ALLOWED_AXIOMS]
            res[t] = (not bad, axs)
        elif re.search(r"'%s' does not depend on any axioms" % re.escape(short), out):
            res[t] = (True, [])
        else:
            res[t] = (False, ["<not found or failed to elaborate>"])
    if rc != 0 and all(v[0] for v in res.values()):
        # some other error in the audit file
        ctx.say("audit file failed:", out[-2000:])
        for t in theorems:
            res[t] = (False, ["<audit failed>"])
    return res


FORBIDDEN = re.compile(r"\b(sorry|admit|native_decide|bv_decide|implemented_by|unsafe)\b|^\s*axiom\s|maxHeartbeats\s+0\b")


def strip_lean_comments(text):
    out, i, depth = [], 0, 0
    n = len(text)
    while i < n:
        if text.startswith("/-", i):
            depth += 1; i += 2; continue
        if depth and text.startswith("-/", i):
            depth -= 1; i += 2; continue
        if depth:
            if text[i] == "\n": out.append("\n")
            i += 1; continue
        if text.startswith("--", i):
            j = text.find("\n", i)
            i = n if j < 0 else j
            continue
        if text[i] == '"':
            j = i + 1
            while j < n and text[j] != '"':
                j += 2 if text[j] == "\\" else 1
            out.append('""'); i = j + 1; continue
        out.append(text[i]); i += 1
    return "".join(out)


def grep_gate(ctx, files):
    hits = []
    for f in files:
        p = os.path.join(LEAN, f)
        if not os.path.exists(p):
            continue
        for ln, line in enumerate(strip_lean_comments(open(p).read()).split("\n"), 1):
            if FORBIDDEN.search(line):
                hits.append("%s:%d: %s" % (f, ln, line.strip()))
    return hits


def lean_files_for(mods):
    return [m.replace(".", "/") + ".lean" for m in mods]


def build_model_exe(ctx):
    ok, out = lake_build(ctx, ["dawgsmodel"])
    return ok


def leanchecker(ctx, module):
    rc, out = sh(["lake", "env", "leanchecker", module], cwd=LEAN, timeout=3600)
    return rc == 0, out[-1500:]


# ---------------------------------------------------------------- Go side

def write_harness_gomod():
    """harness/go.mod = fixed header + every requirement of REPO's go.mod (so that each package the harness
    reaches through DAWGS resolves offline to exactly the version DAWGS pins) + replace => REPO."""
    shutil.copy(os.path.join(REPO, "go.sum"), os.path.join(HARNESS, "go.sum"))
    reqs, inblock = [], False
    gover = "1.26.4"
    for line in open(os.path.join(REPO, "go.mod")):
        t = line.strip()
        if t.startswith("go "):
            gover = t.split()[1]
        if t.startswith("require ("):
            inblock = True; continue
        if inblock and t == ")":
            inblock = False; continue
        if inblock and t and not t.startswith("//"):
            reqs.append(t.split("//")[0].strip())
        elif t.startswith("require ") and "(" not in t:
            reqs.append(t[len("require "):].split("//")[0].strip())
    body = "module verifharness\n\ngo %s\n\nrequire github.com/specterops/dawgs v0.0.0\n\nrequire (\n" % gover
    body += "".join("\t%s // indirect\n" % r for r in sorted(set(reqs)))
    body += ")\n\nreplace github.com/specterops/dawgs => %s\n" % REPO
    open(os.path.join(HARNESS, "go.mod"), "w").write(body)


def build_harness(ctx, race=False):
    write_harness_gomod()
    out_bin = HARNESS_BIN + ("-race" if race else "")
    cmd = ["go", "build", "-tags", "verif"] + (["-race"] if race else []) + ["-o", out_bin, "."]
    try:
        os.remove(out_bin)
    except FileNotFoundError:
        pass
    rc, out = sh(cmd, cwd=HARNESS, env=GOENV, timeout=1800)
    if rc != 0:
        ctx.say("harness build failed (does /repo still compile with -tags verif?)")
        ctx.say(out[-3000:])
    return rc == 0, out


def harness(ctx, suite, mode, args, timeout=3600, race=False, env=None):
    e = dict(GOENV)
    if env:
        e.update(env)
    rc, out = sh([HARNESS_BIN + ("-race" if race else ""), suite, mode] + args, env=e, timeout=timeout)
    return rc, out


def model_exe(suite):
    try:
        table = json.load(open(os.path.join(LEAN, "suites.json")))
    except Exception:
        table = {}
    return table.get(suite, "dawgsmodel")


def run_model(ctx, suite, ops_path, out_path, timeout=3600):
    exe = os.path.join(LEAN, ".lake", "build", "bin", model_exe(suite))
    with open(ops_path) as fin, open(out_path, "w") as fout:
        p = subprocess.run([exe, suite], stdin=fin, stdout=fout, stderr=subprocess.PIPE, timeout=timeout)
    return p.returncode == 0


def load_stats(path):
    try:
        return json.load(open(path)).get("counters", {})
    except Exception:
        return {}


# ---------------------------------------------------------------- cases

def split_cases(ops_lines, *outs):
    """Split parallel line lists into cases at '# case' lines. Returns list of dict(start, ops, outs=[...])."""
    cases, cur = [], None
    for i, l in enumerate(ops_lines):
        if l.startswith("# case") or cur is None:
            cur = {"start": i, "ops": [], "outs": [[] for _ in outs], "head": l}
            cases.append(cur)
        cur["ops"].append(l)
        for j, o in enumerate(outs):
            cur["outs"][j].append(o[i] if i < len(o) else "<missing>")
    return cases


def read_lines(path):
    with open(path, errors="replace") as f:
        return f.read().split("\n")[:-1] if os.path.getsize(path) else []


def case_hash(ops):
    return hashlib.sha1("\n".join(l for l in ops if not l.startswith("#")).encode()).hexdigest()


def ddmin(items, failing, keep_prefix=0, budget=400):
    """Delta debugging over a list; `failing(list) -> bool`. First keep_prefix items are never dropped."""
    head, body = items[:keep_prefix], items[keep_prefix:]
    n, calls = 2, 0
    while len(body) >= 2 and calls < budget:
        chunk = max(1, len(body) // n)
        reduced = False
        for i in range(0, len(body), chunk):
            cand = body[:i] + body[i + chunk:]
            calls += 1
            if cand != body and failing(head + cand):
                body, n, reduced = cand, max(n - 1, 2), True
                break
        if not reduced:
            if chunk == 1:
                break
            n = min(len(body), n * 2)
    return head + body


# ---------------------------------------------------------------- findings, replays, evidence

def load_known():
    p = os.path.join(VERIF, "known_findings.json")
    if not os.path.exists(p):
        return []
    return json.load(open(p))["findings"]


def write_replay(ctx, obj):
    d = os.path.join(VERIF, "replays", ctx.pid)
    os.makedirs(d, exist_ok=True)
    body = json.dumps(obj, indent=1, sort_keys=True)
    name = hashlib.sha1(body.encode()).hexdigest()[:16] + ".json"
    p = os.path.join(d, name)
    open(p, "w").write(body)
    return p


def report_finding(ctx, key, what, replay_obj, nofail=False):
    """Route one property failure: known (status 'known', exact key) -> KNOWN-FINDING; else VIOLATION."""
    for k in load_known():
        if k.get("property") == ctx.pid and k.get("key") == key and k.get("status") == "known":
            if key not in [x[0] for x in ctx.known_hits]:
                ctx.known_hits.append((key, k.get("what", what)))
                print("KNOWN-FINDING: property=%s %s [%s]" % (ctx.pid, k.get("what", what), key), flush=True)
            return
    replay_obj = dict(replay_obj, property=ctx.pid, finding_key=key, what=what, seed=ctx.seed, tier=ctx.tier)
    p = write_replay(ctx, replay_obj)
    ctx.violations.append({"replay": p, "nofail": nofail, "what": what, "key": key})
    print("VIOLATION property=%s replay=%s%s" % (ctx.pid, p, " no-failing-input-found" if nofail else ""), flush=True)


def write_evidence(ctx, level, coverage, assumptions):
    os.makedirs(os.path.join(VERIF, "evidence"), exist_ok=True)
    try:   # which tree this run judged (extra key; checks always rebuild from REPO's working tree)
        head = subprocess.check_output(["git", "-C", REPO, "rev-parse", "--short", "HEAD"], text=True).strip()
        dirty = bool(subprocess.check_output(["git", "-C", REPO, "status", "--porcelain", "--untracked-files=no"], text=True).strip())
        coverage = dict(coverage, repo={"path": REPO, "head": head, "working_tree_modified": dirty})
    except Exception:
        pass
    ev = {
        "property_id": ctx.pid, "tier": ctx.tier, "seed": ctx.seed, "level": level,
        "coverage": coverage, "assumptions": assumptions,
        "wall_s": round(time.time() - ctx.t0, 2), "violations": len(ctx.violations),
        "known_findings_hit": [k for k, _ in ctx.known_hits],
    }
    p = os.path.join(VERIF, "evidence", ctx.pid + ".json")
    open(p, "w").write(json.dumps(ev, indent=1))
    return p


def finish(ctx):
    return 1 if ctx.violations else 0
