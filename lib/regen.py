"""Fact extractors (T-tie) shared by several properties. Each function deletes the generated file,
regenerates it from REPO's current sources and raises on failure."""
import os, subprocess
from verif import VERIF, REPO, LEAN, GOENV, sh

GEN = os.path.join(LEAN, "Dawgs", "Generated")
GOEXT_SRC = os.path.join(VERIF, "tools", "extract", "goext")
GOEXT_BIN = os.path.join(VERIF, "tools", "extract", "bin", "goext")
_done = set()


def _rm(name):
    try:
        os.remove(os.path.join(GEN, name))
    except FileNotFoundError:
        pass


def build_goext():
    if "goext" in _done:
        return
    rc, out = sh(["go", "build", "-o", GOEXT_BIN, "."], cwd=GOEXT_SRC, env=GOENV, timeout=600)
    if rc != 0:
        raise RuntimeError("goext build failed: " + out[-1500:])
    _done.add("goext")


def goext(mode, outname):
    build_goext()
    _rm(outname)
    rc, out = sh([GOEXT_BIN, mode, REPO, os.path.join(GEN, outname)], timeout=600)
    if rc != 0:
        raise RuntimeError("goext %s failed: %s" % (mode, out[-1500:]))


def grammar():
    _rm("Grammar.lean")
    rc, out = sh(["python3", os.path.join(VERIF, "tools", "extract", "grammar.py"),
                  os.path.join(REPO, "cypher", "grammar", "Cypher.g4"), os.path.join(GEN, "Grammar.lean")], timeout=120)
    if rc != 0:
        raise RuntimeError("grammar.py failed: " + out[-1500:])


def frontend():
    goext("frontend", "Frontend.lean")


def c11():
    """C11: schema, copy table, structural/semantic branch tables, indexed-write/append facts (goext mode c11)."""
    goext("c11", "C11.lean")


def visitors():
    """listener protocol table (push/pop actions with guards per visitor type and rule), C08/C07"""
    goext("visitors", "Visitors.lean")


def witness(script, outname, build_first):
    """Run lean/Witness/<script>.lean (compiled evaluation, untrusted) and store its stdout as a generated file."""
    _rm(outname)
    rc, out = sh(["lake", "build"] + build_first, cwd=LEAN, timeout=1800)
    if rc != 0:
        raise RuntimeError("lake build %s failed: %s" % (build_first, out[-2000:]))
    p = subprocess.run(["lake", "env", "lean", "--run", os.path.join("Witness", script + ".lean")], cwd=LEAN,
                       stdout=subprocess.PIPE, stderr=subprocess.PIPE, text=True, timeout=600)
    if p.returncode != 0:
        raise RuntimeError("witness %s failed: %s" % (script, p.stderr[-1500:]))
    open(os.path.join(GEN, outname), "w").write(p.stdout)


def schema():
    """drivers/pg/query/sql/schema_up.sql -> Generated/Schema.lean (tables, composite types, functions)."""
    _rm("Schema.lean")
    rc, out = sh(["python3", os.path.join(VERIF, "tools", "extract", "schema.py"),
                  os.path.join(REPO, "drivers", "pg", "query", "sql", "schema_up.sql"), os.path.join(GEN, "Schema.lean")], timeout=120)
    if rc != 0:
        raise RuntimeError("schema.py failed: " + out[-1500:])


def c06_sites():
    """Scope access sites of cypher/models/pgsql/translate with the provenance of their identifier argument."""
    goext("c06", "C06Sites.lean")


def c04_sites():
    """Write sites of cypher/models/pgsql/format (provenance class per argument) and the construction sites of identifiers,
    aliases, LIKE patterns, nested SQL, parameters and column lists in translate/optimize (goext mode c04)."""
    goext("c04", "C04Sites.lean")


GOTYPED_SRC = os.path.join(VERIF, "tools", "extract", "gotyped")
GOTYPED_BIN = os.path.join(VERIF, "tools", "extract", "bin", "gotyped")


def gotyped(mode, outname):
    """Type-aware extractor (go/types, source importer); its own module so that the repository's toolchain builds it."""
    if "gotyped" not in _done:
        rc, out = sh(["go", "build", "-o", GOTYPED_BIN, "."], cwd=GOTYPED_SRC, env=GOENV, timeout=600)
        if rc != 0:
            raise RuntimeError("gotyped build failed: " + out[-1500:])
        _done.add("gotyped")
    _rm(outname)
    rc, out = sh([GOTYPED_BIN, mode, REPO, os.path.join(GEN, outname)], env=GOENV, timeout=600)
    if rc != 0:
        raise RuntimeError("gotyped %s failed: %s" % (mode, out[-1500:]))


def c05_facts():
    """map ranges (typed), parameter-map copy, query uses, walk.Generic shape, kind mapper lock table."""
    gotyped("c05", "C05_ranges.lean")


def c02guard():
    """optimize/lowering_plan.go + translate/projection.go -> Generated/C02Guard.lean (guards of limit pushdown / count fast path as source text)."""
    goext("c02guard", "C02Guard.lean")
