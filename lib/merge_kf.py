import json, subprocess, sys
def show(ref):
    try:
        return json.loads(subprocess.check_output(["git", "show", ref + ":known_findings.json"], text=True))
    except Exception:
        return {"findings": []}
ours, theirs = show("HEAD"), show("MERGE_HEAD")
idx = {(f["property"], f["key"]): f for f in ours["findings"]}
for f in theirs["findings"]:
    k = (f["property"], f["key"])
    if k not in idx:
        ours["findings"].append(f)
    elif f["status"] == "fixed" and idx[k]["status"] != "fixed":      # a branch that flipped a finding to fixed wins
        idx[k].update({"status": "fixed", "commit": f.get("commit", "pending"), "what": f.get("what", idx[k].get("what"))})
retracted = {r["key"]: r for r in ours.get("retracted", []) + theirs.get("retracted", [])}
ours["retracted"] = list(retracted.values())
ours["findings"] = [f for f in ours["findings"] if f["key"] not in retracted]
json.dump(ours, open("known_findings.json", "w"), indent=1, ensure_ascii=False)
print("known_findings:", len(ours["findings"]))
