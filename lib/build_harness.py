#!/usr/bin/env python3
"""Used by setup.sh: (re)writes harness/go.mod from /repo's go.mod and builds the harness with -tags verif."""
import os, sys
sys.path.insert(0, os.path.dirname(os.path.abspath(__file__)))
import verif
ok, out = verif.build_harness(verif.Ctx("setup", "quick", 1))
print(out[-2000:] if not ok else "harness built")
sys.exit(0 if ok else 1)
