#!/bin/sh
# Offline build of the framework from files on disk: Lean library + model driver, Go harness.
set -e
cd "$(dirname "$0")"
export GOFLAGS=-mod=mod GOPROXY=off
python3 lib/gen_main.py
python3 lib/regen_all.py
(cd lean && lake build Dawgs dawgsmodel dawgsmodelg)
python3 lib/build_harness.py
echo setup-ok
